#!/usr/bin/env python3
"""Regenerates /verif/MANIFEST.json from the table below (single source of truth for what is claimed)."""
import json, os, subprocess
V = os.path.dirname(os.path.dirname(os.path.abspath(__file__)))
props = [json.loads(l) for l in open(os.path.join(V, "properties.jsonl"))]

# id -> (category, technique, level text, level note)
CLAIMED = {}
def claim(pid, cat, technique, text, note):
    CLAIMED[pid] = (cat, technique, text, note)

def also(pid, text):
    """phases added to a check after the first version (seeded-change rounds, coverage review): appended to its level text"""
    cat, technique, t, note = CLAIMED[pid]
    CLAIMED[pid] = (cat, technique, t + " Added later: " + text, note)

exec(open(os.path.join(V, "tools", "claims.py")).read())

checks, na = [], []
for p in props:
    pid = p["id"]
    if pid in CLAIMED and os.path.isdir(os.path.join(V, "harness", "cmd", pid.lower())):
        cat, tech, text, note = CLAIMED[pid]
        checks.append({
            "property_id": pid,
            "quick_cmd": f"./check {pid} quick",
            "thorough_cmd": f"./check {pid} thorough",
            "evidence_file": f"/verif/evidence/{pid}.json",
            "replay_cmd_template": f"./check {pid} --replay {{path}}",
            "engine": "verifharness",
            "level_claimed": {"category": cat, "text": text, "design_ref": f"DESIGN.md section 3, {pid}"},
            "level_note": note,
            "technique": tech,
        })
    else:
        na.append({"property_id": pid, "reason": "check under construction in this session (runtime monitor designed in DESIGN.md section 3 but not yet built); not claimed until it runs green on the unchanged tree"})

hooks_commits = subprocess.run(["git", "-C", "/repo", "log", "--format=%h", "--grep=^verif hooks"], capture_output=True, text=True).stdout.split()
m = {
    "version": 1,
    "setup_cmd": "./tools/setup.sh",
    "hooks": {
        "guard": "verif",
        "enable": "go build -tags verif (the check driver builds /verif/harness, which replaces github.com/notaryproject/notation-go with /repo, with -tags verif; the only hook is internal/file.VerifHook called from WriteFile)",
        "baseline_off_cmd": "cd /repo && GOFLAGS=-mod=mod GOPROXY=off GOSUMDB=off GOTOOLCHAIN=local go test -json -vet=off -count=1 -timeout 25m ./...",
        "source_commits": hooks_commits,
        "add_only": True,
    },
    "engines": [{
        "name": "verifharness",
        "path": "/verif/harness",
        "serves_properties": [c["property_id"] for c in checks],
        "kind_free_text": "Go module of runtime monitors (one program per property under cmd/, shared generators and oracles in lib/) that execute the real notation-go built from /repo's working tree with -tags verif; race detector, porcupine, strace fault injection, chroot jails and child processes where the property needs them",
    }],
    "checks": checks,
    "notes": "Technique family: runtime monitoring and sanitizers. Exit codes of ./check: 0 held on everything observed, 1 VIOLATION line(s), 2 inconclusive (never on the unchanged tree), 3 harness build failure. Known findings: /verif/KNOWN_FINDINGS.json. Seeded defects used to validate the monitors: /verif/seeded/.",
    "not_applicable": na,
}
json.dump(m, open(os.path.join(V, "MANIFEST.json"), "w"), indent=1)
print(f"MANIFEST.json: {len(checks)} checks claimed, {len(na)} not claimed")
