#!/bin/bash
# usage: tools/r9.sh <label> <worktree root> <staging> <ID>...   like r6.sh, but several may run at once (own list, output and private copies per label)
L=$1; WT=$2; ST=$3; shift 3
: > /root/r9-$L.list
for id in "$@"; do
  [ -d $WT/$id/_out ] || { echo "no output for $id"; continue; }
  rm -rf $ST/$id; cp -r $WT/$id/_out $ST/$id; git -C /repo worktree remove --force $WT/$id 2>/dev/null
  for d in $ST/$id/m[0-9]; do echo "$id-$(basename $d) $d/patch.diff $id" >> /root/r9-$L.list; done
done
cut -d' ' -f2 /root/r9-$L.list | xargs -n1 dirname | xargs -P 4 -I{} sh -c '/verif/tools/confirm_mutant.sh {} >> '$ST'/confirm.jsonl'
n=$(wc -l < /root/r9-$L.list); [ $n -gt 6 ] && n=6
PARDIR=/root/par-$L /verif/tools/parmut.sh $n /root/r9-$L.list /root/r9-$L.out > /dev/null 2>&1
grep -v FINISHED /root/r9-$L.out | sort >> $ST/matrix.txt
grep -v FINISHED /root/r9-$L.out | sort | cut -c1-170
