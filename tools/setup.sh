#!/bin/bash
# Builds the framework offline from files on disk (warms the Go build cache for every monitor).
set -e
cd "$(dirname "$(readlink -f "$0")")/.."
export GOFLAGS=-mod=mod GOPROXY=off GOSUMDB=off GOTOOLCHAIN=local
mkdir -p bin evidence replays
cd harness
go build -tags verif ./...
for d in cmd/*/; do
  n=$(basename "$d")
  go build -tags verif -o "../bin/$n" "./cmd/$n"
done
if [ -d cmd/worker ]; then CGO_ENABLED=0 go build -tags verif -o ../bin/worker ./cmd/worker; fi
# race-instrumented variants used by C14 (both tiers) and C12 (thorough)
for n in c14 worker; do
  if [ -d "cmd/$n" ]; then go build -tags verif -race -o "../bin/$n-race" "./cmd/$n"; fi
done
echo "setup ok"
