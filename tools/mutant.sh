#!/bin/bash
# usage: tools/mutant.sh <patch.diff> <ID> [tier]   — applies a seeded change to /repo, runs the check, always reverts.
P=$(readlink -f "$1"); ID=$2; TIER=${3:-quick}
cd /repo || exit 9
if [ -n "$(git status --porcelain --untracked-files=no)" ]; then echo "/repo not clean"; exit 9; fi
if ! git apply --3way "$P" 2>/tmp/apply.err; then
  if ! git apply "$P" 2>>/tmp/apply.err; then echo "PATCH DOES NOT APPLY: $P"; cat /tmp/apply.err; git checkout -- . ; exit 8; fi
fi
git reset -q 2>/dev/null
cd /verif && VERIF_WATCHDOG_S=${VERIF_WATCHDOG_S:-900} timeout 1800 ./check "$ID" "$TIER" > /tmp/mutant.out 2>&1; rc=$?
git -C /repo checkout -- . ; git -C /repo clean -fdq -e tmp 2>/dev/null
echo "rc=$rc $(grep -c '^VIOLATION' /tmp/mutant.out) VIOLATION lines; $(grep 'violating observations' /tmp/mutant.out | cut -c1-300)"
grep -m2 -A1 '^VIOLATION' /tmp/mutant.out | grep what | cut -c1-300
exit $rc
