#!/bin/bash
# usage: tools/r5.sh <worktree root> <staging dir> <ID>...  stage a finished agent's output, remove its worktree, confirm and test its mutants
WT=$1; ST=$2; shift 2
for id in "$@"; do
  [ -d $WT/$id/_out ] || { echo "no output for $id"; continue; }
  rm -rf $ST/$id; cp -r $WT/$id/_out $ST/$id; git -C /repo worktree remove --force $WT/$id 2>/dev/null
  for d in $ST/$id/m[0-9]; do
    c=$(/verif/tools/confirm_mutant.sh "$d"); echo "$c" >> $ST/confirm.jsonl
    ok=$(echo "$c" | python3 -c "import sys,json;d=json.loads(sys.stdin.read());print('CONFIRMED' if d.get('applies') and d.get('builds') and d.get('suite_ok') and d.get('demo_with_patch_rc')!=0 and d.get('demo_without_patch_rc')==0 else 'NOT-CONFIRMED '+json.dumps(d))")
    m=$(/verif/tools/mutant.sh "$d/patch.diff" $id 2>&1 | head -1 | cut -c1-200)
    echo "$id $(basename $d) [$id] $m   # $ok" | tee -a $ST/matrix.txt
  done
done
