#!/bin/bash
# usage: tools/confirm_mutant.sh <dir with patch.diff + demo_test.go>  -> prints one JSON line
# Confirms in a scratch worktree of /repo HEAD: patch applies, builds, repo suite still passes (700 stable tests),
# demo fails with the patch and passes without it. The worktree is removed afterwards.
D=$(readlink -f "$1")
export GOFLAGS=-mod=mod GOPROXY=off GOSUMDB=off GOTOOLCHAIN=local
WT=$(mktemp -d /tmp/cm-XXXXXX); rmdir "$WT"
git -C /repo worktree add -q --detach "$WT" HEAD || { echo "{\"dir\":\"$D\",\"error\":\"worktree\"}"; exit 1; }
cleanup() { git -C /repo worktree remove --force "$WT" 2>/dev/null; rm -rf "$WT"; }
trap cleanup EXIT
cd "$WT"
applies=true; git apply "$D/patch.diff" 2>/dev/null || git apply --3way "$D/patch.diff" 2>/dev/null || applies=false
if ! $applies; then echo "{\"dir\":\"$D\",\"applies\":false}"; exit 0; fi
git diff HEAD > "$WT/.applied.diff"; git reset -q
builds=true; go build ./... 2>/dev/null || builds=false
suite=$(/verif/tools/suite.sh "$WT" 2>&1 | head -1)
suite_ok=false; echo "$suite" | grep -q "stable-pass missing: 0; new failures: 0" && suite_ok=true
place=$(head -1 "$D/demo_test.go" | sed -n 's#^// place at: *##p' | tr -d '\r')
[ -z "$place" ] && place="zz_demo_test.go"
mkdir -p "$(dirname "$WT/$place")"; cp "$D/demo_test.go" "$WT/$place"
pkg="./$(dirname "$place")"
name=$(basename "$place")
timeout 600 go test -vet=off -count=1 -run 'Demo|demo' "$pkg" > "$WT/.demo_with.log" 2>&1; with_rc=$?
git apply -R "$WT/.applied.diff" 2>/dev/null || git checkout -- . 
timeout 600 go test -vet=off -count=1 -run 'Demo|demo' "$pkg" > "$WT/.demo_without.log" 2>&1; without_rc=$?
echo "{\"dir\":\"$D\",\"applies\":true,\"builds\":$builds,\"suite_ok\":$suite_ok,\"suite\":\"$suite\",\"demo_with_patch_rc\":$with_rc,\"demo_without_patch_rc\":$without_rc}"
