#!/bin/bash
# usage: tools/r2.sh <staging dir> <ID>...   confirm and test staged mutants of the given properties
ST=$1; shift
for id in "$@"; do
  for d in $ST/$id/m[0-9]*; do
    [ -f "$d/patch.diff" ] || continue
    c=$(/verif/tools/confirm_mutant.sh "$d")
    echo "$c" >> $ST/confirm.jsonl
    ok=$(echo "$c" | python3 -c "import sys,json;d=json.loads(sys.stdin.read());print('CONFIRMED' if d.get('applies') and d.get('builds') and d.get('suite_ok') and d.get('demo_with_patch_rc')!=0 and d.get('demo_without_patch_rc')==0 else 'NOT-CONFIRMED '+json.dumps(d))")
    m=$(/verif/tools/mutant.sh "$d/patch.diff" $id 2>&1 | head -1 | cut -c1-220)
    echo "== $id $(basename $d) $ok | $m" | tee -a $ST/matrix.txt
  done
done
