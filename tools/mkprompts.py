#!/usr/bin/env python3
"""usage: mkprompts.py <worktree root> <round> <N per agent> <ID>...  -- writes prop_<ID>.txt and prompt_<ID>.md for fresh mutant sub-agents
(property text + the list of changes already kept under seeded/, nothing else from /verif) and creates the scratch worktrees."""
import json, glob, os, subprocess, sys
root, rnd, n = sys.argv[1], sys.argv[2], int(sys.argv[3]); ids = sys.argv[4:]
props = {}
for l in open('/verif/properties.jsonl'):
    d = json.loads(l); props[d['id']] = d
known = {}
for m in sorted(glob.glob('/verif/seeded/*/meta.json')):
    d = json.load(open(m))
    known.setdefault(d['property'], []).append((d.get('change', ''), d.get('needs_to_manifest', '')))
words = {1: 'ONE', 2: 'TWO', 3: 'THREE'}
mlist = {1: 'm1', 2: 'm1 and m2', 3: 'm1, m2 and m3'}
HEAD = '''You are helping to evaluate a verification framework by producing *seeded defects* (mutants) for the Go library notaryproject/notation-go.

Your scratch git worktree of the library is at: {root}/{pid}   (work ONLY inside this directory; never touch /repo, never read or touch /verif, never look at other directories under {root} except the one property file named below). Do NOT use `git stash` (the stash is shared between worktrees of the same repository and other agents are working in sibling worktrees at the same time); use `git apply` / `git apply -R` / `git checkout -- .` only.

The semantic property you have to break is described in the file {root}/prop_{pid}.txt - read it first, then read the code it is anchored in.

Environment (must be set in EVERY shell call, the sandbox has no network):
  export GOFLAGS=-mod=mod GOPROXY=off GOSUMDB=off GOTOOLCHAIN=local

TASK: produce {N} different, independent change(s) (mutants {mlist}) to the library source (non-test .go files) in the worktree such that, for each one:
 1. the library still compiles (`go build ./...`) and the EXISTING test suite still passes unchanged:
      cd {root}/{pid} && go test -vet=off -count=1 ./...
    The following tests fail already on the unchanged tree in this sandbox (they need network or non-root) and may keep failing; nothing else may fail:
      internal/file TestCopyToDir, TestWriteFile/permission_denied; internal/mock/ocilayout TestCopy; registry TestNewOCIRepositoryFailed; signer TestSignWithTimestamping; verifier/crl TestNewFileCacheFailed (it panics as root and hides the rest of that package; with it skipped TestGetFailed / TestSetFailed permission sub-tests also fail as root); verifier/trustpolicy TestGetDocumentErrors; verifier TestAuthenticTimestamp.
    You may not edit, delete or add files ending in _test.go as part of the mutant (the demonstration test is kept separately, see below).
 2. the change BREAKS the property (makes the statement false for some input / configuration / schedule / crash point / history).
 3. the change is REALISTIC (the kind of regression a maintainer could plausibly introduce in a refactor, optimisation or "fix") and needs something specific to manifest - a legitimate but uncommon input, option, configuration, environment, sequence of calls or interleaving, a crash or fault at a particular point, or two cooperating sites that each look fine alone - NOT something that ordinary use would expose at once (a change that breaks the happy path is useless, the existing tests would catch it). Prefer small diffs (1-15 lines). The mutants must be at different code sites and break different clauses or sub-cases of the property.
 4. you provide a DEMONSTRATION: a Go test file (package-internal or external test, placed in the appropriate package directory of the worktree when it runs) that FAILS with the mutant applied and PASSES on the unmodified tree. It must run offline, deterministically (or with a very high failure probability for concurrency properties, say by looping), in under 2 minutes. Name the test functions TestDemo....

Deliverables - write them to {root}/{pid}/_out/ (create it):
   _out/m1/patch.diff      `git diff` of the library change only (must apply with `git apply` on the unmodified worktree HEAD)
   _out/m1/demo_test.go    the demonstration test; first line a comment `// place at: <relative/dir/in/repo>/zz_demo_m1_test.go`
   _out/m1/README.md       which clause of the property breaks, what is needed for it to manifest, and the exact commands you ran (suite + demo, with and without the patch) with their results
   _out/m2/...  likewise for every further mutant
Finally leave the worktree CLEAN (git checkout -- . ; remove the demo test files from the package dirs; `git status --short` shows only _out/).

Verify everything yourself before finishing: (a) apply patch -> full suite passes apart from the listed pre-existing failures -> demo FAILS; (b) revert patch -> demo PASSES. Report in your final message a 4-line summary per mutant. Do not ask questions; make your own decisions. You have about {minutes} minutes: deliver each mutant as soon as it is verified (write its _out/mK directory at once) rather than all at the end.

ALREADY KNOWN (found in earlier rounds - do NOT repeat these or close variants of them; pick different code sites and different clauses / sub-cases of the property):
{known}

This is round {rnd}. A verification harness built from the property text already detects everything in the list above. Your goal is to find what such a harness would most plausibly still OVERLOOK. Work systematically: go through the property statement clause by clause and the quantifier item by item, and for each clause list the code sites (in the anchored files AND in the helpers / dependency-facing adapters they call, including code in other packages of this repository reached from the anchored functions) that implement it; then pick sites that the list above has not touched and plant the most ordinary slip there (wrong variable of the same type, off-by-one / wrong bound / wrong comparison operator, `&&` for `||`, inverted condition on an uncommon branch, check dropped from one of two parallel paths, early return / break / continue at the wrong level, shadowed or dropped error, wrong default, wrong order of two steps, a value computed before instead of after a mutation, a slice/map shared instead of copied, state cached on an object between calls, a deferred cleanup that runs too early or not on one path). Prefer sub-cases that are legitimate but rare: second element of a list, last page, empty-but-present values, maximum sizes, unusual-but-valid encodings, the less used of two formats/schemes/interfaces/constructors, options that are usually left at their default, error paths whose error is usually nil, state left behind by a previous failed call, the second call on the same object, two objects sharing a directory.'''
os.makedirs(root, exist_ok=True)
for pid in ids:
    open(f'{root}/prop_{pid}.txt', 'w').write(json.dumps(props[pid], indent=1))
    kl = '\n'.join(f' - {c} (needs: {nd})' for c, nd in known.get(pid, []))
    t = HEAD.replace('{root}', root).replace('{pid}', pid).replace('{known}', kl).replace('{N}', words[n]).replace('{mlist}', mlist[n]).replace('{rnd}', rnd).replace('{minutes}', str(15 * n))
    open(f'{root}/prompt_{pid}.md', 'w').write(t)
    subprocess.run(['git', '-C', '/repo', 'worktree', 'add', '--detach', '-q', f'{root}/{pid}', 'HEAD'])
    print('prepared', pid)
