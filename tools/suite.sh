#!/bin/bash
# Runs the repository's own suite with the verif guard OFF and compares with BASELINE.json (700 stable-pass tests).
# usage: tools/suite.sh [repo-dir]
set -u
REPO=${1:-/repo}
export GOFLAGS=-mod=mod GOPROXY=off GOSUMDB=off GOTOOLCHAIN=local
OUT=$(mktemp /tmp/suite.XXXXXX.json)
(cd "$REPO" && go test -json -vet=off -count=1 -timeout 25m ./... > "$OUT" 2>/dev/null)
python3 - "$OUT" <<'PY'
import json,sys
base=json.load(open('/root/.vp/BASELINE.json'))
stable=set(base['stable_pass'])
res={}
for l in open(sys.argv[1]):
    try: e=json.loads(l)
    except Exception: continue
    if e.get('Test') and e.get('Action') in('pass','fail','skip'):
        res[e['Package']+'::'+e['Test']]=e['Action']
missing=[t for t in stable if res.get(t)!='pass']
newfail=[t for t,a in res.items() if a=='fail' and t not in set(base['always_fail'])]
print(f"suite: {sum(1 for a in res.values() if a=='pass')} passed, {sum(1 for a in res.values() if a=='fail')} failed; stable-pass missing: {len(missing)}; new failures: {len(newfail)}")
for t in sorted(missing)[:30]: print("  NOT PASSING:",t,res.get(t))
for t in sorted(newfail)[:30]: print("  NEW FAIL:",t)
sys.exit(1 if missing or newfail else 0)
PY
rc=$?
rm -f "$OUT"
exit $rc
