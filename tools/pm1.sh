#!/bin/bash
# usage: tools/pm1.sh <patch.diff> <ID> [tier]   one seeded change against one check in a throw-away private copy of /repo and the
# harness (so /repo is never touched and several may run at once); prints the verdict line and the first violations.
P=$(readlink -f "$1"); ID=$2; TIER=${3:-quick}
export GOFLAGS=-mod=mod GOPROXY=off GOSUMDB=off GOTOOLCHAIN=local
D=$(mktemp -d /root/pm1-XXXXXX)
trap 'rm -rf $D' EXIT
cp -r /repo $D/repo; rm -rf $D/repo/.git; (cd $D/repo && git init -q && git add -A && git -c user.email=x@y -c user.name=x commit -qm base)
mkdir -p $D/verif; cp -r /verif/harness /verif/check /verif/tools /verif/KNOWN_FINDINGS.json /verif/properties.jsonl $D/verif/
sed -i "s#=> /repo#=> $D/repo#" $D/verif/harness/go.mod
cd $D/repo; git apply "$P" 2>/dev/null || git apply --3way "$P" 2>/dev/null || { echo "PATCH-DOES-NOT-APPLY"; exit 8; }
cd $D/verif; VERIF_WATCHDOG_S=900 VERIF_SCRATCH=$D timeout 1800 ./check $ID $TIER > $D/out.log 2>&1; rc=$?
echo "rc=$rc $(grep -c '^VIOLATION' $D/out.log) VIOLATION lines; $(grep 'violating observations' $D/out.log | cut -c1-300)"
grep -m3 -A1 '^VIOLATION' $D/out.log | grep -i what | cut -c1-400
[ -n "$PM1_KEEP" ] && cp $D/out.log $PM1_KEEP
exit $rc
