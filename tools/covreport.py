#!/usr/bin/env python3
"""usage: covreport.py <cov dir> [ID...]  -- union of the given checks' profiles (default: all); prints uncovered blocks of notation-go with source."""
import sys, os, re, collections
cov = sys.argv[1]; ids = sys.argv[2:] or [f'C{i:02d}' for i in range(1, 21)]
blocks = collections.defaultdict(int)
for i in ids:
    fn = os.path.join(cov, f'profile-{i}.lib.txt')
    if not os.path.exists(fn): continue
    for l in open(fn):
        m = re.match(r'(\S+):(\d+)\.(\d+),(\d+)\.(\d+) (\d+) (\d+)', l)
        if m:
            k = (m.group(1), int(m.group(2)), int(m.group(4)), int(m.group(6)))
            blocks[k] = max(blocks[k], int(m.group(7)))
by = collections.defaultdict(list)
tot = cv = 0
for (f, a, b, n), c in blocks.items():
    tot += n; cv += n if c else 0
    if not c: by[f].append((a, b))
print(f'checks {ids}: {cv}/{tot} statements covered ({100*cv/tot:.1f}%)')
for f in sorted(by):
    rel = f.replace('github.com/notaryproject/notation-go/', '')
    if rel.startswith('internal/mock') or '/testhelper' in rel or 'hook_' in rel: continue
    src = open('/repo/' + rel).read().split('\n')
    print('==', rel)
    for a, b in sorted(by[f]):
        print(f'  {a}-{b}: ' + ' | '.join(x.strip() for x in src[a-1:min(b, a+2)])[:170])
