#!/usr/bin/env python3
"""Validates MANIFEST.json and every evidence file against the schemas (run with python3-vt, which has jsonschema)."""
import json, sys, glob, os
import jsonschema
V = os.path.dirname(os.path.dirname(os.path.abspath(__file__)))
ok = True
def val(path, schema):
    global ok
    try:
        jsonschema.validate(json.load(open(path)), json.load(open(schema)))
        print("ok  ", path)
    except Exception as e:
        ok = False
        print("FAIL", path, str(e)[:300])
val(V + "/MANIFEST.json", "/root/.vp/MANIFEST.schema.json")
m = json.load(open(V + "/MANIFEST.json"))
for c in m["checks"]:
    if os.path.exists(c["evidence_file"]):
        val(c["evidence_file"], "/root/.vp/EVIDENCE.schema.json")
    else:
        print("MISSING evidence", c["evidence_file"]); ok = False
ids = {json.loads(l)["id"] for l in open(V + "/properties.jsonl")}
got = {c["property_id"] for c in m["checks"]} | {n["property_id"] for n in m.get("not_applicable", [])}
if ids != got:
    print("properties not accounted for:", ids ^ got); ok = False
sys.exit(0 if ok else 1)
