#!/bin/bash
# usage: tools/sweep.sh <tier> <seed...>   runs every claimed check at the given tier/seeds; prints one line per run
TIER=$1; shift
cd "$(dirname "$(readlink -f "$0")")/.."
for seed in "$@"; do
  for id in $(python3 -c "import json;print(' '.join(c['property_id'] for c in json.load(open('MANIFEST.json'))['checks']))"); do
    t0=$(date +%s)
    VERIF_SEED=$seed ./check $id $TIER > /tmp/sweep-$id-$TIER-$seed.log 2>&1; rc=$?
    echo "$id $TIER seed=$seed rc=$rc $(( $(date +%s)-t0 ))s $(grep -c '^VIOLATION' /tmp/sweep-$id-$TIER-$seed.log) violations $(grep -c '^INCONCLUSIVE' /tmp/sweep-$id-$TIER-$seed.log) inconclusive"
  done
done
