#!/bin/bash
# usage: tools/coverage.sh [ID...]   which statements of notation-go do the quick tiers execute?
# Builds coverage-instrumented copies of the check binaries (and the worker) outside /verif, runs the quick tier of each
# check with GOCOVERDIR set, and prints per check the functions of the property's anchored files that are not fully
# covered. Diagnostic only (not a registered command): a monitor cannot see a change in code it never executes.
set -u
cd "$(dirname "$(readlink -f "$0")")/.."
export GOFLAGS=-mod=mod GOPROXY=off GOSUMDB=off GOTOOLCHAIN=local
OUT=${COV_OUT:-/root/cov}
IDS=${@:-$(python3 -c "import json;print(' '.join(c['property_id'] for c in json.load(open('MANIFEST.json'))['checks']))")}
mkdir -p $OUT/bin
for id in $IDS; do
  rm -rf $OUT/data-$id; mkdir -p $OUT/data-$id
  GOCOVERDIR=$OUT/data-$id VERIF_BINDIR=$OUT/bin VERIF_SCRATCH=$OUT VERIF_BUILDFLAGS="-cover -coverpkg=github.com/notaryproject/notation-go/..." ./check $id quick > $OUT/run-$id.log 2>&1
  echo "$id rc=$? $(tail -1 $OUT/run-$id.log | cut -c1-100)"
  (cd harness && go tool covdata textfmt -i=$OUT/data-$id -o $OUT/profile-$id.txt) 2>/dev/null
  grep -v "verifharness" $OUT/profile-$id.txt > $OUT/profile-$id.lib.txt
  (cd /repo && go tool cover -func=$OUT/profile-$id.lib.txt 2>/dev/null | grep -v "100.0%" > $OUT/func-$id.txt)
done
git checkout -- evidence 2>/dev/null
