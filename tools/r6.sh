#!/bin/bash
# usage: tools/r6.sh <worktree root> <staging> <ID>...   stage, confirm (4 at a time) and test (4 private copies) finished agents' mutants
WT=$1; ST=$2; shift 2
: > /root/r6.list
for id in "$@"; do
  [ -d $WT/$id/_out ] || { echo "no output for $id"; continue; }
  rm -rf $ST/$id; cp -r $WT/$id/_out $ST/$id; git -C /repo worktree remove --force $WT/$id 2>/dev/null
  for d in $ST/$id/m[0-9]; do echo "$id-$(basename $d) $d/patch.diff $id" >> /root/r6.list; done
done
cut -d' ' -f2 /root/r6.list | xargs -n1 dirname | xargs -P 4 -I{} sh -c '/verif/tools/confirm_mutant.sh {} >> '$ST'/confirm.jsonl'
/verif/tools/parmut.sh 4 /root/r6.list /root/r6.out > /dev/null 2>&1
grep -v FINISHED /root/r6.out | sort >> $ST/matrix.txt
python3 - $ST <<'P'
import json,sys
st=sys.argv[1]
bad=[l for l in open(st+'/confirm.jsonl') if not (lambda d: d.get('applies') and d.get('builds') and d.get('suite_ok') and d.get('demo_with_patch_rc')!=0 and d.get('demo_without_patch_rc')==0)(json.loads(l))]
print('NOT CONFIRMED:', bad if bad else 'none')
P
grep -v FINISHED /root/r6.out | sort | cut -c1-170
