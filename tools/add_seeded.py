#!/usr/bin/env python3
"""usage: add_seeded.py <staging dir> <round> <origin text>  -- copies staged, confirmed mutants into seeded/<prop>-r<round>m<k>/ with meta.json.
Reads <staging>/confirm.jsonl (tools/confirm_mutant.sh output), matrix_first_pass.txt and matrix_final.txt and notes.json (change / needs / strengthening per id)."""
import json, os, re, shutil, sys
st, rnd, origin = sys.argv[1], int(sys.argv[2]), sys.argv[3]
notes = json.load(open(os.path.join(st, 'notes.json')))
conf = {}
for l in open(os.path.join(st, 'confirm.jsonl')):
    try:
        d = json.loads(l)
    except Exception:
        continue
    conf[d.get('dir', '').rstrip('/')] = d
def matrix(fn):
    out = {}
    for l in open(os.path.join(st, fn)):
        m = re.match(r'(?:== )?(C\d\d) (m\d) (?:CONFIRMED \| |\[(C\d\d)\] )?(.*)', l.strip())
        if m:
            out[(m.group(1), m.group(2))] = (m.group(3) or m.group(1), m.group(4))
    return out
first, final = matrix('matrix_first_pass.txt'), matrix('matrix_final.txt')
for prop in sorted(os.listdir(st)):
    if not re.fullmatch(r'C\d\d', prop):
        continue
    for m in sorted(os.listdir(os.path.join(st, prop))):
        src = os.path.join(st, prop, m)
        if not re.fullmatch(r'm\d', m) or not os.path.exists(os.path.join(src, 'patch.diff')):
            continue
        sid = f'{prop}-r{rnd}{m}'
        c = conf.get(src)
        ok = c and c.get('applies') and c.get('builds') and c.get('suite_ok') and c.get('demo_with_patch_rc') != 0 and c.get('demo_without_patch_rc') == 0
        if not ok:
            print('NOT CONFIRMED, skipped:', sid, c)
            continue
        dst = os.path.join('/verif/seeded', sid)
        os.makedirs(dst, exist_ok=True)
        for f in ('patch.diff', 'demo_test.go', 'README.md'):
            if os.path.exists(os.path.join(src, f)):
                shutil.copy(os.path.join(src, f), os.path.join(dst, f))
        files = sorted(set(re.findall(r'^\+\+\+ b/(\S+)', open(os.path.join(src, 'patch.diff')).read(), re.M)))
        n = notes.get(sid, {})
        chk, res = final.get((prop, m), (prop, '?'))
        meta = {'id': sid, 'property': prop, 'round': rnd, 'origin': origin, 'change': n.get('change', ''), 'needs_to_manifest': n.get('needs', ''), 'files': files,
                'confirmed_in_scratch_worktree': {'applies_on_repo_head': True, 'builds': True, 'repo_suite': c.get('suite', ''), 'demo_with_patch': 'FAILS', 'demo_without_patch': 'passes', 'command': f'tools/confirm_mutant.sh seeded/{sid}'},
                'first_pass_result': first.get((prop, m), ('', '?'))[1], 'strengthening': n.get('strengthening', 'caught as the check stood'),
                'detected_by': [{'check': f'./check {chk} quick', 'result': res}],
                'apply': f'git -C /repo apply /verif/seeded/{sid}/patch.diff ; ./check {chk} quick ; git -C /repo checkout -- .'}
        json.dump(meta, open(os.path.join(dst, 'meta.json'), 'w'), indent=1)
        print('added', sid)
