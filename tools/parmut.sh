#!/bin/bash
# usage: tools/parmut.sh <K> <listfile> <outfile>    listfile: lines "<label> <patch.diff> <CHECK-ID>"
# Runs seeded changes against the checks in K private copies of /repo + /verif/harness (so that /repo itself stays
# untouched and K runs proceed at once). Each copy lives under /root/par/<k>; removed afterwards.
K=$1; LIST=$2; OUT=$3
export GOFLAGS=-mod=mod GOPROXY=off GOSUMDB=off GOTOOLCHAIN=local
rm -rf /root/par; mkdir -p /root/par
for k in $(seq 1 $K); do
  mkdir -p /root/par/$k
  git -C /repo worktree prune
  cp -r /repo /root/par/$k/repo; rm -rf /root/par/$k/repo/.git; (cd /root/par/$k/repo && git init -q && git add -A && git -c user.email=x@y -c user.name=x commit -qm base)
  mkdir -p /root/par/$k/verif; cp -r /verif/harness /verif/check /verif/tools /verif/KNOWN_FINDINGS.json /verif/properties.jsonl /root/par/$k/verif/
  sed -i "s#=> /repo#=> /root/par/$k/repo#" /root/par/$k/verif/harness/go.mod
done
: > $OUT
worker() {
  k=$1
  while read -r label patch chk; do
    cd /root/par/$k/repo
    if ! git apply "$patch" 2>/dev/null && ! git apply --3way "$patch" 2>/dev/null; then echo "$label [$chk] PATCH-DOES-NOT-APPLY" >> $OUT; git checkout -q -- . ; continue; fi
    cd /root/par/$k/verif
    VERIF_WATCHDOG_S=900 VERIF_SCRATCH=/root/par/$k timeout 1800 ./check $chk quick > /root/par/$k/out.log 2>&1; rc=$?
    echo "$label [$chk] rc=$rc $(grep -c '^VIOLATION' /root/par/$k/out.log) VIOLATION lines; $(grep 'violating observations' /root/par/$k/out.log | cut -c1-160)" >> $OUT
    cp /root/par/$k/out.log /root/parlog-$label.log 2>/dev/null; cd /root/par/$k/repo && git checkout -q -- . && git clean -fdq
  done
}
split -n l/$K -d $LIST /root/par/list.
for k in $(seq 1 $K); do worker $k < /root/par/list.0$((k-1)) & done
wait
rm -rf /root/par
echo FINISHED >> $OUT
