#!/bin/bash
# usage: tools/parmut.sh <K> <listfile> <outfile>    listfile: lines "<label> <patch.diff> <CHECK-ID>"
# Runs seeded changes against the checks in K private copies of /repo + /verif/harness (so that /repo itself stays
# untouched and K runs proceed at once). Each copy lives under $PARDIR/<k>; removed afterwards.
K=$1; LIST=$2; OUT=$3; PARDIR=${PARDIR:-/root/par}
export GOFLAGS=-mod=mod GOPROXY=off GOSUMDB=off GOTOOLCHAIN=local
rm -rf $PARDIR; mkdir -p $PARDIR
for k in $(seq 1 $K); do
  mkdir -p $PARDIR/$k
  git -C /repo worktree prune
  cp -r /repo $PARDIR/$k/repo; rm -rf $PARDIR/$k/repo/.git; (cd $PARDIR/$k/repo && git init -q && git add -A && git -c user.email=x@y -c user.name=x commit -qm base)
  mkdir -p $PARDIR/$k/verif; cp -r /verif/harness /verif/check /verif/tools /verif/KNOWN_FINDINGS.json /verif/properties.jsonl $PARDIR/$k/verif/
  sed -i "s#=> /repo#=> $PARDIR/$k/repo#" $PARDIR/$k/verif/harness/go.mod
done
: > $OUT
worker() {
  k=$1
  while read -r label patch chk; do
    cd $PARDIR/$k/repo
    if ! git apply "$patch" 2>/dev/null && ! git apply --3way "$patch" 2>/dev/null; then echo "$label [$chk] PATCH-DOES-NOT-APPLY" >> $OUT; git checkout -q -- . ; continue; fi
    cd $PARDIR/$k/verif
    VERIF_WATCHDOG_S=900 VERIF_SCRATCH=$PARDIR/$k timeout 1800 ./check $chk quick > $PARDIR/$k/out.log 2>&1; rc=$?
    echo "$label [$chk] rc=$rc $(grep -c '^VIOLATION' $PARDIR/$k/out.log) VIOLATION lines; $(grep 'violating observations' $PARDIR/$k/out.log | cut -c1-160)" >> $OUT
    cp $PARDIR/$k/out.log $PARDIRlog-$label.log 2>/dev/null; cd $PARDIR/$k/repo && git checkout -q -- . && git clean -fdq
  done
}
split -n l/$K -d $LIST $PARDIR/list.
for k in $(seq 1 $K); do worker $k < $PARDIR/list.0$((k-1)) & done
wait
rm -rf $PARDIR
echo FINISHED >> $OUT
