// Package hist defines the history format shared by the cache worker process and the C14 monitors.
package hist

import (
	"syscall"
	"unsafe"
)

// MonoNow reads CLOCK_MONOTONIC in nanoseconds (one clock for all processes of the host).
func MonoNow() int64 {
	var ts syscall.Timespec
	syscall.Syscall(syscall.SYS_CLOCK_GETTIME, 1, uintptr(unsafe.Pointer(&ts)), 0)
	return ts.Sec*1_000_000_000 + ts.Nsec
}

// Event is one operation of a cache history, recorded at the client boundary
// (Call is read before invoking, Ret after the reply).
type Event struct {
	Proc   int    `json:"proc"`
	Client int    `json:"client"`
	Op     string `json:"op"` // set | get
	URL    string `json:"url"`
	ID     int64  `json:"id"` // set: bundle id stored; get: bundle id returned (0 = miss, -1 = error)
	Call   int64  `json:"call"`
	Ret    int64  `json:"ret"` // 0 = still open (the process was killed)
	Err    string `json:"err,omitempty"`
	Bytes  bool   `json:"bytes_ok"` // get: returned DER equals the registered bundle byte for byte
}

// RunSpec describes a free-running workload of one process.
type RunSpec struct {
	Dir            string    `json:"dir"`
	Proc           int       `json:"proc"`
	URLs           []string  `json:"urls"`
	BundleDir      string    `json:"bundle_dir"` // <id>.der files (base) and optionally <id>.delta.der
	WriterIDs      [][]int64 `json:"writer_ids"` // per writer client: the bundle ids it stores, in order
	Readers        int       `json:"readers"`
	ReadsEach      int       `json:"reads_each"`
	SleepMaxUS     int       `json:"sleep_max_us"`    // hook sleeps 0..max at every point
	ReadGapUS      int       `json:"read_gap_us"`     // pause between the reads of one reader (0 = none)
	OutlastWriters bool      `json:"outlast_writers"` // readers go on (at their gap) until this process's writers have finished, then read 3 more times
	Seed           uint64    `json:"seed"`
	Out            string    `json:"out"`
	SharedCache    bool      `json:"shared_cache"` // one FileCache value for all clients, else one per client
	StartAt        int64     `json:"start_at"`     // CLOCK_MONOTONIC instant at which all processes start
}

// GetResult is what `worker cache-get` prints per URL.
type GetResult struct {
	URL   string `json:"url"`
	ID    int64  `json:"id"`
	Bytes bool   `json:"bytes_ok"`
	Err   string `json:"err,omitempty"`
}
