package hist

import (
	"fmt"
	"sort"
	"time"

	"github.com/anishathalye/porcupine"
)

// Finding is one refuting observation in a history.
type Finding struct {
	Kind string
	What string
	Ops  []Event
}

// Stats summarises what a history contained.
type Stats struct {
	Sets, Gets, Hits, Misses, GetErrors, SetErrors  int
	URLs                                            int
	PorcupineOK, PorcupineIllegal, PorcupineUnknown int
	FreshnessObligations                            int64
	PorcupineSkipped                                int
}

// MaxPorcupineOps bounds the size of a per-URL partition handed to porcupine (0 = no bound).
var MaxPorcupineOps = 0

// Check runs the four history monitors of DESIGN.md appendix B over a merged history.
// entriesNeverExpire: no stored bundle expires during the run, so a read after a completed write must not miss.
func Check(events []Event, porcTimeout time.Duration) ([]Finding, Stats) {
	var out []Finding
	var st Stats
	byURL := map[string][]Event{}
	var maxT int64
	for _, e := range events {
		byURL[e.URL] = append(byURL[e.URL], e)
		if e.Ret > maxT {
			maxT = e.Ret
		}
		if e.Call > maxT {
			maxT = e.Call
		}
	}
	st.URLs = len(byURL)
	add := func(kind, what string, ops ...Event) {
		if len(out) < 200 {
			out = append(out, Finding{kind, what, ops})
		}
	}
	urls := make([]string, 0, len(byURL))
	for u := range byURL {
		urls = append(urls, u)
	}
	sort.Strings(urls)
	for _, u := range urls {
		evs := byURL[u]
		var sets, gets []Event
		setByID := map[int64]Event{}
		for _, e := range evs {
			if e.Op == "set" {
				st.Sets++
				if e.Err != "" {
					st.SetErrors++
				}
				sets = append(sets, e)
				setByID[e.ID] = e
			} else {
				st.Gets++
				gets = append(gets, e)
			}
		}
		// 1+2: complete-or-absent, provenance
		for _, g := range gets {
			switch {
			case g.ID == -1:
				st.GetErrors++
				add("undecodable-read", fmt.Sprintf("Get(%.40q) returned an error that is not a cache miss: %s", u, g.Err), g)
			case g.ID == 0:
				st.Misses++
			default:
				st.Hits++
				s, ok := setByID[g.ID]
				if !g.Bytes {
					add("mixed-read", fmt.Sprintf("Get(%.40q) returned a bundle numbered %d whose bytes differ from every stored bundle", u, g.ID), g)
				} else if !ok {
					add("foreign-read", fmt.Sprintf("Get(%.40q) returned bundle %d that no writer stored under this URL", u, g.ID), g)
				} else if s.Call >= g.Ret {
					add("read-from-the-future", fmt.Sprintf("Get(%.40q) returned bundle %d before its Set was called", u, g.ID), g, s)
				}
			}
		}
		// 3: freshness. completed = returned without error.
		var done []Event
		for _, s := range sets {
			if s.Ret > 0 && s.Err == "" {
				done = append(done, s)
			}
		}
		sort.Slice(done, func(i, j int) bool { return done[i].Ret < done[j].Ret })
		prefMaxCall := make([]int64, len(done))
		prefArg := make([]int, len(done))
		for i, s := range done {
			prefMaxCall[i], prefArg[i] = s.Call, i
			if i > 0 && prefMaxCall[i-1] > s.Call {
				prefMaxCall[i], prefArg[i] = prefMaxCall[i-1], prefArg[i-1]
			}
		}
		for _, g := range gets {
			if g.ID == -1 {
				continue
			}
			k := sort.Search(len(done), func(i int) bool { return done[i].Ret >= g.Call }) // done[:k] returned before g started
			if k == 0 {
				continue
			}
			st.FreshnessObligations++
			w := done[prefArg[k-1]]
			if g.ID == 0 {
				add("miss-after-write", fmt.Sprintf("Get(%.40q) started after Set(%d) had returned but yielded a cache miss", u, w.ID), g, w)
				continue
			}
			v, ok := setByID[g.ID]
			if ok && v.Ret > 0 && v.Err == "" && v.Ret < prefMaxCall[k-1] {
				add("stale-read", fmt.Sprintf("Get(%.40q) started after Set(%d) had returned but yielded the older bundle %d (its Set returned before Set(%d) was called)", u, w.ID, v.ID, w.ID), g, w, v)
			}
		}
		// 4: atomic register (porcupine); partitions above the size limit are left to monitors 1-3 (counted, not a verdict)
		if MaxPorcupineOps > 0 && len(evs) > MaxPorcupineOps {
			st.PorcupineSkipped++
			continue
		}
		var ops []porcupine.Operation
		for _, e := range evs {
			if e.Op == "get" && e.ID == -1 {
				continue
			}
			ret := e.Ret
			if e.Op == "set" && (ret == 0 || e.Err != "") {
				ret = maxT + 1_000_000 // may take effect at any later time: stays open to the end of the history
			}
			if e.Op == "set" {
				ops = append(ops, porcupine.Operation{ClientId: e.Proc*1000 + e.Client, Input: regIn{true, e.ID}, Call: e.Call, Output: int64(0), Return: ret})
			} else {
				ops = append(ops, porcupine.Operation{ClientId: e.Proc*1000 + e.Client, Input: regIn{false, 0}, Call: e.Call, Output: e.ID, Return: ret})
			}
		}
		res, info := porcupine.CheckOperationsVerbose(registerModel, ops, porcTimeout)
		if res == porcupine.Unknown {
			// the search ran out of time (a loaded machine, an unlucky partition): once more with four times the budget. A
			// partition that still has no answer is left to monitors 1-3, which have judged it above - counted as skipped,
			// like a partition over the size limit; it is not a verdict of the linearizability checker either way
			res, info = porcupine.CheckOperationsVerbose(registerModel, ops, 4*porcTimeout)
			if res == porcupine.Unknown {
				st.PorcupineSkipped++
				continue
			}
		}
		switch res {
		case porcupine.Ok:
			st.PorcupineOK++
		case porcupine.Illegal:
			st.PorcupineIllegal++
			what := fmt.Sprintf("history of URL %.40q (%d operations) is not linearizable as an atomic register", u, len(ops))
			_ = info
			add("not-linearizable", what, witness(evs)...)
		default:
			st.PorcupineUnknown++
		}
	}
	return out, st
}

type regIn struct {
	Write bool
	ID    int64
}

var registerModel = porcupine.Model{
	Init: func() interface{} { return int64(0) },
	Step: func(state, input, output interface{}) (bool, interface{}) {
		in := input.(regIn)
		if in.Write {
			return true, in.ID
		}
		return output.(int64) == state.(int64), state
	},
	Equal: func(a, b interface{}) bool { return a.(int64) == b.(int64) },
	DescribeOperation: func(input, output interface{}) string {
		in := input.(regIn)
		if in.Write {
			return fmt.Sprintf("set(%d)", in.ID)
		}
		return fmt.Sprintf("get() -> %d", output.(int64))
	},
}

// witness returns a short slice of the URL's history (first 60 events by call time) for the replay file.
func witness(evs []Event) []Event {
	s := append([]Event(nil), evs...)
	sort.Slice(s, func(i, j int) bool { return s[i].Call < s[j].Call })
	if len(s) > 60 {
		s = s[:60]
	}
	return s
}
