package hist

import (
	"context"
	"crypto/x509"
	"errors"
	"fmt"
	"os"
	"path/filepath"
	"sync"
	"sync/atomic"
	"time"

	corecrl "github.com/notaryproject/notation-core-go/revocation/crl"
	"github.com/notaryproject/notation-go/internal/file"
	"github.com/notaryproject/notation-go/verifier/crl"
)

// LoadBundle reads <dir>/<id>.der (and <id>.delta.der if present).
func LoadBundle(dir string, id int64) (*corecrl.Bundle, error) {
	b, err := os.ReadFile(filepath.Join(dir, fmt.Sprintf("%d.der", id)))
	if err != nil {
		return nil, err
	}
	rl, err := x509.ParseRevocationList(b)
	if err != nil {
		return nil, err
	}
	out := &corecrl.Bundle{BaseCRL: rl}
	d, err := os.ReadFile(filepath.Join(dir, fmt.Sprintf("%d.delta.der", id)))
	switch {
	case err == nil:
		if out.DeltaCRL, err = x509.ParseRevocationList(d); err != nil {
			return nil, err
		}
	case !errors.Is(err, os.ErrNotExist):
		// (an injected fault that hits THIS read must not silently turn the bundle into one without delta)
		return nil, err
	}
	return out, nil
}

// Classify turns a Get result into (id, bytesOK, err): 0 = miss, -1 = any other error.
func Classify(bundleDir string, b *corecrl.Bundle, err error) (int64, bool, string) {
	if err != nil {
		if errors.Is(err, corecrl.ErrCacheMiss) {
			return 0, true, ""
		}
		return -1, false, err.Error()
	}
	if b == nil || b.BaseCRL == nil || b.BaseCRL.Number == nil {
		return -1, false, "nil bundle without error"
	}
	id := b.BaseCRL.Number.Int64()
	want, rerr := os.ReadFile(filepath.Join(bundleDir, fmt.Sprintf("%d.der", id)))
	ok := rerr == nil && string(want) == string(b.BaseCRL.Raw)
	wantDelta, derr := os.ReadFile(filepath.Join(bundleDir, fmt.Sprintf("%d.delta.der", id)))
	if derr == nil {
		ok = ok && b.DeltaCRL != nil && string(wantDelta) == string(b.DeltaCRL.Raw)
	} else {
		ok = ok && b.DeltaCRL == nil
	}
	return id, ok, ""
}

type rng struct{ s uint64 }

func (r *rng) u64() uint64 {
	r.s += 0x9E3779B97F4A7C15
	z := r.s
	z = (z ^ (z >> 30)) * 0xBF58476D1CE4E5B9
	z = (z ^ (z >> 27)) * 0x94D049BB133111EB
	return z ^ (z >> 31)
}

// Run executes a free-running workload and returns its history.
func Run(sp RunSpec) ([]Event, error) {
	if sp.SleepMaxUS > 0 {
		var mu sync.Mutex
		hr := &rng{s: sp.Seed ^ 0xABCDEF}
		file.VerifHook = func(point, path string) {
			mu.Lock()
			d := hr.u64() % uint64(sp.SleepMaxUS+1)
			mu.Unlock()
			if d > 0 {
				time.Sleep(time.Duration(d) * time.Microsecond)
			}
		}
		defer func() { file.VerifHook = nil }()
	}
	ctx := context.Background()
	bundles := map[int64]*corecrl.Bundle{}
	for _, ids := range sp.WriterIDs {
		for _, id := range ids {
			b, err := LoadBundle(sp.BundleDir, id)
			if err != nil {
				return nil, err
			}
			bundles[id] = b
		}
	}
	shared, err := crl.NewFileCache(sp.Dir)
	if err != nil {
		return nil, err
	}
	cacheFor := func() *crl.FileCache {
		if sp.SharedCache {
			return shared
		}
		c, err := crl.NewFileCache(sp.Dir)
		if err != nil {
			panic(err)
		}
		return c
	}
	var mu sync.Mutex
	var events []Event
	rec := func(e Event) {
		mu.Lock()
		events = append(events, e)
		mu.Unlock()
	}
	for sp.StartAt > 0 && MonoNow() < sp.StartAt {
		time.Sleep(200 * time.Microsecond)
	}
	var wg sync.WaitGroup
	var writersActive atomic.Int64
	writersActive.Store(int64(len(sp.WriterIDs)))
	client := 0
	for _, ids := range sp.WriterIDs {
		wg.Add(1)
		client++
		go func(client int, ids []int64) {
			defer wg.Done()
			defer writersActive.Add(-1)
			c := cacheFor()
			r := &rng{s: sp.Seed + uint64(client)*7919}
			for _, id := range ids {
				u := sp.URLs[int(r.u64()%uint64(len(sp.URLs)))]
				e := Event{Proc: sp.Proc, Client: client, Op: "set", URL: u, ID: id, Call: MonoNow()}
				err := c.Set(ctx, u, bundles[id])
				e.Ret = MonoNow()
				if err != nil {
					e.Err = err.Error()
				}
				rec(e)
			}
		}(client, ids)
	}
	for k := 0; k < sp.Readers; k++ {
		wg.Add(1)
		client++
		go func(client int) {
			defer wg.Done()
			c := cacheFor()
			r := &rng{s: sp.Seed + uint64(client)*104729}
			after := 0
			for i := 0; i < sp.ReadsEach || (sp.OutlastWriters && after < 3 && i < 100000); i++ {
				if i >= sp.ReadsEach && writersActive.Load() == 0 {
					after++
				}
				u := sp.URLs[int(r.u64()%uint64(len(sp.URLs)))]
				e := Event{Proc: sp.Proc, Client: client, Op: "get", URL: u, Call: MonoNow()}
				b, err := c.Get(ctx, u)
				e.Ret = MonoNow()
				e.ID, e.Bytes, e.Err = Classify(sp.BundleDir, b, err)
				rec(e)
				if sp.ReadGapUS > 0 {
					time.Sleep(time.Duration(sp.ReadGapUS) * time.Microsecond)
				}
			}
		}(client)
	}
	wg.Wait()
	return events, nil
}
