package lib

import (
	"crypto/sha256"
	"encoding/hex"
	"fmt"
	"os"
	"path/filepath"
	"sort"
	"syscall"
	"unsafe"
)

// Snapshot maps every path under root (relative) to a description of type, permission bits and content hash.
func Snapshot(root string) map[string]string {
	out := map[string]string{}
	filepath.Walk(root, func(p string, info os.FileInfo, err error) error {
		if err != nil {
			return nil
		}
		rel, _ := filepath.Rel(root, p)
		switch {
		case info.Mode()&os.ModeSymlink != 0:
			t, _ := os.Readlink(p)
			out[rel] = "symlink->" + t
		case info.IsDir():
			out[rel] = fmt.Sprintf("dir:%o", info.Mode().Perm())
		case info.Mode().IsRegular():
			b, _ := os.ReadFile(p)
			h := sha256.Sum256(b)
			out[rel] = fmt.Sprintf("file:%o:%d:%s", info.Mode().Perm(), len(b), hex.EncodeToString(h[:8]))
		default:
			out[rel] = "other:" + info.Mode().String()
		}
		return nil
	})
	return out
}

// DiffSnap lists paths that were added, removed or changed between two snapshots.
func DiffSnap(a, b map[string]string) []string {
	var out []string
	for k, v := range a {
		if w, ok := b[k]; !ok {
			out = append(out, "removed "+k)
		} else if w != v {
			out = append(out, "changed "+k+" ("+v+" -> "+w+")")
		}
	}
	for k, v := range b {
		if _, ok := a[k]; !ok {
			out = append(out, "added "+k+" ("+v+")")
		}
	}
	sort.Strings(out)
	return out
}

// Inotify is a small wrapper over the inotify syscalls (standard syscall package).
type Inotify struct {
	fd    int
	watch map[int]string
}

// NewInotify watches the given directories for every event.
func NewInotify(dirs ...string) (*Inotify, error) {
	fd, err := syscall.InotifyInit1(syscall.IN_NONBLOCK | syscall.IN_CLOEXEC)
	if err != nil {
		return nil, err
	}
	in := &Inotify{fd: fd, watch: map[int]string{}}
	for _, d := range dirs {
		wd, err := syscall.InotifyAddWatch(fd, d, syscall.IN_ALL_EVENTS)
		if err != nil {
			syscall.Close(fd)
			return nil, fmt.Errorf("inotify watch %s: %w", d, err)
		}
		in.watch[wd] = d
	}
	return in, nil
}

// InEvent is one observed inotify event.
type InEvent struct {
	Dir, Name string
	Mask      uint32
}

func (e InEvent) String() string { return fmt.Sprintf("%s/%s mask=%#x", e.Dir, e.Name, e.Mask) }

// Drain returns the events observed so far.
func (in *Inotify) Drain() []InEvent {
	var out []InEvent
	buf := make([]byte, 64*1024)
	for {
		n, err := syscall.Read(in.fd, buf)
		if n <= 0 || err != nil {
			return out
		}
		off := 0
		for off+syscall.SizeofInotifyEvent <= n {
			ev := (*syscall.InotifyEvent)(unsafe.Pointer(&buf[off]))
			name := ""
			if ev.Len > 0 {
				b := buf[off+syscall.SizeofInotifyEvent : off+syscall.SizeofInotifyEvent+int(ev.Len)]
				for i, c := range b {
					if c == 0 {
						b = b[:i]
						break
					}
				}
				name = string(b)
			}
			out = append(out, InEvent{Dir: in.watch[int(ev.Wd)], Name: name, Mask: ev.Mask})
			off += syscall.SizeofInotifyEvent + int(ev.Len)
		}
	}
}

func (in *Inotify) Close() { syscall.Close(in.fd) }

// DiffEntry is one difference between two snapshots.
type DiffEntry struct {
	Kind   string // added | removed | changed
	Path   string // relative path
	Detail string
}

func (d DiffEntry) String() string { return fmt.Sprintf("%s %q %s", d.Kind, d.Path, d.Detail) }

// DiffSnapEntries is DiffSnap with structured entries (paths may contain blanks, tabs or newlines).
func DiffSnapEntries(a, b map[string]string) []DiffEntry {
	var out []DiffEntry
	for k, v := range a {
		if w, ok := b[k]; !ok {
			out = append(out, DiffEntry{"removed", k, v})
		} else if w != v {
			out = append(out, DiffEntry{"changed", k, v + " -> " + w})
		}
	}
	for k, v := range b {
		if _, ok := a[k]; !ok {
			out = append(out, DiffEntry{"added", k, v})
		}
	}
	sort.Slice(out, func(i, j int) bool { return out[i].Path+out[i].Kind < out[j].Path+out[j].Kind })
	return out
}
