package lib

import (
	"context"
	"crypto/x509"
	"encoding/json"
	"fmt"
	"sync"
	"time"

	"github.com/notaryproject/notation-core-go/revocation"
	"github.com/notaryproject/notation-core-go/revocation/result"
	"github.com/notaryproject/notation-go/verifier/trustpolicy"
	"github.com/notaryproject/notation-go/verifier/truststore"
	pf "github.com/notaryproject/notation-plugin-framework-go/plugin"
)

// MemTS is an in-memory truststore.X509TrustStore keyed "type:name"; a nil slice value means "load error".
type MemTS struct {
	mu     sync.Mutex
	Stores map[string][]*x509.Certificate
	Calls  []string
}

func NewMemTS() *MemTS { return &MemTS{Stores: map[string][]*x509.Certificate{}} }

func (m *MemTS) Put(key string, certs ...*x509.Certificate) *MemTS {
	m.Stores[key] = certs
	return m
}

func (m *MemTS) GetCertificates(ctx context.Context, st truststore.Type, name string) ([]*x509.Certificate, error) {
	k := string(st) + ":" + name
	m.mu.Lock()
	m.Calls = append(m.Calls, k)
	m.mu.Unlock()
	c, ok := m.Stores[k]
	if !ok || c == nil {
		return nil, truststore.TrustStoreError{Msg: fmt.Sprintf("no store %s", k)}
	}
	return c, nil
}

// OKRev is a revocation validator that reports every certificate as OK.
type OKRev struct{}

func (OKRev) ValidateContext(ctx context.Context, o revocation.ValidateContextOptions) ([]*result.CertRevocationResult, error) {
	r := make([]*result.CertRevocationResult, len(o.CertChain))
	for i := range r {
		r[i] = &result.CertRevocationResult{Result: result.ResultOK, ServerResults: []*result.ServerResult{{Result: result.ResultOK}}}
	}
	return r, nil
}

// OCIPolicy builds a one-statement OCI trust policy document.
func OCIPolicy(sv trustpolicy.SignatureVerification, stores []string, identities []string) *trustpolicy.OCIDocument {
	// the document is READ from JSON text written with the member names of the trust policy specification - the way a
	// policy file reaches the library - not assembled from the library's own Go structs
	text := fmt.Sprintf(`{"version":"1.0","trustPolicies":[{"name":"p","registryScopes":["*"],"signatureVerification":%s%s%s}]}`, svJSONText(sv), member("trustStores", stores), member("trustedIdentities", identities))
	var d trustpolicy.OCIDocument
	if err := json.Unmarshal([]byte(text), &d); err != nil {
		panic("harness bug: policy text: " + err.Error() + " " + text)
	}
	return &d
}

func member(name string, vals []string) string {
	if vals == nil {
		return ""
	}
	b, _ := json.Marshal(vals)
	return fmt.Sprintf(`,%q:%s`, name, b)
}

func svJSONText(sv trustpolicy.SignatureVerification) string {
	out := fmt.Sprintf(`{"level":%q`, sv.VerificationLevel)
	if sv.Override != nil {
		m := map[string]string{}
		for k, v := range sv.Override {
			m[string(k)] = string(v)
		}
		b, _ := json.Marshal(m)
		out += `,"override":` + string(b)
	}
	if sv.VerifyTimestamp != "" {
		out += fmt.Sprintf(`,"verifyTimestamp":%q`, string(sv.VerifyTimestamp))
	}
	return out + "}"
}

// BlobPolicyNamedAfterGlobal builds a two-statement blob document: FIRST a global statement ("everything-else") that
// trusts only otherStore, THEN the named statement "p" with the given settings.
func BlobPolicyNamedAfterGlobal(sv trustpolicy.SignatureVerification, stores []string, identities []string, otherStore string) *trustpolicy.BlobDocument {
	text := fmt.Sprintf(`{"version":"1.0","trustPolicies":[{"name":"everything-else","globalPolicy":true,"signatureVerification":{"level":"strict"},"trustStores":[%q],"trustedIdentities":["*"]},{"name":"p","signatureVerification":%s%s%s}]}`,
		otherStore, svJSONText(sv), member("trustStores", stores), member("trustedIdentities", identities))
	var d trustpolicy.BlobDocument
	if err := json.Unmarshal([]byte(text), &d); err != nil {
		panic("harness bug: policy text: " + err.Error() + " " + text)
	}
	return &d
}

// BlobPolicy builds a one-statement global blob trust policy document.
func BlobPolicy(sv trustpolicy.SignatureVerification, stores []string, identities []string) *trustpolicy.BlobDocument {
	text := fmt.Sprintf(`{"version":"1.0","trustPolicies":[{"name":"p","globalPolicy":true,"signatureVerification":%s%s%s}]}`, svJSONText(sv), member("trustStores", stores), member("trustedIdentities", identities))
	var d trustpolicy.BlobDocument
	if err := json.Unmarshal([]byte(text), &d); err != nil {
		panic("harness bug: policy text: " + err.Error() + " " + text)
	}
	return &d
}

// LevelMap is one of the 24 reachable enforcement maps.
type LevelMap struct {
	Auth, TS, Exp, Rev string // enforce | log | skip (skip only for Rev)
}

func (l LevelMap) String() string {
	return fmt.Sprintf("auth=%s,ts=%s,exp=%s,rev=%s", l.Auth, l.TS, l.Exp, l.Rev)
}

// Action returns the action the map assigns to a validation type.
func (l LevelMap) Action(t trustpolicy.ValidationType) trustpolicy.ValidationAction {
	switch t {
	case trustpolicy.TypeIntegrity:
		return trustpolicy.ActionEnforce
	case trustpolicy.TypeAuthenticity:
		return trustpolicy.ValidationAction(l.Auth)
	case trustpolicy.TypeAuthenticTimestamp:
		return trustpolicy.ValidationAction(l.TS)
	case trustpolicy.TypeExpiry:
		return trustpolicy.ValidationAction(l.Exp)
	case trustpolicy.TypeRevocation:
		return trustpolicy.ValidationAction(l.Rev)
	}
	return ""
}

// baseLevels gives the three named non-skip levels.
var baseLevels = map[string]LevelMap{
	"strict":     {"enforce", "enforce", "enforce", "enforce"},
	"permissive": {"enforce", "log", "log", "log"},
	"audit":      {"log", "log", "log", "log"},
}

// SV renders an enforcement map as a SignatureVerification. The base level is
// chosen by index (rotating over strict/permissive/audit) and every type that
// differs from the base is overridden, so that all three base levels and
// minimal as well as full override maps are exercised.
func (l LevelMap) SV(variant int) trustpolicy.SignatureVerification {
	names := []string{"strict", "permissive", "audit"}
	base := names[variant%3]
	b := baseLevels[base]
	ov := map[trustpolicy.ValidationType]trustpolicy.ValidationAction{}
	full := (variant/3)%2 == 1
	set := func(t trustpolicy.ValidationType, want, have string) {
		if want != have || full {
			ov[t] = trustpolicy.ValidationAction(want)
		}
	}
	set(trustpolicy.TypeAuthenticity, l.Auth, b.Auth)
	set(trustpolicy.TypeAuthenticTimestamp, l.TS, b.TS)
	set(trustpolicy.TypeExpiry, l.Exp, b.Exp)
	set(trustpolicy.TypeRevocation, l.Rev, b.Rev)
	sv := trustpolicy.SignatureVerification{VerificationLevel: base}
	if len(ov) > 0 {
		sv.Override = ov
	}
	return sv
}

// AllLevelMaps enumerates the 24 reachable non-skip enforcement maps.
func AllLevelMaps() []LevelMap {
	var out []LevelMap
	for _, a := range []string{"enforce", "log"} {
		for _, ts := range []string{"enforce", "log"} {
			for _, ex := range []string{"enforce", "log"} {
				for _, rv := range []string{"enforce", "log", "skip"} {
					out = append(out, LevelMap{a, ts, ex, rv})
				}
			}
		}
	}
	return out
}

// ScriptedPlugin is a verification plugin with scripted capabilities that reports success for whatever it is asked.
type ScriptedPlugin struct {
	Caps  []pf.Capability
	Calls int
}

func (p *ScriptedPlugin) GetMetadata(ctx context.Context, req *pf.GetMetadataRequest) (*pf.GetMetadataResponse, error) {
	return &pf.GetMetadataResponse{Name: "plug", Description: "d", Version: "1.0.0", URL: "u", SupportedContractVersions: []string{"1.0"}, Capabilities: p.Caps}, nil
}
func (p *ScriptedPlugin) DescribeKey(ctx context.Context, req *pf.DescribeKeyRequest) (*pf.DescribeKeyResponse, error) {
	return nil, fmt.Errorf("not a signer")
}
func (p *ScriptedPlugin) GenerateSignature(ctx context.Context, req *pf.GenerateSignatureRequest) (*pf.GenerateSignatureResponse, error) {
	return nil, fmt.Errorf("not a signer")
}
func (p *ScriptedPlugin) GenerateEnvelope(ctx context.Context, req *pf.GenerateEnvelopeRequest) (*pf.GenerateEnvelopeResponse, error) {
	return nil, fmt.Errorf("not a signer")
}
func (p *ScriptedPlugin) VerifySignature(ctx context.Context, req *pf.VerifySignatureRequest) (*pf.VerifySignatureResponse, error) {
	p.Calls++
	resp := &pf.VerifySignatureResponse{VerificationResults: map[pf.Capability]*pf.VerificationResult{}}
	for _, c := range req.TrustPolicy.SignatureVerification {
		resp.VerificationResults[c] = &pf.VerificationResult{Success: true}
	}
	for _, a := range req.Signature.UnprocessedAttributes {
		resp.ProcessedAttributes = append(resp.ProcessedAttributes, a)
	}
	return resp, nil
}

// ScriptedManager hands out one ScriptedPlugin for every name.
type ScriptedManager struct{ P *ScriptedPlugin }

func (m ScriptedManager) Get(ctx context.Context, name string) (pf.Plugin, error) { return m.P, nil }
func (m ScriptedManager) List(ctx context.Context) ([]string, error)              { return []string{"plug"}, nil }

// OKRevLegacy implements the deprecated revocation.Revocation interface and reports every certificate as OK.
type OKRevLegacy struct{}

func (OKRevLegacy) Validate(chain []*x509.Certificate, signingTime time.Time) ([]*result.CertRevocationResult, error) {
	return OKRev{}.ValidateContext(context.Background(), revocation.ValidateContextOptions{CertChain: chain, AuthenticSigningTime: signingTime})
}
