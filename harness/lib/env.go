package lib

import (
	"crypto"
	"crypto/ecdsa"
	"crypto/rand"
	"crypto/rsa"
	"crypto/x509"
	"encoding/base64"
	"encoding/json"
	"fmt"
	"time"

	"github.com/fxamacker/cbor/v2"
	"github.com/notaryproject/notation-core-go/signature"
	_ "github.com/notaryproject/notation-core-go/signature/cose"
	_ "github.com/notaryproject/notation-core-go/signature/jws"
	"github.com/opencontainers/go-digest"
	ocispec "github.com/opencontainers/image-spec/specs-go/v1"
	gocose "github.com/veraison/go-cose"
)

const (
	MediaJWS    = "application/jose+json"
	MediaCOSE   = "application/cose"
	PayloadType = "application/vnd.cncf.notary.payload.v1+json"

	HdrScheme         = "io.cncf.notary.signingScheme"
	HdrSigningTime    = "io.cncf.notary.signingTime"
	HdrAuthSigning    = "io.cncf.notary.authenticSigningTime"
	HdrExpiry         = "io.cncf.notary.expiry"
	HdrPlugin         = "io.cncf.notary.verificationPlugin"
	HdrPluginMinVer   = "io.cncf.notary.verificationPluginMinVersion"
	HdrTimestampToken = "io.cncf.notary.timestampSignature"
)

var Formats = []string{MediaJWS, MediaCOSE}

// Payload renders the Notary payload JSON for a descriptor.
func Payload(d ocispec.Descriptor) []byte {
	b, err := json.Marshal(map[string]any{"targetArtifact": d})
	if err != nil {
		panic(err)
	}
	return b
}

// Desc makes a descriptor over content.
func Desc(mediaType string, content []byte) ocispec.Descriptor {
	return ocispec.Descriptor{MediaType: mediaType, Digest: digest.FromBytes(content), Size: int64(len(content))}
}

// SignSpec drives the notation-core-go based builder.
type SignSpec struct {
	Format      string
	Scheme      signature.SigningScheme
	Payload     []byte
	ContentType string // default Notary payload type
	Signer      *Ent
	SigningTime time.Time
	Expiry      time.Time
	Ext         []signature.Attribute
	Agent       string
}

// CoreSign signs through notation-core-go (trusted dependency, not code under test).
func CoreSign(s SignSpec) ([]byte, error) {
	ls, err := signature.NewLocalSigner(s.Signer.Chain(), s.Signer.Key)
	if err != nil {
		return nil, err
	}
	env, err := signature.NewEnvelope(s.Format)
	if err != nil {
		return nil, err
	}
	ct := s.ContentType
	if ct == "" {
		ct = PayloadType
	}
	if s.Scheme == "" {
		s.Scheme = signature.SigningSchemeX509
	}
	if s.SigningTime.IsZero() {
		s.SigningTime = time.Now().Add(-2 * time.Hour)
	}
	return env.Sign(&signature.SignRequest{
		Payload:                  signature.Payload{ContentType: ct, Content: s.Payload},
		Signer:                   ls,
		SigningTime:              s.SigningTime.Truncate(time.Second),
		Expiry:                   s.Expiry,
		SigningScheme:            s.Scheme,
		ExtendedSignedAttributes: s.Ext,
		SigningAgent:             s.Agent,
	})
}

// MustCoreSign panics on error.
func MustCoreSign(s SignSpec) []byte {
	b, err := CoreSign(s)
	if err != nil {
		panic(fmt.Sprintf("CoreSign: %v", err))
	}
	return b
}

// RefVerify is the reference verifier: notation-core-go parse + Verify on the raw bytes.
func RefVerify(format string, raw []byte) (*signature.EnvelopeContent, error) {
	e, err := signature.ParseEnvelope(format, raw)
	if err != nil {
		return nil, err
	}
	return e.Verify()
}

func jwsAlg(key crypto.Signer) (string, crypto.Hash) {
	h := HashFor(key)
	n := map[crypto.Hash]string{crypto.SHA256: "256", crypto.SHA384: "384", crypto.SHA512: "512"}[h]
	if _, ok := key.(*ecdsa.PrivateKey); ok {
		return "ES" + n, h
	}
	return "PS" + n, h
}

// HandJWS builds a JWS-JSON envelope with caller-controlled protected headers ("alg" is filled in from the key when absent).
func HandJWS(protected map[string]any, payload []byte, signer *Ent, unprotected map[string]any) []byte {
	key := signer.Key
	alg, h := jwsAlg(key)
	if _, ok := protected["alg"]; !ok {
		protected["alg"] = alg
	}
	pb, _ := json.Marshal(protected)
	p64 := base64.RawURLEncoding.EncodeToString(pb)
	pl64 := base64.RawURLEncoding.EncodeToString(payload)
	hh := h.New()
	hh.Write([]byte(p64 + "." + pl64))
	d := hh.Sum(nil)
	var sig []byte
	switch k := key.(type) {
	case *ecdsa.PrivateKey:
		r, s, err := ecdsa.Sign(rand.Reader, k, d)
		if err != nil {
			panic(err)
		}
		n := (k.Curve.Params().BitSize + 7) / 8
		sig = make([]byte, 2*n)
		r.FillBytes(sig[:n])
		s.FillBytes(sig[n:])
	case *rsa.PrivateKey:
		var err error
		sig, err = rsa.SignPSS(rand.Reader, k, h, d, &rsa.PSSOptions{SaltLength: rsa.PSSSaltLengthEqualsHash})
		if err != nil {
			panic(err)
		}
	}
	hdr := map[string]any{}
	for k, v := range unprotected {
		hdr[k] = v
	}
	var x5c [][]byte
	for _, c := range signer.Chain() {
		x5c = append(x5c, c.Raw)
	}
	hdr["x5c"] = x5c
	out, _ := json.Marshal(map[string]any{"payload": pl64, "protected": p64, "header": hdr, "signature": base64.RawURLEncoding.EncodeToString(sig)})
	return out
}

// JWSTime formats a time the way the JWS envelope carries it.
func JWSTime(t time.Time) string { return t.UTC().Truncate(time.Second).Format(time.RFC3339) }

// CBORTime encodes a time as tag-1 epoch seconds.
func CBORTime(t time.Time) cbor.RawMessage {
	em, _ := cbor.EncOptions{Time: cbor.TimeUnix, TimeTag: cbor.EncTagRequired}.EncMode()
	b, _ := em.Marshal(t.Truncate(time.Second))
	return cbor.RawMessage(b)
}

func coseAlg(key crypto.Signer) gocose.Algorithm {
	h := HashFor(key)
	if _, ok := key.(*ecdsa.PrivateKey); ok {
		return map[crypto.Hash]gocose.Algorithm{crypto.SHA256: gocose.AlgorithmES256, crypto.SHA384: gocose.AlgorithmES384, crypto.SHA512: gocose.AlgorithmES512}[h]
	}
	return map[crypto.Hash]gocose.Algorithm{crypto.SHA256: gocose.AlgorithmPS256, crypto.SHA384: gocose.AlgorithmPS384, crypto.SHA512: gocose.AlgorithmPS512}[h]
}

// HandCOSE builds a COSE_Sign1 envelope with caller-controlled protected headers.
func HandCOSE(protected map[any]any, payload []byte, signer *Ent, unprotected map[any]any) []byte {
	alg := coseAlg(signer.Key)
	msg := gocose.NewSign1Message()
	msg.Headers.Protected.SetAlgorithm(alg)
	for k, v := range protected {
		msg.Headers.Protected[k] = v
	}
	msg.Payload = payload
	sg, err := gocose.NewSigner(alg, signer.Key)
	if err != nil {
		panic(err)
	}
	if err := msg.Sign(rand.Reader, nil, sg); err != nil {
		panic(err)
	}
	for k, v := range unprotected {
		msg.Headers.Unprotected[k] = v
	}
	var x5 []any
	for _, c := range signer.Chain() {
		x5 = append(x5, c.Raw)
	}
	msg.Headers.Unprotected[gocose.HeaderLabelX5Chain] = x5
	out, err := msg.MarshalCBOR()
	if err != nil {
		panic(err)
	}
	return out
}

// AttachToken puts an RFC 3161 token into the unprotected header of an envelope.
func AttachToken(format string, env, token []byte) []byte {
	if format == MediaJWS {
		var m map[string]json.RawMessage
		if err := json.Unmarshal(env, &m); err != nil {
			panic(err)
		}
		var h map[string]json.RawMessage
		json.Unmarshal(m["header"], &h)
		b, _ := json.Marshal(token)
		h[HdrTimestampToken] = b
		m["header"], _ = json.Marshal(h)
		out, _ := json.Marshal(m)
		return out
	}
	var msg gocose.Sign1Message
	if err := msg.UnmarshalCBOR(env); err != nil {
		panic(err)
	}
	msg.Headers.Unprotected[HdrTimestampToken] = token
	msg.Headers.RawUnprotected = nil
	out, err := msg.MarshalCBOR()
	if err != nil {
		panic(err)
	}
	return out
}

// SigValue extracts the signature value of an envelope via the reference parser.
func SigValue(format string, raw []byte) ([]byte, signature.Algorithm) {
	e, err := signature.ParseEnvelope(format, raw)
	if err != nil {
		panic(err)
	}
	c, err := e.Content()
	if err != nil {
		panic(err)
	}
	return c.SignerInfo.Signature, c.SignerInfo.SignatureAlgorithm
}

var _ = x509.ParseCertificate

// ExtAttr is an extended signed attribute for the hand-written builders; Key is a string, or an int64 (COSE only).
type ExtAttr struct {
	Key      any
	Value    any
	Critical bool
}

// HandSpec describes an envelope for the hand-written builders, which can emit
// what notation-core-go refuses to sign (signing time outside a certificate
// window, integer-keyed COSE attributes, arbitrary crit lists).
type HandSpec struct {
	Format      string
	Scheme      string // notary.x509 | notary.x509.signingAuthority
	Payload     []byte
	ContentType string
	Signer      *Ent
	SigningTime time.Time // signingTime (notary.x509) / authenticSigningTime (signing authority)
	Expiry      time.Time
	Ext         []ExtAttr
}

// HandSign builds the envelope.
func HandSign(s HandSpec) []byte {
	if s.ContentType == "" {
		s.ContentType = PayloadType
	}
	if s.Scheme == "" {
		s.Scheme = "notary.x509"
	}
	if s.SigningTime.IsZero() {
		s.SigningTime = time.Now().Add(-2 * time.Hour)
	}
	sa := s.Scheme == "notary.x509.signingAuthority"
	if s.Format == MediaJWS {
		p := map[string]any{"cty": s.ContentType, HdrScheme: s.Scheme}
		crit := []string{HdrScheme}
		if sa {
			p[HdrAuthSigning] = JWSTime(s.SigningTime)
			crit = append(crit, HdrAuthSigning)
		} else {
			p[HdrSigningTime] = JWSTime(s.SigningTime)
		}
		if !s.Expiry.IsZero() {
			p[HdrExpiry] = JWSTime(s.Expiry)
			crit = append(crit, HdrExpiry)
		}
		for _, a := range s.Ext {
			k := a.Key.(string)
			p[k] = a.Value
			if a.Critical {
				crit = append(crit, k)
			}
		}
		p["crit"] = crit
		return HandJWS(p, s.Payload, s.Signer, nil)
	}
	p := map[any]any{gocose.HeaderLabelContentType: s.ContentType, HdrScheme: s.Scheme}
	crit := []any{HdrScheme}
	if sa {
		p[HdrAuthSigning] = CBORTime(s.SigningTime)
		crit = append(crit, HdrAuthSigning)
	} else {
		p[HdrSigningTime] = CBORTime(s.SigningTime)
	}
	if !s.Expiry.IsZero() {
		p[HdrExpiry] = CBORTime(s.Expiry)
		crit = append(crit, HdrExpiry)
	}
	for _, a := range s.Ext {
		p[a.Key] = a.Value
		if a.Critical {
			crit = append(crit, a.Key)
		}
	}
	p[gocose.HeaderLabelCritical] = crit
	return HandCOSE(p, s.Payload, s.Signer, nil)
}

// RawSign produces the raw signature a signature-generator plugin returns for payload: ECDSA (r||s) or RSASSA-PSS
// with the hash bound to the key.
func RawSign(ent *Ent, payload []byte) []byte {
	h := HashFor(ent.Key)
	hh := h.New()
	hh.Write(payload)
	d := hh.Sum(nil)
	switch k := ent.Key.(type) {
	case *ecdsa.PrivateKey:
		r, s, err := ecdsa.Sign(rand.Reader, k, d)
		if err != nil {
			panic(err)
		}
		n := (k.Curve.Params().BitSize + 7) / 8
		sig := make([]byte, 2*n)
		r.FillBytes(sig[:n])
		s.FillBytes(sig[n:])
		return sig
	case *rsa.PrivateKey:
		sig, err := rsa.SignPSS(rand.Reader, k, h, d, &rsa.PSSOptions{SaltLength: rsa.PSSSaltLengthEqualsHash})
		if err != nil {
			panic(err)
		}
		return sig
	}
	panic("key type")
}
