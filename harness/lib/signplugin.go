package lib

import (
	"context"
	"fmt"
	"time"

	pf "github.com/notaryproject/notation-plugin-framework-go/plugin"
)

// HonestSignPlugin is a well-behaved signing plugin backed by a real key: Mode "raw" (signature generator) or "envelope".
type HonestSignPlugin struct {
	Mode        string
	Ent         *Ent
	KeySpecName string
	Annotations map[string]string
	Requests    int
}

var sigAlgOf = map[string]pf.SignatureAlgorithm{"EC-256": pf.SignatureAlgorithmECDSA_SHA256, "EC-384": pf.SignatureAlgorithmECDSA_SHA384, "EC-521": pf.SignatureAlgorithmECDSA_SHA512,
	"RSA-2048": pf.SignatureAlgorithmRSASSA_PSS_SHA256, "RSA-3072": pf.SignatureAlgorithmRSASSA_PSS_SHA384, "RSA-4096": pf.SignatureAlgorithmRSASSA_PSS_SHA512}

func (p *HonestSignPlugin) GetMetadata(ctx context.Context, req *pf.GetMetadataRequest) (*pf.GetMetadataResponse, error) {
	caps := []pf.Capability{pf.CapabilityEnvelopeGenerator}
	if p.Mode == "raw" {
		caps = []pf.Capability{pf.CapabilitySignatureGenerator}
	}
	return &pf.GetMetadataResponse{Name: "honest", Description: "d", Version: "1.2.3", URL: "u", SupportedContractVersions: []string{"1.0"}, Capabilities: caps}, nil
}
func (p *HonestSignPlugin) DescribeKey(ctx context.Context, req *pf.DescribeKeyRequest) (*pf.DescribeKeyResponse, error) {
	return &pf.DescribeKeyResponse{KeyID: req.KeyID, KeySpec: pf.KeySpec(p.KeySpecName)}, nil
}
func (p *HonestSignPlugin) GenerateSignature(ctx context.Context, req *pf.GenerateSignatureRequest) (*pf.GenerateSignatureResponse, error) {
	p.Requests++
	var chain [][]byte
	for _, c := range p.Ent.Chain() {
		chain = append(chain, c.Raw)
	}
	return &pf.GenerateSignatureResponse{KeyID: req.KeyID, Signature: RawSign(p.Ent, req.Payload), SigningAlgorithm: sigAlgOf[p.KeySpecName], CertificateChain: chain}, nil
}
func (p *HonestSignPlugin) GenerateEnvelope(ctx context.Context, req *pf.GenerateEnvelopeRequest) (*pf.GenerateEnvelopeResponse, error) {
	p.Requests++
	st := time.Now().Truncate(time.Second)
	spec := SignSpec{Format: req.SignatureEnvelopeType, Payload: req.Payload, ContentType: req.PayloadType, Signer: p.Ent, SigningTime: st, Agent: "honest-plugin"}
	if req.ExpiryDurationInSeconds > 0 {
		spec.Expiry = st.Add(time.Duration(req.ExpiryDurationInSeconds) * time.Second)
	}
	raw, err := CoreSign(spec)
	if err != nil {
		return nil, err
	}
	return &pf.GenerateEnvelopeResponse{SignatureEnvelope: raw, SignatureEnvelopeType: req.SignatureEnvelopeType, Annotations: p.Annotations}, nil
}
func (p *HonestSignPlugin) VerifySignature(ctx context.Context, req *pf.VerifySignatureRequest) (*pf.VerifySignatureResponse, error) {
	return nil, fmt.Errorf("not a verifier")
}

// TwoKeyPlugin holds two keys (of different specs) and uses the one the request's plugin configuration selects
// ("key": "alt" -> Alt, anything else -> Default) - a key alias / key version chosen per call.
type TwoKeyPlugin struct{ Default, Alt *HonestSignPlugin }

func (p *TwoKeyPlugin) pick(cfg map[string]string) *HonestSignPlugin {
	if cfg["key"] == "alt" {
		return p.Alt
	}
	return p.Default
}
func (p *TwoKeyPlugin) GetMetadata(ctx context.Context, req *pf.GetMetadataRequest) (*pf.GetMetadataResponse, error) {
	return p.Default.GetMetadata(ctx, req)
}
func (p *TwoKeyPlugin) DescribeKey(ctx context.Context, req *pf.DescribeKeyRequest) (*pf.DescribeKeyResponse, error) {
	return p.pick(req.PluginConfig).DescribeKey(ctx, req)
}
func (p *TwoKeyPlugin) GenerateSignature(ctx context.Context, req *pf.GenerateSignatureRequest) (*pf.GenerateSignatureResponse, error) {
	return p.pick(req.PluginConfig).GenerateSignature(ctx, req)
}
func (p *TwoKeyPlugin) GenerateEnvelope(ctx context.Context, req *pf.GenerateEnvelopeRequest) (*pf.GenerateEnvelopeResponse, error) {
	return p.pick(req.PluginConfig).GenerateEnvelope(ctx, req)
}
func (p *TwoKeyPlugin) VerifySignature(ctx context.Context, req *pf.VerifySignatureRequest) (*pf.VerifySignatureResponse, error) {
	return nil, fmt.Errorf("not a verifier")
}
