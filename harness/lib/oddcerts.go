package lib

import (
	"crypto/ecdsa"
	"crypto/rand"
	"crypto/sha256"
	"crypto/x509"
	"crypto/x509/pkix"
	"encoding/asn1"
	"math/big"
	"time"
)

type v1TBS struct {
	SerialNumber *big.Int
	SigAlg       pkix.AlgorithmIdentifier
	Issuer       asn1.RawValue
	Validity     struct{ NotBefore, NotAfter time.Time }
	Subject      asn1.RawValue
	SPKI         asn1.RawValue
}

// MintV1 hand-encodes an X.509 VERSION 1 certificate (no version field, no extensions - crypto/x509 cannot create one)
// for the subject cn with the EC-256 key keyIdx, issued and signed by issuer. A v1 certificate has no basic constraints:
// it is not a CA certificate, and signed by somebody else it is not self-signed either.
func MintV1(issuer *Ent, cn string, keyIdx int) *x509.Certificate {
	subject := pkix.Name{CommonName: cn, Organization: []string{"Org"}, Country: []string{"US"}, Province: []string{"WA"}}
	subjectDER, _ := asn1.Marshal(subject.ToRDNSequence())
	spki, err := x509.MarshalPKIXPublicKey(Key("EC-256", keyIdx).Public())
	if err != nil {
		panic(err)
	}
	alg := pkix.AlgorithmIdentifier{Algorithm: asn1.ObjectIdentifier{1, 2, 840, 10045, 4, 3, 2}} // ecdsa-with-SHA256
	tbs := v1TBS{SerialNumber: big.NewInt(7700 + int64(keyIdx)), SigAlg: alg, Issuer: asn1.RawValue{FullBytes: issuer.Cert.RawSubject}, Subject: asn1.RawValue{FullBytes: subjectDER}, SPKI: asn1.RawValue{FullBytes: spki}}
	tbs.Validity.NotBefore, tbs.Validity.NotAfter = time.Now().Add(-time.Hour).UTC().Truncate(time.Second), time.Now().Add(1000*24*time.Hour).UTC().Truncate(time.Second)
	tbsDER, err := asn1.Marshal(tbs)
	if err != nil {
		panic(err)
	}
	d := sha256.Sum256(tbsDER)
	sig, err := ecdsa.SignASN1(rand.Reader, issuer.Key.(*ecdsa.PrivateKey), d[:])
	if err != nil {
		panic(err)
	}
	der, err := asn1.Marshal(struct {
		TBS       asn1.RawValue
		SigAlg    pkix.AlgorithmIdentifier
		Signature asn1.BitString
	}{asn1.RawValue{FullBytes: tbsDER}, alg, asn1.BitString{Bytes: sig, BitLength: len(sig) * 8}})
	if err != nil {
		panic(err)
	}
	c, err := x509.ParseCertificate(der)
	if err != nil {
		panic("harness bug: hand-built v1 certificate does not parse: " + err.Error())
	}
	if c.Version != 1 || c.IsCA || c.CheckSignatureFrom(c) == nil {
		panic("harness bug: the v1 certificate is not what it should be")
	}
	return c
}

// MintSHA1SelfIssuedCA returns a CA certificate whose issuer NAME is its own subject, carrying the RSA key #0, but signed
// with SHA-1 by ANOTHER RSA key (a key roll-over certificate, or a forgery): crypto/x509 refuses to verify SHA-1
// signatures at all - which must not be read as "self-signed". nil if this toolchain refuses to sign with SHA-1.
func MintSHA1SelfIssuedCA() *x509.Certificate {
	name := pkix.Name{CommonName: "sha1-self-issued", Organization: []string{"Org"}, Country: []string{"US"}, Province: []string{"WA"}}
	tmpl := &x509.Certificate{SerialNumber: big.NewInt(9901), Subject: name, NotBefore: time.Now().Add(-time.Hour), NotAfter: time.Now().Add(1000 * 24 * time.Hour),
		KeyUsage: x509.KeyUsageCertSign | x509.KeyUsageCRLSign, BasicConstraintsValid: true, IsCA: true, SignatureAlgorithm: x509.SHA1WithRSA}
	der, err := x509.CreateCertificate(rand.Reader, tmpl, &x509.Certificate{Subject: name}, Key("RSA-2048", 0).Public(), Key("RSA-2048", 1))
	if err != nil {
		return nil
	}
	c, err := x509.ParseCertificate(der)
	if err != nil || !c.IsCA || string(c.RawSubject) != string(c.RawIssuer) {
		return nil
	}
	return c
}
