package lib

import (
	"context"
	"crypto"
	"crypto/ecdsa"
	"crypto/rand"
	"crypto/rsa"
	"crypto/sha256"
	"crypto/x509"
	"crypto/x509/pkix"
	"encoding/asn1"
	"fmt"
	"github.com/notaryproject/tspclient-go"
	"github.com/notaryproject/tspclient-go/pki"
	"math/big"
	"time"
)

// ---- minimal CMS / RFC 3161 structures (own definitions) ----

var (
	oidSignedData           = asn1.ObjectIdentifier{1, 2, 840, 113549, 1, 7, 2}
	oidTSTInfo              = asn1.ObjectIdentifier{1, 2, 840, 113549, 1, 9, 16, 1, 4}
	oidContentType          = asn1.ObjectIdentifier{1, 2, 840, 113549, 1, 9, 3}
	oidMessageDigest        = asn1.ObjectIdentifier{1, 2, 840, 113549, 1, 9, 4}
	oidSigningTime          = asn1.ObjectIdentifier{1, 2, 840, 113549, 1, 9, 5}
	oidSigningCertificateV2 = asn1.ObjectIdentifier{1, 2, 840, 113549, 1, 9, 16, 2, 47}
	oidSHA256               = asn1.ObjectIdentifier{2, 16, 840, 1, 101, 3, 4, 2, 1}
	oidSHA384               = asn1.ObjectIdentifier{2, 16, 840, 1, 101, 3, 4, 2, 2}
	oidSHA512               = asn1.ObjectIdentifier{2, 16, 840, 1, 101, 3, 4, 2, 3}
	oidSHA256WithRSA        = asn1.ObjectIdentifier{1, 2, 840, 113549, 1, 1, 11}
	oidECDSAWithSHA256      = asn1.ObjectIdentifier{1, 2, 840, 10045, 4, 3, 2}
	oidBaselinePolicy       = asn1.ObjectIdentifier{0, 4, 0, 2023, 1, 1}
)

type contentInfo struct {
	ContentType asn1.ObjectIdentifier
	Content     asn1.RawValue `asn1:"explicit,tag:0"`
}

type signedData struct {
	Version                    int
	DigestAlgorithmIdentifiers []pkix.AlgorithmIdentifier `asn1:"set"`
	EncapsulatedContentInfo    encapContentInfo
	Certificates               asn1.RawValue `asn1:"optional,tag:0"`
	SignerInfos                []signerInfo  `asn1:"set"`
}

type encapContentInfo struct {
	ContentType asn1.ObjectIdentifier
	Content     []byte `asn1:"explicit,optional,tag:0"`
}

type issuerAndSerial struct {
	Issuer       asn1.RawValue
	SerialNumber *big.Int
}

type attribute struct {
	Type   asn1.ObjectIdentifier
	Values asn1.RawValue `asn1:"set"`
}

type signerInfo struct {
	Version            int
	SignerIdentifier   issuerAndSerial
	DigestAlgorithm    pkix.AlgorithmIdentifier
	SignedAttributes   []attribute `asn1:"optional,tag:0"`
	SignatureAlgorithm pkix.AlgorithmIdentifier
	Signature          []byte
}

type messageImprint struct {
	HashAlgorithm pkix.AlgorithmIdentifier
	HashedMessage []byte
}

type accuracy struct {
	Seconds      int `asn1:"optional"`
	Milliseconds int `asn1:"optional,tag:0"`
	Microseconds int `asn1:"optional,tag:1"`
}

type tstInfo struct {
	Version        int
	Policy         asn1.ObjectIdentifier
	MessageImprint messageImprint
	SerialNumber   *big.Int
	GenTime        time.Time `asn1:"generalized"`
	Accuracy       accuracy  `asn1:"optional"`
	Nonce          *big.Int  `asn1:"optional"`
}

type essCertIDv2 struct {
	CertHash []byte
}

type signingCertV2 struct {
	Certificates []essCertIDv2
}

func rawOf(val interface{}, params string) asn1.RawValue {
	b, err := asn1.MarshalWithParams(val, params)
	if err != nil {
		panic(err)
	}
	var raw asn1.RawValue
	if _, err := asn1.UnmarshalWithParams(b, &raw, params); err != nil {
		panic(err)
	}
	return raw
}

// TSA mints RFC 3161 tokens in process.
type TSA struct {
	Key   crypto.Signer
	Chain []*x509.Certificate // leaf first; all embedded in the token
}

type TokenSpec struct {
	Message           []byte // the bytes being timestamped (signature value)
	Hash              crypto.Hash
	GenTime           time.Time
	AccuracyS         int
	OmitCerts         bool
	Hashed            []byte   // if set, the message imprint is this digest (a TSA only ever sees the digest) and Message is ignored
	Nonce             *big.Int // echoed in the token when set
	NoSigningTimeAttr bool     // leave the (optional) CMS signing-time attribute out: genTime in TSTInfo is then the only time the token states
}

func hashOID(h crypto.Hash) asn1.ObjectIdentifier {
	switch h {
	case crypto.SHA256:
		return oidSHA256
	case crypto.SHA384:
		return oidSHA384
	case crypto.SHA512:
		return oidSHA512
	}
	panic("hash")
}

func (t *TSA) Token(spec TokenSpec) []byte {
	h := spec.Hash.New()
	h.Write(spec.Message)
	hashed := h.Sum(nil)
	if spec.Hashed != nil {
		hashed = spec.Hashed
	}
	info := tstInfo{
		Version:        1,
		Policy:         asn1.ObjectIdentifier{1, 3, 6, 1, 4, 1, 4146, 2, 3},
		MessageImprint: messageImprint{HashAlgorithm: pkix.AlgorithmIdentifier{Algorithm: hashOID(spec.Hash)}, HashedMessage: hashed},
		SerialNumber:   big.NewInt(time.Now().UnixNano()),
		GenTime:        spec.GenTime.UTC().Truncate(time.Second),
		Accuracy:       accuracy{Seconds: spec.AccuracyS},
		Nonce:          spec.Nonce,
	}
	infoBytes, err := asn1.Marshal(info)
	if err != nil {
		panic(err)
	}
	leaf := t.Chain[0]
	var issuer asn1.RawValue
	if _, err := asn1.Unmarshal(leaf.RawIssuer, &issuer); err != nil {
		panic(err)
	}
	infoDigest := sha256.Sum256(infoBytes)
	certHash := sha256.Sum256(leaf.Raw)
	attrs := []attribute{
		{Type: oidContentType, Values: rawOf([]interface{}{oidTSTInfo}, "set")},
		{Type: oidMessageDigest, Values: rawOf([]interface{}{infoDigest[:]}, "set")},
		{Type: oidSigningCertificateV2, Values: rawOf([]interface{}{signingCertV2{Certificates: []essCertIDv2{{CertHash: certHash[:]}}}}, "set")},
	}
	if !spec.NoSigningTimeAttr {
		attrs = append(attrs[:2:2], append([]attribute{{Type: oidSigningTime, Values: rawOf([]interface{}{spec.GenTime.UTC()}, "set")}}, attrs[2:]...)...)
	}
	si := signerInfo{
		Version:          1,
		SignerIdentifier: issuerAndSerial{Issuer: issuer, SerialNumber: leaf.SerialNumber},
		DigestAlgorithm:  pkix.AlgorithmIdentifier{Algorithm: oidSHA256},
		SignedAttributes: attrs,
	}
	enc, err := asn1.MarshalWithParams(attrs, "set")
	if err != nil {
		panic(err)
	}
	attrDigest := sha256.Sum256(enc)
	switch k := t.Key.(type) {
	case *rsa.PrivateKey:
		si.SignatureAlgorithm = pkix.AlgorithmIdentifier{Algorithm: oidSHA256WithRSA}
		si.Signature, err = rsa.SignPKCS1v15(rand.Reader, k, crypto.SHA256, attrDigest[:])
	case *ecdsa.PrivateKey:
		si.SignatureAlgorithm = pkix.AlgorithmIdentifier{Algorithm: oidECDSAWithSHA256}
		si.Signature, err = ecdsa.SignASN1(rand.Reader, k, attrDigest[:])
	default:
		panic(fmt.Sprintf("key %T", t.Key))
	}
	if err != nil {
		panic(err)
	}
	sd := signedData{
		Version:                    3,
		DigestAlgorithmIdentifiers: []pkix.AlgorithmIdentifier{{Algorithm: oidSHA256}},
		EncapsulatedContentInfo:    encapContentInfo{ContentType: oidTSTInfo, Content: infoBytes},
		SignerInfos:                []signerInfo{si},
	}
	if !spec.OmitCerts {
		var all []byte
		for _, c := range t.Chain {
			all = append(all, c.Raw...)
		}
		sd.Certificates = asn1.RawValue{Class: asn1.ClassContextSpecific, Tag: 0, IsCompound: true, Bytes: all}
	}
	ci := contentInfo{ContentType: oidSignedData, Content: rawOf(sd, "explicit,tag:0")}
	out, err := asn1.Marshal(ci)
	if err != nil {
		panic(err)
	}
	return out
}

// Timestamp makes the in-process TSA usable as a tspclient.Timestamper (what a signer is handed to countersign at
// signing time): it answers a request with a granted response holding a token over the request's imprint and nonce.
func (t *TSA) Timestamp(ctx context.Context, req *tspclient.Request) (*tspclient.Response, error) {
	var h crypto.Hash
	switch {
	case req.MessageImprint.HashAlgorithm.Algorithm.Equal(oidSHA256):
		h = crypto.SHA256
	case req.MessageImprint.HashAlgorithm.Algorithm.Equal(oidSHA384):
		h = crypto.SHA384
	case req.MessageImprint.HashAlgorithm.Algorithm.Equal(oidSHA512):
		h = crypto.SHA512
	default:
		return nil, fmt.Errorf("test TSA: unsupported hash %v", req.MessageImprint.HashAlgorithm.Algorithm)
	}
	tok := t.Token(TokenSpec{Hash: h, Hashed: req.MessageImprint.HashedMessage, Nonce: req.Nonce, GenTime: time.Now(), AccuracyS: 1, OmitCerts: !req.CertReq})
	return &tspclient.Response{Status: pki.StatusInfo{Status: pki.StatusGranted}, TimestampToken: asn1.RawValue{FullBytes: tok}}, nil
}
