package lib

import (
	"encoding/json"
	"fmt"
	"io"
	"net/http"
	"net/http/httptest"
	"sort"
	"strconv"
	"strings"
	"sync"

	"github.com/opencontainers/go-digest"
	ocispec "github.com/opencontainers/image-spec/specs-go/v1"
)

// FakeRegistry is an in-process OCI distribution registry (one repository, "test") that speaks just enough of the
// distribution API for an oras remote.Repository: blob upload (POST + PUT), blob HEAD/GET, manifest PUT/HEAD/GET/DELETE
// by digest or tag, and the referrers API (with artifactType filtering and, optionally, paging through Link headers).
// Everything it is asked is logged, so a monitor can tell what was fetched.
type FakeRegistry struct {
	mu        sync.Mutex
	blobs     map[digest.Digest][]byte
	manifests map[digest.Digest]fakeManifest
	order     []digest.Digest // manifests in push order
	tags      map[string]digest.Digest
	uploads   int
	log       []string
	PageSize  int // referrers per page (0: all on one page)
	// NoReferrersAPI: the registry predates the referrers API (clients fall back to the referrers tag schema).
	// FailDelete: it also refuses to delete manifests (a client cannot remove the index it has just replaced).
	NoReferrersAPI, FailDelete bool
	// FailReferrersFromPage: the n-th and every later page of a referrers listing answers 500 (0: never)
	FailReferrersFromPage int
	srv                   *httptest.Server
	tr                    *http.Transport
}

type fakeManifest struct {
	mediaType string
	content   []byte
}

// NewFakeRegistry starts the registry on a loopback port; Host() is what a client dials (plain HTTP).
func NewFakeRegistry(pageSize int) *FakeRegistry {
	f := &FakeRegistry{blobs: map[digest.Digest][]byte{}, manifests: map[digest.Digest]fakeManifest{}, tags: map[string]digest.Digest{}, PageSize: pageSize}
	f.srv = httptest.NewServer(f)
	return f
}

// Close stops the server (and the private transport of Client()).
func (f *FakeRegistry) Close() {
	if f.tr != nil {
		f.tr.CloseIdleConnections()
	}
	f.srv.Close()
}
func (f *FakeRegistry) Host() string { return strings.TrimPrefix(f.srv.URL, "http://") }

// Client returns an HTTP client with a transport of its own. Clients of registries that live side by side must not share
// http.DefaultTransport: httptest.Server.Close closes the idle connections of the default transport, which breaks a
// request another goroutine is just about to send over one of them ("transport connection broken").
func (f *FakeRegistry) Client() *http.Client {
	if f.tr == nil {
		f.tr = &http.Transport{}
	}
	return &http.Client{Transport: f.tr}
}

// Requests returns the log ("METHOD path") so far.
func (f *FakeRegistry) Requests() []string {
	f.mu.Lock()
	defer f.mu.Unlock()
	return append([]string(nil), f.log...)
}

// Count returns how many logged requests have the method and contain the fragment.
func (f *FakeRegistry) Count(method, fragment string) int {
	n := 0
	for _, l := range f.Requests() {
		if strings.HasPrefix(l, method+" ") && strings.Contains(l, fragment) {
			n++
		}
	}
	return n
}

func (f *FakeRegistry) ServeHTTP(w http.ResponseWriter, r *http.Request) {
	f.mu.Lock()
	defer f.mu.Unlock()
	f.log = append(f.log, r.Method+" "+r.URL.RequestURI())
	if r.URL.Path == "/v2/" || r.URL.Path == "/v2" {
		w.WriteHeader(http.StatusOK)
		return
	}
	rest, ok := strings.CutPrefix(r.URL.Path, "/v2/test/")
	if !ok {
		http.Error(w, `{"errors":[{"code":"NAME_UNKNOWN"}]}`, http.StatusNotFound)
		return
	}
	switch {
	case rest == "blobs/uploads/" && r.Method == http.MethodPost:
		f.uploads++
		w.Header().Set("Location", fmt.Sprintf("/v2/test/blobs/uploads/%d", f.uploads))
		w.WriteHeader(http.StatusAccepted)
	case strings.HasPrefix(rest, "blobs/uploads/") && r.Method == http.MethodPut:
		d, err := digest.Parse(r.URL.Query().Get("digest"))
		body, _ := io.ReadAll(r.Body)
		if err != nil || d.Algorithm().FromBytes(body) != d {
			http.Error(w, `{"errors":[{"code":"DIGEST_INVALID"}]}`, http.StatusBadRequest)
			return
		}
		f.blobs[d] = body
		w.Header().Set("Location", "/v2/test/blobs/"+d.String())
		w.Header().Set("Docker-Content-Digest", d.String())
		w.WriteHeader(http.StatusCreated)
	case strings.HasPrefix(rest, "blobs/"):
		d := digest.Digest(strings.TrimPrefix(rest, "blobs/"))
		b, ok := f.blobs[d]
		if !ok {
			http.Error(w, `{"errors":[{"code":"BLOB_UNKNOWN"}]}`, http.StatusNotFound)
			return
		}
		w.Header().Set("Content-Type", "application/octet-stream")
		w.Header().Set("Docker-Content-Digest", d.String())
		w.Header().Set("Content-Length", strconv.Itoa(len(b)))
		w.WriteHeader(http.StatusOK)
		if r.Method == http.MethodGet {
			w.Write(b)
		}
	case strings.HasPrefix(rest, "manifests/"):
		ref := strings.TrimPrefix(rest, "manifests/")
		switch r.Method {
		case http.MethodPut:
			body, _ := io.ReadAll(r.Body)
			d := digest.FromBytes(body)
			if pd, err := digest.Parse(ref); err == nil {
				d = pd.Algorithm().FromBytes(body)
				if d != pd {
					http.Error(w, `{"errors":[{"code":"DIGEST_INVALID"}]}`, http.StatusBadRequest)
					return
				}
			} else {
				f.tags[ref] = d
			}
			if _, had := f.manifests[d]; !had {
				f.order = append(f.order, d)
			}
			f.manifests[d] = fakeManifest{r.Header.Get("Content-Type"), body}
			var m struct {
				Subject *ocispec.Descriptor `json:"subject"`
			}
			if json.Unmarshal(body, &m) == nil && m.Subject != nil && !f.NoReferrersAPI {
				w.Header().Set("OCI-Subject", m.Subject.Digest.String())
			}
			w.Header().Set("Docker-Content-Digest", d.String())
			w.Header().Set("Location", "/v2/test/manifests/"+d.String())
			w.WriteHeader(http.StatusCreated)
		case http.MethodGet, http.MethodHead:
			d := digest.Digest(ref)
			if t, ok := f.tags[ref]; ok {
				d = t
			}
			m, ok := f.manifests[d]
			if !ok {
				http.Error(w, `{"errors":[{"code":"MANIFEST_UNKNOWN"}]}`, http.StatusNotFound)
				return
			}
			w.Header().Set("Content-Type", m.mediaType)
			w.Header().Set("Docker-Content-Digest", d.String())
			w.Header().Set("Content-Length", strconv.Itoa(len(m.content)))
			w.WriteHeader(http.StatusOK)
			if r.Method == http.MethodGet {
				w.Write(m.content)
			}
		case http.MethodDelete:
			if f.FailDelete {
				http.Error(w, `{"errors":[{"code":"UNSUPPORTED","message":"deletion is disabled"}]}`, http.StatusMethodNotAllowed)
				return
			}
			delete(f.manifests, digest.Digest(ref))
			w.WriteHeader(http.StatusAccepted)
		default:
			w.WriteHeader(http.StatusMethodNotAllowed)
		}
	case strings.HasPrefix(rest, "referrers/") && f.NoReferrersAPI:
		http.Error(w, `404 page not found`, http.StatusNotFound)
	case strings.HasPrefix(rest, "referrers/") && r.Method == http.MethodGet:
		subject := digest.Digest(strings.TrimPrefix(rest, "referrers/"))
		filter := r.URL.Query().Get("artifactType")
		var refs []ocispec.Descriptor
		for _, d := range f.order {
			m, ok := f.manifests[d]
			if !ok {
				continue
			}
			var doc struct {
				ArtifactType string              `json:"artifactType"`
				Config       *ocispec.Descriptor `json:"config"`
				Subject      *ocispec.Descriptor `json:"subject"`
				Annotations  map[string]string   `json:"annotations"`
			}
			if json.Unmarshal(m.content, &doc) != nil || doc.Subject == nil || doc.Subject.Digest != subject {
				continue
			}
			at := doc.ArtifactType
			if at == "" && doc.Config != nil {
				at = doc.Config.MediaType
			}
			if filter != "" && at != filter {
				continue
			}
			refs = append(refs, ocispec.Descriptor{MediaType: m.mediaType, Digest: d, Size: int64(len(m.content)), ArtifactType: at, Annotations: doc.Annotations})
		}
		start := 0
		if s := r.URL.Query().Get("last"); s != "" {
			start, _ = strconv.Atoi(s)
		}
		if start > len(refs) {
			start = len(refs)
		}
		if f.FailReferrersFromPage > 0 && f.PageSize > 0 && start/f.PageSize+1 >= f.FailReferrersFromPage {
			http.Error(w, `{"errors":[{"code":"UNKNOWN","message":"scripted failure of a later referrers page"}]}`, http.StatusInternalServerError)
			return
		}
		end := len(refs)
		if f.PageSize > 0 && start+f.PageSize < end {
			end = start + f.PageSize
			q := r.URL.Query()
			q.Set("last", strconv.Itoa(end))
			keys := make([]string, 0, len(q))
			for k := range q {
				keys = append(keys, k)
			}
			sort.Strings(keys)
			w.Header().Set("Link", fmt.Sprintf("</v2/test/referrers/%s?%s>; rel=\"next\"", subject, q.Encode()))
		}
		if filter != "" {
			w.Header().Set("OCI-Filters-Applied", "artifactType")
		}
		idx := ocispec.Index{MediaType: ocispec.MediaTypeImageIndex, Manifests: refs[start:end]}
		idx.SchemaVersion = 2
		if idx.Manifests == nil {
			idx.Manifests = []ocispec.Descriptor{}
		}
		b, _ := json.Marshal(idx)
		w.Header().Set("Content-Type", ocispec.MediaTypeImageIndex)
		w.WriteHeader(http.StatusOK)
		w.Write(b)
	default:
		http.Error(w, `{"errors":[{"code":"UNSUPPORTED"}]}`, http.StatusNotFound)
	}
}
