package lib

import (
	"crypto"
	"crypto/ecdsa"
	"crypto/rand"
	"crypto/rsa"
	"crypto/sha1"
	"crypto/x509"
	"crypto/x509/pkix"
	"embed"
	"encoding/asn1"
	"encoding/pem"
	"fmt"
	"math/big"
	"sync"
	"sync/atomic"
	"time"
)

//go:embed keys/*.pem
var keyFS embed.FS

var (
	keyMu    sync.Mutex
	keyCache = map[string]crypto.Signer{}
)

// KeySpecs lists the six key specs the Notary Project supports.
var KeySpecs = []string{"EC-256", "EC-384", "EC-521", "RSA-2048", "RSA-3072", "RSA-4096"}

// Key returns a pre-generated private key (test material, embedded) for a key spec.
func Key(spec string, idx int) crypto.Signer {
	name := fmt.Sprintf("keys/%s.%d.pem", spec, idx)
	keyMu.Lock()
	defer keyMu.Unlock()
	if k, ok := keyCache[name]; ok {
		return k
	}
	b, err := keyFS.ReadFile(name)
	if err != nil {
		panic(err)
	}
	blk, _ := pem.Decode(b)
	k, err := x509.ParsePKCS8PrivateKey(blk.Bytes)
	if err != nil {
		panic(err)
	}
	s := k.(crypto.Signer)
	keyCache[name] = s
	return s
}

// Ent is a certificate with its private key.
type Ent struct {
	Cert   *x509.Certificate
	Key    crypto.Signer
	Parent *Ent
}

// Chain returns leaf-first certificates up to and including the root.
func (e *Ent) Chain() []*x509.Certificate {
	var out []*x509.Certificate
	for x := e; x != nil; x = x.Parent {
		out = append(out, x.Cert)
	}
	return out
}

// Root returns the top of the chain.
func (e *Ent) Root() *Ent {
	x := e
	for x.Parent != nil {
		x = x.Parent
	}
	return x
}

var serialCtr int64 = 1000

// CertSpec describes a certificate to mint.
type CertSpec struct {
	CN         string
	Subject    *pkix.Name
	RawSubject []byte
	Kind       string // ca | codesign | tsa | tsa-noncrit | tsa-extra | tsa-none | leaf-noeku
	NotBefore  time.Time
	NotAfter   time.Time
	KeySpec    string // default EC-256
	KeyIdx     int
	PathLen    int    // for CAs: MaxPathLen (default 2)
	CRLURL     string // a CRL distribution point written into the certificate
	CRLSign    bool   // CAs: the key usage also includes cRLSign (the CA signs the CRLs of what it issues)
}

var oidEKU = asn1.ObjectIdentifier{2, 5, 29, 37}
var oidTimeStamping = asn1.ObjectIdentifier{1, 3, 6, 1, 5, 5, 7, 3, 8}
var oidCodeSigning = asn1.ObjectIdentifier{1, 3, 6, 1, 5, 5, 7, 3, 3}

// Mint creates a certificate signed by parent (self-signed when parent is nil).
func Mint(parent *Ent, s CertSpec) *Ent {
	if s.KeySpec == "" {
		s.KeySpec = "EC-256"
	}
	key := Key(s.KeySpec, s.KeyIdx)
	now := time.Now()
	if s.NotBefore.IsZero() {
		s.NotBefore = now.Add(-1000 * 24 * time.Hour)
	}
	if s.NotAfter.IsZero() {
		s.NotAfter = now.Add(1000 * 24 * time.Hour)
	}
	tmpl := &x509.Certificate{
		SerialNumber:          big.NewInt(atomic.AddInt64(&serialCtr, 1)),
		NotBefore:             s.NotBefore,
		NotAfter:              s.NotAfter,
		BasicConstraintsValid: true,
	}
	// a subject key identifier, as practically every issued certificate carries one (crypto/x509 adds it for CAs only):
	// it identifies the KEY - certificates of one key share it whatever their subjects are
	if pk, err := x509.MarshalPKIXPublicKey(key.Public()); err == nil {
		h := sha1.Sum(pk)
		tmpl.SubjectKeyId = h[:]
	}
	if s.Subject != nil {
		tmpl.Subject = *s.Subject
	} else {
		tmpl.Subject = pkix.Name{CommonName: s.CN, Organization: []string{"Org"}, Country: []string{"US"}, Province: []string{"WA"}}
	}
	if s.RawSubject != nil {
		tmpl.RawSubject = s.RawSubject
	}
	if s.CRLURL != "" {
		tmpl.CRLDistributionPoints = []string{s.CRLURL}
	}
	switch s.Kind {
	case "ca":
		tmpl.IsCA = true
		tmpl.KeyUsage = x509.KeyUsageCertSign
		tmpl.MaxPathLen = s.PathLen
		if s.PathLen == 0 {
			tmpl.MaxPathLen = 2
		}
	case "ca-codesigning-only": // a CA whose extended key usage restricts what it may issue to code signing
		tmpl.IsCA = true
		tmpl.KeyUsage = x509.KeyUsageCertSign
		tmpl.MaxPathLen = s.PathLen
		tmpl.ExtKeyUsage = []x509.ExtKeyUsage{x509.ExtKeyUsageCodeSigning}
	case "codesign":
		tmpl.KeyUsage = x509.KeyUsageDigitalSignature
		tmpl.ExtKeyUsage = []x509.ExtKeyUsage{x509.ExtKeyUsageCodeSigning}
	case "leaf-certsign": // an end-entity certificate (not a CA) whose key usage nevertheless includes keyCertSign
		tmpl.KeyUsage = x509.KeyUsageDigitalSignature | x509.KeyUsageCertSign
		tmpl.ExtKeyUsage = []x509.ExtKeyUsage{x509.ExtKeyUsageCodeSigning}
	case "leaf-noeku":
		tmpl.KeyUsage = x509.KeyUsageDigitalSignature
	case "tsa":
		tmpl.KeyUsage = x509.KeyUsageDigitalSignature
		v, _ := asn1.Marshal([]asn1.ObjectIdentifier{oidTimeStamping})
		tmpl.ExtraExtensions = []pkix.Extension{{Id: oidEKU, Critical: true, Value: v}}
	case "tsa-noncrit":
		tmpl.KeyUsage = x509.KeyUsageDigitalSignature
		v, _ := asn1.Marshal([]asn1.ObjectIdentifier{oidTimeStamping})
		tmpl.ExtraExtensions = []pkix.Extension{{Id: oidEKU, Critical: false, Value: v}}
	case "tsa-extra":
		tmpl.KeyUsage = x509.KeyUsageDigitalSignature
		v, _ := asn1.Marshal([]asn1.ObjectIdentifier{oidTimeStamping, oidCodeSigning})
		tmpl.ExtraExtensions = []pkix.Extension{{Id: oidEKU, Critical: true, Value: v}}
	case "tsa-none":
		tmpl.KeyUsage = x509.KeyUsageDigitalSignature
	case "tsa-keyusage": // the right (critical, sole) EKU, but a key usage without digitalSignature
		tmpl.KeyUsage = x509.KeyUsageKeyEncipherment
		v, _ := asn1.Marshal([]asn1.ObjectIdentifier{oidTimeStamping})
		tmpl.ExtraExtensions = []pkix.Extension{{Id: oidEKU, Critical: true, Value: v}}
	case "tsa-ca": // the right EKU on a certificate that is itself a CA
		tmpl.KeyUsage = x509.KeyUsageDigitalSignature | x509.KeyUsageCertSign
		tmpl.IsCA, tmpl.BasicConstraintsValid = true, true
		v, _ := asn1.Marshal([]asn1.ObjectIdentifier{oidTimeStamping})
		tmpl.ExtraExtensions = []pkix.Extension{{Id: oidEKU, Critical: true, Value: v}}
	default:
		panic("unknown cert kind " + s.Kind)
	}
	p, pk := tmpl, key
	if parent != nil {
		p, pk = parent.Cert, parent.Key
	}
	if s.CRLSign {
		tmpl.KeyUsage |= x509.KeyUsageCRLSign
	}
	der, err := x509.CreateCertificate(rand.Reader, tmpl, p, key.Public(), pk)
	if err != nil {
		panic(fmt.Sprintf("mint %+v: %v", s, err))
	}
	c, err := x509.ParseCertificate(der)
	if err != nil {
		panic(err)
	}
	return &Ent{Cert: c, Key: key, Parent: parent}
}

// SimpleChain mints root -> (n intermediates) -> code-signing leaf, all valid around now.
func SimpleChain(tag string, inter int, leafSpec string, leafIdx int) *Ent {
	cur := Mint(nil, CertSpec{CN: tag + "-root", Kind: "ca", KeyIdx: 7, PathLen: 3})
	for i := 0; i < inter; i++ {
		cur = Mint(cur, CertSpec{CN: fmt.Sprintf("%s-int%d", tag, i), Kind: "ca", KeyIdx: 6 - i, PathLen: 2 - i})
	}
	return Mint(cur, CertSpec{CN: tag + "-leaf", Kind: "codesign", KeySpec: leafSpec, KeyIdx: leafIdx,
		NotBefore: time.Now().Add(-500 * 24 * time.Hour), NotAfter: time.Now().Add(500 * 24 * time.Hour)})
}

// HashFor returns the hash bound to a key (Notary Project algorithm selection).
func HashFor(k crypto.Signer) crypto.Hash {
	switch pk := k.Public().(type) {
	case *ecdsa.PublicKey:
		switch pk.Curve.Params().BitSize {
		case 256:
			return crypto.SHA256
		case 384:
			return crypto.SHA384
		default:
			return crypto.SHA512
		}
	case *rsa.PublicKey:
		switch pk.N.BitLen() {
		case 2048:
			return crypto.SHA256
		case 3072:
			return crypto.SHA384
		default:
			return crypto.SHA512
		}
	}
	panic("key type")
}

// PEMCert encodes a certificate as a CERTIFICATE PEM block.
func PEMCert(c *x509.Certificate) []byte {
	return pem.EncodeToMemory(&pem.Block{Type: "CERTIFICATE", Bytes: c.Raw})
}

// DNOf renders the subject of a certificate minted by this package as an RFC 4514 string usable in an x509.subject
// identity (the minted subjects use C, ST, O and CN with plain values, so no escaping is needed).
func DNOf(c *x509.Certificate) string {
	return fmt.Sprintf("C=%s,ST=%s,O=%s,CN=%s", c.Subject.Country[0], c.Subject.Province[0], c.Subject.Organization[0], c.Subject.CommonName)
}
