// Package lib holds what the per-property monitors share: PRNG, case runner,
// evidence/violation reporting, PKI factory, envelope builders, test TSA,
// scripted collaborators, file-system snapshots.
package lib

import (
	"encoding/json"
	"fmt"
	"hash/fnv"
	"os"
	"path/filepath"
	"runtime"
	"runtime/debug"
	"sort"
	"strconv"
	"strings"
	"sync"
	"sync/atomic"
	"time"
)

// VerifDir is the root of the verification tree (evidence, replays, known findings).
func VerifDir() string {
	if d := os.Getenv("VERIF_DIR"); d != "" {
		return d
	}
	return "/verif"
}

// ---------------------------------------------------------------- PRNG

// Rand is a splitmix64 PRNG; everything random in a check derives from VERIF_SEED through it.
type Rand struct{ s uint64 }

func NewRand(seed uint64) *Rand { return &Rand{s: seed*0x9E3779B97F4A7C15 + 0x1234567} }

// Fork derives an independent stream labelled by name (stable across runs).
func (r *Rand) Fork(name string) *Rand {
	h := fnv.New64a()
	h.Write([]byte(name))
	return &Rand{s: r.s ^ (h.Sum64() * 0xBF58476D1CE4E5B9)}
}
func (r *Rand) U64() uint64 {
	r.s += 0x9E3779B97F4A7C15
	z := r.s
	z = (z ^ (z >> 30)) * 0xBF58476D1CE4E5B9
	z = (z ^ (z >> 27)) * 0x94D049BB133111EB
	return z ^ (z >> 31)
}
func (r *Rand) Intn(n int) int {
	if n <= 0 {
		return 0
	}
	return int(r.U64() % uint64(n))
}
func (r *Rand) Bool() bool              { return r.U64()&1 == 1 }
func (r *Rand) Chance(p int) bool       { return r.Intn(100) < p }
func (r *Rand) Pick(xs []string) string { return xs[r.Intn(len(xs))] }
func (r *Rand) Bytes(n int) []byte {
	b := make([]byte, n)
	for i := 0; i < n; i += 8 {
		v := r.U64()
		for j := 0; j < 8 && i+j < n; j++ {
			b[i+j] = byte(v >> (8 * j))
		}
	}
	return b
}
func (r *Rand) Perm(n int) []int {
	p := make([]int, n)
	for i := range p {
		p[i] = i
	}
	for i := n - 1; i > 0; i-- {
		j := r.Intn(i + 1)
		p[i], p[j] = p[j], p[i]
	}
	return p
}

// ---------------------------------------------------------------- Run

type violation struct {
	Sig     map[string]string `json:"signature"`
	What    string            `json:"what"`
	Witness any               `json:"witness,omitempty"`
}

type knownEntry struct {
	Property string            `json:"property"`
	Status   string            `json:"status"` // known | fixed
	Match    map[string]string `json:"match"`
	What     string            `json:"what"`
	Commit   string            `json:"commit,omitempty"`
}

// Run collects what one check execution observed and turns it into the
// evidence file, the VIOLATION / KNOWN-FINDING lines and the exit status.
type Run struct {
	ID, Tier, Level string
	Seed            int64
	Rule            string
	Assumptions     []string
	Extra           map[string]any
	Exhaustive      bool

	start      time.Time
	mu         sync.Mutex
	evals      int64
	distinct   map[uint64]struct{}
	events     map[string]int64
	samples    map[string][]any
	sampleCap  int
	viol       []violation
	violCount  int64
	knownHits  map[int]int64
	violKinds  map[string]int64
	known      []knownEntry
	inconcl    []string
	replayOnly string
	onExit     []func()
}

// OnExit registers a clean-up that Finish runs before the process exits (deferred calls in main do not run on os.Exit).
func (r *Run) OnExit(f func()) { r.onExit = append(r.onExit, f) }

func (r *Run) exit(code int) {
	for i := len(r.onExit) - 1; i >= 0; i-- {
		func() {
			defer func() { recover() }()
			r.onExit[i]()
		}()
	}
	os.Exit(code)
}

// SetExtra records an extra evidence value; safe to call from the workers of Parallel.
func (r *Run) SetExtra(k string, v any) {
	r.mu.Lock()
	r.Extra[k] = v
	r.mu.Unlock()
}

// Start parses the command line: <tier> | --replay <file>; env VERIF_SEED, VERIF_TIER.
func Start(id, level string) *Run {
	r := &Run{ID: id, Level: level, Tier: "quick", Seed: 1, start: time.Now(),
		distinct: map[uint64]struct{}{}, events: map[string]int64{}, samples: map[string][]any{},
		sampleCap: 3, knownHits: map[int]int64{}, Extra: map[string]any{}}
	if t := os.Getenv("VERIF_TIER"); t == "quick" || t == "thorough" {
		r.Tier = t
	}
	args := os.Args[1:]
	for i := 0; i < len(args); i++ {
		switch args[i] {
		case "quick", "thorough":
			r.Tier = args[i]
		case "--replay":
			if i+1 < len(args) {
				r.loadReplay(args[i+1])
				i++
			}
		}
	}
	if s := os.Getenv("VERIF_SEED"); s != "" && r.replayOnly == "" {
		if v, err := strconv.ParseInt(s, 10, 64); err == nil {
			r.Seed = v
		}
	}
	r.loadKnown()
	debug.SetTraceback("all")
	// A generous wall-clock watchdog around the whole run: a monitor that waits for an event that never comes (a hook no
	// longer reached from the goroutine it is expected on, a child that never answers) must not hang for ever. Its firing
	// decides nothing about the property: what was observed so far is written out and the verdict is inconclusive.
	limit := 45 * time.Minute
	if r.Tier == "thorough" {
		limit = 8 * time.Hour
	}
	if s := os.Getenv("VERIF_WATCHDOG_S"); s != "" {
		if v, err := strconv.Atoi(s); err == nil && v > 0 {
			limit = time.Duration(v) * time.Second
		}
	}
	go func() {
		time.Sleep(limit)
		buf := make([]byte, 1<<20)
		n := runtime.Stack(buf, true)
		os.WriteFile(filepath.Join(os.TempDir(), fmt.Sprintf("verif-watchdog-%s.stacks", id)), buf[:n], 0o644)
		r.Inconclusive(fmt.Sprintf("the run-wide watchdog fired after %v: some monitor was still waiting (goroutine dump in %s)", limit, filepath.Join(os.TempDir(), fmt.Sprintf("verif-watchdog-%s.stacks", id))))
		r.Finish()
	}()
	return r
}

func (r *Run) loadReplay(path string) {
	b, err := os.ReadFile(path)
	if err != nil {
		fmt.Printf("cannot read replay file %s: %v\n", path, err)
		os.Exit(2)
	}
	var rp struct {
		Tier string `json:"tier"`
		Seed int64  `json:"seed"`
	}
	if json.Unmarshal(b, &rp) == nil {
		if rp.Tier != "" {
			r.Tier = rp.Tier
		}
		r.Seed = rp.Seed
	}
	r.replayOnly = path
	fmt.Printf("replaying %s: tier=%s seed=%d (the whole fixed case list of that seed is re-run)\n", path, r.Tier, r.Seed)
}

func (r *Run) loadKnown() {
	b, err := os.ReadFile(filepath.Join(VerifDir(), "KNOWN_FINDINGS.json"))
	if err != nil {
		return
	}
	var f struct {
		Findings []knownEntry `json:"findings"`
	}
	if err := json.Unmarshal(b, &f); err != nil {
		fmt.Printf("KNOWN_FINDINGS.json unreadable: %v\n", err)
		os.Exit(2)
	}
	for _, e := range f.Findings {
		if e.Property == r.ID && e.Status == "known" {
			r.known = append(r.known, e)
		}
	}
}

func (r *Run) Quick() bool            { return r.Tier == "quick" }
func (r *Run) Thorough() bool         { return r.Tier == "thorough" }
func (r *Run) Rand(name string) *Rand { return NewRand(uint64(r.Seed)).Fork(r.ID + "/" + name) }

// N picks the tier-dependent size of a case list.
func (r *Run) N(quick, thorough int) int {
	if r.Thorough() {
		return thorough
	}
	return quick
}

// Eval counts one executed case; key (if non-empty) identifies a distinct non-trivial case.
func (r *Run) Eval(key string) {
	atomic.AddInt64(&r.evals, 1)
	if key != "" {
		h := fnv.New64a()
		h.Write([]byte(key))
		v := h.Sum64()
		r.mu.Lock()
		r.distinct[v] = struct{}{}
		r.mu.Unlock()
	}
}

func (r *Run) Event(kind string) { r.EventN(kind, 1) }
func (r *Run) EventN(kind string, n int64) {
	r.mu.Lock()
	r.events[kind] += n
	r.mu.Unlock()
}
func (r *Run) Count(kind string) int64 {
	r.mu.Lock()
	defer r.mu.Unlock()
	return r.events[kind]
}

// Sample keeps up to three concrete cases per kind for the evidence file.
func (r *Run) Sample(kind string, v any) {
	r.mu.Lock()
	if len(r.samples[kind]) < r.sampleCap {
		r.samples[kind] = append(r.samples[kind], v)
	}
	r.mu.Unlock()
}

// Violation records a refuting observation. sig is the case signature used to match KNOWN_FINDINGS.json.
func (r *Run) Violation(sig map[string]string, what string, witness any) {
	r.mu.Lock()
	defer r.mu.Unlock()
	for i, k := range r.known {
		ok := true
		for mk, mv := range k.Match {
			if sig[mk] != mv {
				ok = false
				break
			}
		}
		if ok {
			r.knownHits[i]++
			return
		}
	}
	r.violCount++
	hk := sig["kind"]
	if w := sig["why"]; w != "" {
		hk += "/" + w
	}
	if w := sig["where"]; w != "" {
		hk += "@" + w
	}
	if r.violKinds == nil {
		r.violKinds = map[string]int64{}
	}
	r.violKinds[hk]++
	if r.violKinds[hk] <= 3 && len(r.viol) < 20 {
		r.viol = append(r.viol, violation{Sig: sig, What: what, Witness: witness})
	}
}

func (r *Run) Violations() int64 {
	r.mu.Lock()
	defer r.mu.Unlock()
	return r.violCount
}

// Inconclusive records that some monitor could not decide (watchdog, hook not reached, vacuous coverage).
func (r *Run) Inconclusive(reason string) {
	r.mu.Lock()
	r.inconcl = append(r.inconcl, reason)
	r.mu.Unlock()
}

// RequireAtLeast is a vacuity guard: the named event counter must reach min, else the run is inconclusive.
func (r *Run) RequireAtLeast(kind string, min int64) {
	if c := r.Count(kind); c < min {
		r.Inconclusive(fmt.Sprintf("vacuity guard: event %q observed %d times, need >= %d", kind, c, min))
	}
}

// Finish writes evidence, prints verdict lines and exits (0 held, 1 violated, 2 inconclusive).
func (r *Run) Finish() {
	r.mu.Lock()
	defer r.mu.Unlock()
	wall := time.Since(r.start).Seconds()
	var samples []any
	kinds := make([]string, 0, len(r.samples))
	for k := range r.samples {
		kinds = append(kinds, k)
	}
	sort.Strings(kinds)
	for _, k := range kinds {
		for _, s := range r.samples[k] {
			samples = append(samples, map[string]any{"kind": k, "case": s})
		}
	}
	if len(samples) == 0 {
		samples = append(samples, "no sample recorded")
	}
	cov := map[string]any{
		"evaluations":         r.evals,
		"distinct_nontrivial": len(r.distinct),
		"rule":                r.Rule,
		"samples":             samples,
		"events":              r.events,
		"exhaustive":          r.Exhaustive,
	}
	for k, v := range r.Extra {
		cov[k] = v
	}
	var knownLines []string
	for i, k := range r.known {
		if n := r.knownHits[i]; n > 0 {
			knownLines = append(knownLines, fmt.Sprintf("KNOWN-FINDING: property=%s %s (matched %d observations)", r.ID, k.What, n))
		}
	}
	cov["known_findings_matched"] = knownLines
	if len(r.inconcl) > 0 {
		cov["inconclusive"] = r.inconcl
	}
	ev := map[string]any{
		"property_id": r.ID, "tier": r.Tier, "seed": r.Seed, "level": r.Level,
		"coverage": cov, "assumptions": r.Assumptions, "wall_s": wall, "violations": r.violCount,
	}
	os.MkdirAll(filepath.Join(VerifDir(), "evidence"), 0o755)
	b, _ := json.MarshalIndent(ev, "", " ")
	if err := os.WriteFile(filepath.Join(VerifDir(), "evidence", r.ID+".json"), append(b, '\n'), 0o644); err != nil {
		fmt.Printf("cannot write evidence: %v\n", err)
	}
	fmt.Printf("%s %s seed=%d: evaluations=%d distinct_nontrivial=%d wall=%.1fs\n", r.ID, r.Tier, r.Seed, r.evals, len(r.distinct), wall)
	evk := make([]string, 0, len(r.events))
	for k := range r.events {
		evk = append(evk, k)
	}
	sort.Strings(evk)
	var sb strings.Builder
	for _, k := range evk {
		fmt.Fprintf(&sb, " %s=%d", k, r.events[k])
	}
	fmt.Printf("%s events:%s\n", r.ID, sb.String())
	for _, l := range knownLines {
		fmt.Println(l)
	}
	if r.violCount > 0 {
		os.MkdirAll(filepath.Join(VerifDir(), "replays"), 0o755)
		for i, v := range r.viol {
			p := filepath.Join(VerifDir(), "replays", fmt.Sprintf("%s-%s-seed%d-%d.json", r.ID, r.Tier, r.Seed, i))
			wb, _ := json.MarshalIndent(map[string]any{"property": r.ID, "tier": r.Tier, "seed": r.Seed, "signature": v.Sig, "what": v.What, "witness": v.Witness}, "", " ")
			os.WriteFile(p, wb, 0o644)
			fmt.Printf("VIOLATION property=%s replay=%s\n", r.ID, p)
			fmt.Printf("  what: %s\n  signature: %v\n", v.What, v.Sig)
		}
		fmt.Printf("%s: %d violating observations in total; by kind: %v\n", r.ID, r.violCount, r.violKinds)
		r.exit(1)
	}
	if len(r.inconcl) > 0 {
		for _, s := range r.inconcl {
			fmt.Printf("INCONCLUSIVE property=%s reason=%s\n", r.ID, s)
		}
		r.exit(2)
	}
	fmt.Printf("%s: held on everything observed\n", r.ID)
	r.exit(0)
}

// ---------------------------------------------------------------- worker pool

// Parallel runs f(i) for i in [0,n) on w workers (w<=0: 16). A panic inside f is
// recovered and handed to onPanic (never lost, never fatal for the other cases).
func Parallel(n, w int, f func(i int), onPanic func(i int, p any, stack []byte)) {
	if w <= 0 {
		w = 16
	}
	var next int64 = -1
	var wg sync.WaitGroup
	for k := 0; k < w; k++ {
		wg.Add(1)
		go func() {
			defer wg.Done()
			for {
				i := int(atomic.AddInt64(&next, 1))
				if i >= n {
					return
				}
				func() {
					defer func() {
						if p := recover(); p != nil {
							if onPanic != nil {
								onPanic(i, p, debug.Stack())
							}
						}
					}()
					f(i)
				}()
			}
		}()
	}
	wg.Wait()
}

// Guard runs f and reports a recovered panic as (value, stack).
func Guard(f func()) (p any, stack []byte) {
	defer func() {
		if x := recover(); x != nil {
			p = x
			stack = debug.Stack()
		}
	}()
	f()
	return nil, nil
}

// PanicViolation is the standard handler: a panic inside the library is a violation witness.
func (r *Run) PanicViolation(where string) func(i int, p any, stack []byte) {
	return func(i int, p any, stack []byte) {
		r.Violation(map[string]string{"kind": "panic", "where": where}, fmt.Sprintf("panic in %s case %d: %v", where, i, p), string(stack))
	}
}

// JS renders v compactly for samples/witnesses.
func JS(v any) string {
	b, err := json.Marshal(v)
	if err != nil {
		return fmt.Sprintf("%+v", v)
	}
	return string(b)
}

// TempDir makes a scratch directory that the caller removes.
func TempDir(tag string) string {
	base := os.Getenv("VERIF_SCRATCH")
	if base == "" {
		base = os.TempDir()
	}
	d, err := os.MkdirTemp(base, "verif-"+tag+"-")
	if err != nil {
		panic(err)
	}
	return d
}
