package lib

import (
	"crypto/rand"
	"crypto/x509"
	"crypto/x509/pkix"
	"encoding/asn1"
	"math/big"
	"sync"
	"time"
)

var (
	crlOnce   sync.Once
	crlIssuer *x509.Certificate
	crlEnt    *Ent
)

// CRLIssuer returns a CA certificate (with cRLSign) used to mint CRLs.
func CRLIssuer() (*x509.Certificate, *Ent) {
	crlOnce.Do(func() {
		crlEnt = Mint(nil, CertSpec{CN: "verif-crl-ca", Kind: "ca", KeyIdx: 4})
		c := *crlEnt.Cert
		c.KeyUsage |= x509.KeyUsageCRLSign
		crlIssuer = &c
	})
	return crlIssuer, crlEnt
}

// MintCRL creates a parsed CRL with the given number, next-update and about padBytes of revoked entries.
func MintCRL(number int64, nextUpdate time.Time, padBytes int) *x509.RevocationList {
	iss, ent := CRLIssuer()
	tmpl := &x509.RevocationList{Number: big.NewInt(number), ThisUpdate: time.Now().Add(-20 * 365 * 24 * time.Hour), NextUpdate: nextUpdate}
	if nextUpdate.IsZero() {
		tmpl.ThisUpdate = time.Time{} // (crypto/x509 leaves the optional nextUpdate out only if thisUpdate is not after it)
	} else if nextUpdate.Before(tmpl.ThisUpdate) {
		tmpl.ThisUpdate = nextUpdate.Add(-time.Hour) // next-update instants centuries ago (GeneralizedTime carries years 0001-9999)
	}
	n := padBytes / 37
	for i := 0; i < n; i++ {
		tmpl.RevokedCertificateEntries = append(tmpl.RevokedCertificateEntries, x509.RevocationListEntry{
			SerialNumber: big.NewInt(number*1_000_000 + int64(i) + 1), RevocationTime: time.Unix(1_600_000_000, 0)})
	}
	der, err := x509.CreateRevocationList(rand.Reader, tmpl, iss, ent.Key)
	if err != nil {
		panic(err)
	}
	rl, err := x509.ParseRevocationList(der)
	if err != nil {
		panic(err)
	}
	return rl
}

// MintBigCRL creates a parsed CRL whose DER is about size bytes: the bulk is one unknown non-critical extension, which
// costs nothing to encode or parse (a CRL with as many revoked entries would take seconds). fill seeds the bulk so
// that two big CRLs differ throughout.
func MintBigCRL(number int64, nextUpdate time.Time, size int, fill byte) *x509.RevocationList {
	iss, ent := CRLIssuer()
	bulk := make([]byte, size)
	for i := range bulk {
		bulk[i] = fill + byte(i*7)
	}
	tmpl := &x509.RevocationList{Number: big.NewInt(number), ThisUpdate: time.Now().Add(-20 * 365 * 24 * time.Hour), NextUpdate: nextUpdate,
		ExtraExtensions: []pkix.Extension{{Id: asn1.ObjectIdentifier{1, 3, 6, 1, 4, 1, 99999, 1}, Value: bulk}}}
	der, err := x509.CreateRevocationList(rand.Reader, tmpl, iss, ent.Key)
	if err != nil {
		panic(err)
	}
	rl, err := x509.ParseRevocationList(der)
	if err != nil {
		panic(err)
	}
	return rl
}
