// C13 — trust stores load only valid certificates from real files of the named store.
//
// Generated trust-store trees on a real file system (ground truth known by
// construction: every file is produced from a list of minted certificates and
// an unambiguous encoding) are loaded with truststore.GetCertificates; a model
// of the statement decides success, and on success the returned multiset of
// DER certificates must be exactly the certificates of the store's files.
// Decoy certificates sit everywhere else (parents, sibling stores, same name
// under another type) so that loading "from anywhere else" is visible.
package main

import (
	"bytes"
	"context"
	"crypto/rand"
	"crypto/x509"
	"crypto/x509/pkix"
	"encoding/asn1"
	"encoding/pem"
	"fmt"
	"math/big"
	"os"
	"path/filepath"
	"sort"
	"strings"
	"sync"
	"sync/atomic"
	"syscall"

	"github.com/notaryproject/notation-go/dir"
	"github.com/notaryproject/notation-go/verifharness/lib"
	"github.com/notaryproject/notation-go/verifier/truststore"
)

type certKind struct {
	name     string
	e        *lib.Ent
	caOrSelf bool // CA or self-signed
	tsaRoot  bool // self-signed root CA
}

type entry struct {
	Kind  string   // certs | garbage | empty | subdir | symlink | dangling
	Enc   string   // pem | der
	Certs []string // cert kind names
}

type scenario struct {
	Type   string
	Name   string
	Shape  string // dir | absent | symlink | file | dotname-type | dotname-x509
	Files  []entry
	Twin   bool // same store name also exists under another type with other certificates
	Judged bool
}

func main() {
	r := lib.Start("C13", "exploration")
	r.Rule = "PRNG-generated store trees: type {ca,signingAuthority,tsa,invalid} x name {plain,dotted,hidden,separator,dot,dotdot,empty,long} x store shape {directory, absent, symlinked, regular file} x 0-5 entries from {1-3 certificates as PEM or concatenated DER, garbage, empty file, sub-directory, symlink to valid file, dangling symlink} x certificate kinds {root CA, intermediate CA, leaf, self-signed leaf, self-issued-by-name-only CA}; ~40% clean stores; distinct by scenario; non-trivial = valid type and name (the loader reaches the file system)"
	r.Assumptions = []string{"only unambiguous encodings carry a verdict (pure DER, concatenated DER, 1-3 CERTIFICATE PEM blocks, garbage without DER/PEM structure, empty)",
		"FIFOs/devices inside a store are outside the quantifier; the store name '...' and non-ASCII names are not judged (the statement does not say whether they are plain file names)",
		"tsa 'self-signed root' is modelled as self-signed AND CA (cross-checked against the library in DESIGN.md section 6)"}
	root := lib.Mint(nil, lib.CertSpec{CN: "c13-root", Kind: "ca", KeyIdx: 7})
	root2 := lib.Mint(nil, lib.CertSpec{CN: "c13-root2", Kind: "ca", KeyIdx: 6})
	inter := lib.Mint(root, lib.CertSpec{CN: "c13-inter", Kind: "ca", KeyIdx: 5})
	leaf := lib.Mint(root, lib.CertSpec{CN: "c13-leaf", Kind: "codesign", KeyIdx: 0})
	selfLeaf := lib.Mint(nil, lib.CertSpec{CN: "c13-selfleaf", Kind: "codesign", KeyIdx: 1})
	twinParent := lib.Mint(nil, lib.CertSpec{CN: "c13-twin", Kind: "ca", KeyIdx: 3})
	selfIssuedOnly := lib.Mint(twinParent, lib.CertSpec{CN: "c13-twin", Kind: "ca", KeyIdx: 4})           // issuer name == subject, signed by another key
	leafSelfIssuedOnly := lib.Mint(twinParent, lib.CertSpec{CN: "c13-twin", Kind: "codesign", KeyIdx: 5}) // NOT a CA; issuer name == subject name, but signed by another key: not self-signed
	leafCertSign := lib.Mint(inter, lib.CertSpec{CN: "c13-leaf-with-certsign-usage", Kind: "leaf-certsign", KeyIdx: 2})
	rsaRoot := lib.Mint(nil, lib.CertSpec{CN: "c13-rsa-root", Kind: "ca", KeySpec: "RSA-2048", KeyIdx: 0})
	decoy := lib.Mint(nil, lib.CertSpec{CN: "c13-decoy", Kind: "ca", KeyIdx: 2})
	kinds := map[string]certKind{
		"root": {"root", root, true, true}, "root2": {"root2", root2, true, true}, "rsaRoot": {"rsaRoot", rsaRoot, true, true},
		"inter": {"inter", inter, true, false}, "leaf": {"leaf", leaf, false, false},
		"selfLeaf": {"selfLeaf", selfLeaf, true, false}, "selfIssuedOnly": {"selfIssuedOnly", selfIssuedOnly, true, false},
		"leafSelfIssuedOnly": {"leafSelfIssuedOnly", leafSelfIssuedOnly, false, false},
		"leafCertSign":       {"leafCertSign", leafCertSign, false, false},
	}
	if !bytes.Equal(leafSelfIssuedOnly.Cert.RawIssuer, leafSelfIssuedOnly.Cert.RawSubject) || leafSelfIssuedOnly.Cert.IsCA {
		panic("harness bug: leafSelfIssuedOnly is not what it says")
	}
	// a leaf (not CA, not self-signed) whose signature algorithm crypto/x509 can parse but not verify (RSA with SHA3-256):
	// "cannot check the self-signature" must not be read as "self-signed"
	rsaLeaf := lib.Mint(rsaRoot, lib.CertSpec{CN: "c13-rsa-leaf", Kind: "codesign", KeySpec: "RSA-2048", KeyIdx: 1})
	oddDER := bytes.ReplaceAll(rsaLeaf.Cert.Raw, []byte{0x06, 0x09, 0x2A, 0x86, 0x48, 0x86, 0xF7, 0x0D, 0x01, 0x01, 0x0B}, []byte{0x06, 0x09, 0x60, 0x86, 0x48, 0x01, 0x65, 0x03, 0x04, 0x03, 0x0E})
	if odd, err := x509.ParseCertificate(oddDER); err == nil && !bytes.Equal(oddDER, rsaLeaf.Cert.Raw) {
		kinds["leafUnverifiableAlg"] = certKind{"leafUnverifiableAlg", &lib.Ent{Cert: odd}, false, false}
	}
	goodCA := []string{"root", "root2", "rsaRoot"}
	allKinds := []string{"root", "root2", "rsaRoot", "inter", "leaf", "selfLeaf", "selfIssuedOnly", "leafSelfIssuedOnly", "leafSelfIssuedOnly", "leafCertSign", "leafCertSign"}
	// a CA certificate signed with its OWN key whose issuer NAME is another one: the signature checks out against itself,
	// but it is not a self-signed root (issuer != subject) - fine for ca / signingAuthority stores, not for tsa stores
	{
		tmpl := *root2.Cert
		tmpl.Subject.CommonName = "c13-own-key-other-issuer-name"
		tmpl.SerialNumber = big.NewInt(424242)
		tmpl.RawSubject, tmpl.RawIssuer, tmpl.SubjectKeyId, tmpl.AuthorityKeyId = nil, nil, nil, nil
		parent := tmpl
		parent.Subject.CommonName = "c13-somebody-else"
		if der, err := x509.CreateCertificate(rand.Reader, &tmpl, &parent, root2.Key.Public(), root2.Key); err == nil {
			if c, err := x509.ParseCertificate(der); err == nil && c.CheckSignatureFrom(c) == nil && !bytes.Equal(c.RawSubject, c.RawIssuer) {
				kinds["ownKeyOtherIssuerName"] = certKind{"ownKeyOtherIssuerName", &lib.Ent{Cert: c}, true, false}
				allKinds = append(allKinds, "ownKeyOtherIssuerName")
				r.Event("kind-own-key-other-issuer-name-available")
			}
		}
	}
	// ... and one whose issuer name holds the very attributes of its subject in ANOTHER order (reversed RDN sequence): two
	// different distinguished names that print alike once a library sorts the attributes for display
	{
		tmpl := *root2.Cert
		tmpl.Subject = pkix.Name{CommonName: "c13-permuted-issuer", Organization: []string{"Org"}, Province: []string{"WA"}, Country: []string{"US"}}
		tmpl.SerialNumber = big.NewInt(434343)
		tmpl.RawSubject, tmpl.RawIssuer, tmpl.SubjectKeyId, tmpl.AuthorityKeyId = nil, nil, nil, nil
		seq := tmpl.Subject.ToRDNSequence()
		rev := make(pkix.RDNSequence, len(seq))
		for i := range seq {
			rev[len(seq)-1-i] = seq[i]
		}
		parent := tmpl
		if raw, err := asn1.Marshal(rev); err == nil {
			parent.RawSubject = raw
			if der, err := x509.CreateCertificate(rand.Reader, &tmpl, &parent, root2.Key.Public(), root2.Key); err == nil {
				if c, err := x509.ParseCertificate(der); err == nil && c.CheckSignatureFrom(c) == nil && !bytes.Equal(c.RawSubject, c.RawIssuer) {
					kinds["ownKeyIssuerIsSubjectPermuted"] = certKind{"ownKeyIssuerIsSubjectPermuted", &lib.Ent{Cert: c}, true, false}
					allKinds = append(allKinds, "ownKeyIssuerIsSubjectPermuted", "ownKeyIssuerIsSubjectPermuted")
					r.Event("kind-own-key-issuer-is-subject-permuted-available")
				}
			}
		}
	}
	if _, ok := kinds["leafUnverifiableAlg"]; ok {
		allKinds = append(allKinds, "leafUnverifiableAlg", "leafUnverifiableAlg")
	}
	// a version 1 end-entity certificate issued by the root (no basic constraints: not a CA; not self-signed)
	kinds["v1EndEntity"] = certKind{"v1EndEntity", &lib.Ent{Cert: lib.MintV1(root, "c13-v1-end-entity", 3)}, false, false}
	allKinds = append(allKinds, "v1EndEntity", "v1EndEntity")
	// a CA certificate self-issued by NAME whose SHA-1 signature was made by another key: a CA (fine for ca / signingAuthority
	// stores), but no self-signed root (tsa stores) - that its signature cannot be checked does not make it one
	if c := lib.MintSHA1SelfIssuedCA(); c != nil {
		kinds["sha1SelfIssuedByNameCA"] = certKind{"sha1SelfIssuedByNameCA", &lib.Ent{Cert: c}, true, false}
		allKinds = append(allKinds, "sha1SelfIssuedByNameCA", "sha1SelfIssuedByNameCA")
		r.Event("kind-sha1-self-issued-by-name-available")
	}

	types := []struct {
		s     string
		valid bool
	}{{"ca", true}, {"signingAuthority", true}, {"tsa", true}, {"CA", false}, {"", false}, {"x509", false}, {"signingauthority", false}, {"tsa/..", false}, {"TSA", false}, {"Tsa", false}, {"SigningAuthority", false}}
	type nm struct {
		s      string
		valid  bool
		judged bool
	}
	names := []nm{{"s", true, true}, {"store-1", true, true}, {"s.t-o_r", true, true}, {".hidden", true, true}, {"A_b.crt", true, true},
		{".", false, true}, {"..", false, true}, {"", false, true}, {"a/b", false, true}, {"a\\b", false, true}, {"../s", false, true}, {"s/..", false, true}, {"/abs", false, true}, {"s/", false, true},
		{"\u212aelvin.Store_1", false, true}, {"\u017ftore", false, true}, {"st\u00f6re", false, true}, // (KELVIN SIGN, LONG S: they fold to k and s; a plain name is ASCII letters, digits, _ . -)
		{" s", false, true}, {"s ", false, true}, {"s\n", false, true}, {"\ts", false, true}, {"\u00a0s", false, true}, {" store-1 ", false, true}, // (surrounding white space is part of the name)
		{strings.Repeat("a", 300), false, true}, {strings.Repeat("long.name-", 30), false, true}, // (longer than a file name can be: such a store cannot exist; still an error, not a crash)
		{"...", true, false}}

	n := r.N(10000, 300000)
	lib.Parallel(n, 16, func(i int) {
		rng := r.Rand(fmt.Sprintf("case-%d", i))
		base := lib.TempDir("c13")
		defer os.RemoveAll(base)
		x509dir := filepath.Join(base, "truststore", "x509")
		sc := scenario{Judged: true}
		var want bool
		var wantCerts [][]byte

		mode := rng.Intn(20)
		switch {
		case mode == 0: // dot-name scenario: loose certificates directly under x509/<type>/
			sc.Type, sc.Name, sc.Shape = []string{"ca", "signingAuthority", "tsa"}[rng.Intn(3)], ".", "dotname-type"
			os.MkdirAll(filepath.Join(x509dir, sc.Type), 0o755)
			os.WriteFile(filepath.Join(x509dir, sc.Type, "loose.crt"), lib.PEMCert(decoy.Cert), 0o644)
			want = false
		case mode == 2 && i%3 == 0: // truststore/x509/<type> is a regular FILE (a certificate somebody copied one level too high)
			sc.Type, sc.Name, sc.Shape = []string{"ca", "signingAuthority", "tsa"}[rng.Intn(3)], "s", "type-is-a-file"
			os.MkdirAll(x509dir, 0o755)
			os.WriteFile(filepath.Join(x509dir, sc.Type), root.Cert.Raw, 0o644)
			want = false
		case mode == 1: // loose certificates directly under x509/ and no type directories at all
			sc.Type, sc.Name, sc.Shape = []string{"ca", "signingAuthority", "tsa"}[rng.Intn(3)], "..", "dotname-x509"
			os.MkdirAll(x509dir, 0o755)
			os.WriteFile(filepath.Join(x509dir, "loose.crt"), decoy.Cert.Raw, 0o644)
			want = false
		default:
			t := types[0]
			if rng.Intn(6) == 0 {
				t = types[rng.Intn(len(types))]
			} else {
				t = types[rng.Intn(3)]
			}
			nmv := names[0]
			if rng.Intn(4) == 0 {
				nmv = names[rng.Intn(len(names))]
			} else {
				nmv = names[rng.Intn(5)]
			}
			sc.Type, sc.Name, sc.Judged = t.s, nmv.s, nmv.judged
			// decoys everywhere else
			os.MkdirAll(filepath.Join(x509dir, "ca", "other"), 0o755)
			os.WriteFile(filepath.Join(x509dir, "ca", "other", "d.crt"), decoy.Cert.Raw, 0o644)
			os.MkdirAll(filepath.Join(x509dir, "tsa", "other"), 0o755)
			os.WriteFile(filepath.Join(x509dir, "tsa", "other", "d.pem"), lib.PEMCert(decoy.Cert), 0o644)
			os.WriteFile(filepath.Join(x509dir, "decoy.crt"), decoy.Cert.Raw, 0o644)
			os.WriteFile(filepath.Join(base, "truststore", "decoy.crt"), decoy.Cert.Raw, 0o644)
			os.WriteFile(filepath.Join(base, "decoy.crt"), decoy.Cert.Raw, 0o644)
			want = t.valid && nmv.valid
			if !want {
				// make the path the name would lexically resolve to loadable, so that a weakened check is visible
				if tn := strings.TrimSpace(nmv.s); tn != nmv.s && tn != "" && t.valid {
					// ... and the store a TRIMMED name would resolve to
					os.MkdirAll(filepath.Join(x509dir, t.s, tn), 0o755)
					os.WriteFile(filepath.Join(x509dir, t.s, tn, "r.crt"), root.Cert.Raw, 0o644)
				}
				if t.valid || (t.s != "" && !strings.ContainsAny(t.s, "/\\.")) { // also for a type spelled in another case: a directory spelled exactly that way
					p := filepath.Join(x509dir, t.s, nmv.s)
					if rel, err := filepath.Rel(base, p); err == nil && len(rel) > 0 && rel[0] != '.' {
						if os.MkdirAll(p, 0o755) == nil {
							os.WriteFile(filepath.Join(p, "r.crt"), root.Cert.Raw, 0o644)
						}
					}
				}
				break
			}
			storeDir := filepath.Join(x509dir, t.s, nmv.s)
			if sc.Twin = rng.Intn(3) == 0; sc.Twin {
				for _, ot := range []string{"ca", "signingAuthority", "tsa"} {
					if ot != t.s {
						os.MkdirAll(filepath.Join(x509dir, ot, nmv.s), 0o755)
						os.WriteFile(filepath.Join(x509dir, ot, nmv.s, "twin.crt"), decoy.Cert.Raw, 0o644)
					}
				}
			}
			shape := rng.Intn(12)
			switch shape {
			case 0:
				sc.Shape = "absent"
				want = false
			case 1:
				sc.Shape = "symlink"
				realDir := filepath.Join(base, "real")
				os.MkdirAll(realDir, 0o755)
				os.WriteFile(filepath.Join(realDir, "r.crt"), root.Cert.Raw, 0o644)
				os.MkdirAll(filepath.Dir(storeDir), 0o755)
				os.Symlink(realDir, storeDir)
				want = false
			case 2:
				sc.Shape = "file"
				os.MkdirAll(filepath.Dir(storeDir), 0o755)
				os.WriteFile(storeDir, root.Cert.Raw, 0o644)
				want = false
			default:
				sc.Shape = "dir"
				os.MkdirAll(storeDir, 0o755)
				clean := rng.Intn(10) < 5
				nf := rng.Intn(6)
				if clean && nf == 0 {
					nf = 1
				}
				total := 0
				for f := 0; f < nf; f++ {
					fn := filepath.Join(storeDir, fmt.Sprintf("f%d.%s", f, []string{"crt", "pem", "cer", "txt"}[rng.Intn(4)]))
					if rng.Intn(5) == 0 { // hidden-looking names (.DS_Store, .old, .b.crt) are entries like any other
						fn = filepath.Join(storeDir, fmt.Sprintf(".%s%d", []string{"DS_Store", "old", "b.crt", "hidden.pem"}[rng.Intn(4)], f))
					}
					var e entry
					bad := !clean && rng.Intn(3) == 0
					if bad {
						e.Kind = []string{"garbage", "empty", "subdir", "symlink", "dangling", "socket", "chardev"}[rng.Intn(7)]
					} else {
						e.Kind = "certs"
					}
					switch e.Kind {
					case "garbage":
						g := append([]byte("garbage, not a certificate: "), rng.Bytes(40+rng.Intn(200))...)
						os.WriteFile(fn, g, 0o644)
						want = false
					case "empty":
						os.WriteFile(fn, nil, 0o644)
						want = false
					case "subdir":
						os.MkdirAll(fn, 0o755)
						if rng.Bool() {
							os.WriteFile(filepath.Join(fn, "nested.crt"), root.Cert.Raw, 0o644)
						}
						want = false
					case "symlink":
						tgt := filepath.Join(base, fmt.Sprintf("tgt%d.crt", f))
						os.WriteFile(tgt, root.Cert.Raw, 0o644)
						os.Symlink(tgt, fn)
						want = false
					case "dangling":
						os.Symlink(filepath.Join(base, "does-not-exist"), fn)
						want = false
					case "socket", "chardev":
						// an entry that is no regular file (a socket an agent left behind, a device node - here a copy of
						// /dev/null): "every entry a regular file", or the load fails as a whole
						if e.Kind == "socket" {
							syscall.Mknod(fn, syscall.S_IFSOCK|0o644, 0)
						} else {
							syscall.Mknod(fn, syscall.S_IFCHR|0o644, 1<<8|3)
						}
						if st, err := os.Lstat(fn); err != nil || st.Mode().IsRegular() {
							os.Remove(fn) // (not permitted here: the entry simply does not exist)
							e.Kind = "special-file-not-created"
							break
						}
						r.Event("stores-with-a-special-file")
						want = false
					default:
						k := 1 + rng.Intn(3)
						e.Enc = []string{"pem", "der"}[rng.Intn(2)]
						var buf bytes.Buffer
						if rng.Intn(50) == 0 {
							// a bundle of well over 1 MiB (a distribution's whole CA bundle): every certificate of it counts, and
							// one bad certificate at its very end still fails the store
							k, e.Enc = 1, "pem"
							e.Kind = "big-bundle"
							one := lib.PEMCert(root.Cert)
							nBig := (1<<20)/len(one) + 700
							for c := 0; c < nBig; c++ {
								buf.Write(one)
								wantCerts = append(wantCerts, root.Cert.Raw)
							}
							total += nBig
							r.Event("big-bundles")
						}
						for c := 0; c < k; c++ {
							var kn string
							if clean || rng.Intn(3) > 0 {
								kn = goodCA[rng.Intn(len(goodCA))]
								if t.s != "tsa" && rng.Intn(3) == 0 {
									kn = []string{"inter", "selfLeaf", "selfIssuedOnly"}[rng.Intn(3)] // acceptable outside tsa stores
								}
							} else {
								kn = allKinds[rng.Intn(len(allKinds))]
							}
							ck := kinds[kn]
							e.Certs = append(e.Certs, kn)
							if e.Enc == "pem" {
								pem.Encode(&buf, &pem.Block{Type: "CERTIFICATE", Bytes: ck.e.Cert.Raw})
							} else {
								buf.Write(ck.e.Cert.Raw)
							}
							if !ck.caOrSelf || (t.s == "tsa" && !ck.tsaRoot) {
								want = false
							}
							wantCerts = append(wantCerts, ck.e.Cert.Raw)
							total++
						}
						os.WriteFile(fn, buf.Bytes(), 0o644)
					}
					sc.Files = append(sc.Files, e)
				}
				if total == 0 {
					want = false
				}
			}
		}

		ts := truststore.NewX509TrustStore(dir.NewSysFS(base))
		// every fifth load runs under a context that ENDS after it was looked at a few times (a verification whose deadline
		// falls into the load): the load returns every certificate of the store, or fails as a whole - never a part
		var ctx context.Context = context.Background()
		ending := i%5 == 4
		if ending {
			ctx = &endingCtx{Context: context.Background(), left: int32(1 + rng.Intn(3)), done: make(chan struct{})}
		}
		certs, err := ts.GetCertificates(ctx, truststore.Type(sc.Type), sc.Name)
		if ending && want && err != nil && sc.Judged {
			r.Eval(lib.JS(sc) + "|ending-context")
			r.Event("failed-as-a-whole-under-an-ending-context")
			return
		}
		key := ""
		if sc.Shape != "" {
			key = lib.JS(sc)
		}
		r.Eval(key)
		if !sc.Judged {
			r.Event("not-judged")
			return
		}
		if err == nil {
			r.Event("loaded")
		} else {
			r.Event("refused")
		}
		r.Sample(fmt.Sprintf("loaded=%v", err == nil), map[string]any{"scenario": sc, "error": fmt.Sprint(err), "returned": len(certs)})
		wit := map[string]any{"scenario": sc, "error": fmt.Sprint(err), "returned_subjects": subjects(certs), "model_success": want}
		kind := "decision"
		if sc.Name == "." || sc.Name == ".." || !validName(sc.Name) {
			kind = "name"
		}
		if (err == nil) != want {
			r.Violation(map[string]string{"kind": kind, "model": fmt.Sprint(want), "library": fmt.Sprint(err == nil), "shape": sc.Shape},
				fmt.Sprintf("GetCertificates(%q, %q) success=%v, model says %v (err=%v)", sc.Type, sc.Name, err == nil, want, err), wit)
			return
		}
		if err != nil {
			if len(certs) != 0 {
				r.Violation(map[string]string{"kind": "partial-set-on-failure"}, fmt.Sprintf("GetCertificates failed but returned %d certificates", len(certs)), wit)
			}
			return
		}
		// the SAME trust store value is asked again: same-named stores of the other types hold only the decoy, and the
		// first answer must be repeatable (nothing may be remembered under the name alone)
		if sc.Twin {
			for _, ot := range []string{"ca", "signingAuthority", "tsa"} {
				if ot == sc.Type {
					continue
				}
				oc, oerr := ts.GetCertificates(context.Background(), truststore.Type(ot), sc.Name)
				r.Event("same-store-value-asked-again")
				if oerr != nil || len(oc) != 1 || !bytes.Equal(oc[0].Raw, decoy.Cert.Raw) {
					r.Violation(map[string]string{"kind": "returned-set", "shape": "same-name-other-type"}, fmt.Sprintf("after loading %s:%s the same trust store value answered %s:%s with %d certificates (err=%v); that store holds exactly the decoy", sc.Type, sc.Name, ot, sc.Name, len(oc), oerr), wit)
				}
			}
			again, aerr := ts.GetCertificates(context.Background(), truststore.Type(sc.Type), sc.Name)
			if aerr != nil || len(again) != len(certs) {
				r.Violation(map[string]string{"kind": "returned-set", "shape": "repeat"}, fmt.Sprintf("a repeated load returned %d certificates (err=%v), the first %d", len(again), aerr, len(certs)), wit)
			}
		}
		// the store's files are rewritten IN PLACE (same names, the directory itself is not touched - a rotated anchor):
		// the same trust store value, asked again, answers with what the files hold now
		if i%3 == 0 && sc.Shape == "dir" {
			storeDir := filepath.Join(x509dir, sc.Type, sc.Name)
			ents, _ := os.ReadDir(storeDir)
			if len(ents) > 0 && len(ents) < 20 {
				for _, e := range ents {
					if f, err := os.OpenFile(filepath.Join(storeDir, e.Name()), os.O_WRONLY|os.O_TRUNC, 0); err == nil {
						f.Write(lib.PEMCert(root2.Cert))
						f.Close()
					}
				}
				rot, rerr := ts.GetCertificates(context.Background(), truststore.Type(sc.Type), sc.Name)
				r.Event("stores-rewritten-in-place-and-asked-again")
				stale := rerr != nil || len(rot) != len(ents)
				for _, c := range rot {
					stale = stale || !bytes.Equal(c.Raw, root2.Cert.Raw)
				}
				if stale {
					r.Violation(map[string]string{"kind": "returned-set", "shape": "rewritten-in-place"}, fmt.Sprintf("every file of the store was rewritten in place with another CA certificate; the same trust store value then returned %d certificates (err=%v), %d files hold the new certificate and nothing else", len(rot), rerr, len(ents)), wit)
				}
			}
		}
		var got, w []string
		for _, c := range certs {
			got = append(got, string(c.Raw))
		}
		for _, c := range wantCerts {
			w = append(w, string(c))
		}
		sort.Strings(got)
		sort.Strings(w)
		if fmt.Sprint(got) != fmt.Sprint(w) {
			r.Violation(map[string]string{"kind": "returned-set"}, fmt.Sprintf("returned %d certificates, the store's files hold %d (multisets of DER differ)", len(got), len(w)), wit)
		}
	}, r.PanicViolation("truststore.GetCertificates"))
	concurrentLoads(r)
	manyEntries(r, root.Cert)
	r.RequireAtLeast("loaded", int64(n/5))
	r.RequireAtLeast("refused", int64(n/5))
	r.Finish()
}

func validName(s string) bool {
	if s == "" {
		return false
	}
	for _, c := range s {
		if c == '/' || c == '\\' {
			return false
		}
	}
	return true
}

// endingCtx is a context that is alive for the first few times somebody looks at it and cancelled from then on.
type endingCtx struct {
	context.Context
	left int32
	once sync.Once
	done chan struct{}
}

func (c *endingCtx) look() bool {
	if atomic.AddInt32(&c.left, -1) < 0 {
		c.once.Do(func() { close(c.done) })
		return true
	}
	return false
}
func (c *endingCtx) Err() error {
	if c.look() {
		return context.Canceled
	}
	return nil
}
func (c *endingCtx) Done() <-chan struct{} {
	c.look()
	return c.done
}

func subjects(cs []*x509.Certificate) []string {
	var out []string
	for _, c := range cs {
		out = append(out, c.Subject.String())
	}
	return out
}

// concurrentLoads: one trust store value, 12 named stores over the three types each holding its own certificate, loaded
// by 36 goroutines at once (a verifier is shared by concurrent verifications). Each load must return exactly the
// certificate of the store it named - never the content of a store another goroutine is loading.
// manyEntries: a store of 1 100 certificate files (a distribution's CA directory, one file per certificate): every one of
// them is returned; and with one garbage file among them the store fails as a whole.
func manyEntries(r *lib.Run, cert *x509.Certificate) {
	base := lib.TempDir("c13many")
	defer os.RemoveAll(base)
	for _, t := range []string{"ca", "tsa"} {
		d := filepath.Join(base, "truststore", "x509", t, "many")
		os.MkdirAll(d, 0o755)
		for k := 0; k < 1100; k++ {
			os.WriteFile(filepath.Join(d, fmt.Sprintf("cert-%04d.crt", k)), cert.Raw, 0o644)
		}
		ts := truststore.NewX509TrustStore(dir.NewSysFS(base))
		certs, err := ts.GetCertificates(context.Background(), truststore.Type(t), "many")
		r.Eval("many-entries|" + t)
		r.Event("stores-with-more-than-a-thousand-entries")
		if err != nil || len(certs) != 1100 {
			r.Violation(map[string]string{"kind": "returned-set", "shape": "many-entries"}, fmt.Sprintf("a %s store of 1100 certificate files: GetCertificates returned %d certificates (err=%v)", t, len(certs), err), nil)
		}
		for k := 0; k < 1100; k += 100 { // garbage scattered through the directory: wherever the listing puts them, one is enough
			os.WriteFile(filepath.Join(d, fmt.Sprintf("cert-%04d.crt", k+50)), []byte("garbage, not a certificate"), 0o644)
		}
		certs, err = ts.GetCertificates(context.Background(), truststore.Type(t), "many")
		r.Eval("many-entries-with-garbage|" + t)
		if err == nil {
			r.Violation(map[string]string{"kind": "decision", "model": "false", "library": "true", "shape": "many-entries-with-garbage"}, fmt.Sprintf("a %s store of 1100 files, 11 of them garbage: GetCertificates returned %d certificates and no error", t, len(certs)), nil)
		}
	}
}

func concurrentLoads(r *lib.Run) {
	base := lib.TempDir("c13conc")
	r.OnExit(func() { os.RemoveAll(base) })
	type st struct {
		t, name string
		der     []byte
	}
	var stores []st
	k := 0
	for _, t := range []string{"ca", "signingAuthority", "tsa"} {
		for _, nm := range []string{"a", "b", "store-with-a-much-longer-name", "d"} {
			e := lib.Mint(nil, lib.CertSpec{CN: fmt.Sprintf("c13-conc-%s-%s", t, nm), Kind: "ca", KeyIdx: k % 6})
			k++
			d := filepath.Join(base, "truststore", "x509", t, nm)
			os.MkdirAll(d, 0o755)
			os.WriteFile(filepath.Join(d, "root.crt"), e.Cert.Raw, 0o644)
			stores = append(stores, st{t, nm, e.Cert.Raw})
		}
	}
	ts := truststore.NewX509TrustStore(dir.NewSysFS(base))
	rounds := r.N(150, 3000)
	var wg sync.WaitGroup
	for g := 0; g < 36; g++ {
		wg.Add(1)
		go func(g int) {
			defer wg.Done()
			s := stores[g%len(stores)]
			for i := 0; i < rounds; i++ {
				certs, err := ts.GetCertificates(context.Background(), truststore.Type(s.t), s.name)
				r.Event("concurrent-loads")
				if err != nil || len(certs) != 1 || !bytes.Equal(certs[0].Raw, s.der) {
					r.Violation(map[string]string{"kind": "returned-set", "shape": "concurrent-loads"}, fmt.Sprintf("with 36 loads in flight GetCertificates(%s, %s) returned %v (err=%v); the store holds exactly its own certificate", s.t, s.name, subjects(certs), err), nil)
					return
				}
			}
		}(g)
	}
	wg.Wait()
	r.Eval("concurrent-loads")
}
