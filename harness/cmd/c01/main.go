// C01 — accepted signatures are intact and bound to the artifact being verified.
//
// Implication monitor on every SUCCESS of verifier.Verify / verifier.VerifyBlob /
// notation.Verify / notation.VerifyBlob under a non-skip level: the raw envelope
// must verify with the reference verifier, carry the Notary payload type, its
// signed target descriptor must equal the presented artifact, and every required
// metadata pair must be in the signed payload. Failures are never judged.
// Inputs: fresh envelopes, envelopes re-assembled from parts of other valid
// envelopes, byte-mutated envelopes; presented artifacts differing in exactly one
// field; metadata requirements always also combined with a descriptor mismatch;
// all 24 non-skip levels; a fully trusting set-up and the most permissive one.
package main

import (
	"bytes"
	"context"
	"encoding/base64"
	"encoding/json"
	"errors"
	"fmt"
	"io"
	"os"
	"path/filepath"
	"strings"
	"testing/iotest"
	"time"

	"github.com/notaryproject/notation-core-go/signature"
	"github.com/notaryproject/notation-go"
	"github.com/notaryproject/notation-go/verifharness/lib"
	"github.com/notaryproject/notation-go/verifier"
	"github.com/notaryproject/notation-go/verifier/trustpolicy"
	pf "github.com/notaryproject/notation-plugin-framework-go/plugin"
	"github.com/opencontainers/go-digest"
	ocispec "github.com/opencontainers/image-spec/specs-go/v1"
	gocose "github.com/veraison/go-cose"
)

type env struct {
	Label  string
	Format string
	Raw    []byte
}

// manyRepo lists several signatures (in order) for one artifact.
type manyRepo struct {
	desc ocispec.Descriptor
	sigs [][]byte
	mt   string
}

func (o manyRepo) Resolve(ctx context.Context, ref string) (ocispec.Descriptor, error) {
	return o.desc, nil
}
func (o manyRepo) ListSignatures(ctx context.Context, d ocispec.Descriptor, fn func([]ocispec.Descriptor) error) error {
	var ds []ocispec.Descriptor
	for _, s := range o.sigs {
		ds = append(ds, ocispec.Descriptor{MediaType: ocispec.MediaTypeImageManifest, Digest: digest.FromBytes(s), Size: 1})
	}
	return fn(ds)
}
func (o manyRepo) FetchSignatureBlob(ctx context.Context, d ocispec.Descriptor) ([]byte, ocispec.Descriptor, error) {
	for _, s := range o.sigs {
		if digest.FromBytes(s) == d.Digest {
			return s, ocispec.Descriptor{MediaType: o.mt, Digest: d.Digest, Size: int64(len(s))}, nil
		}
	}
	return nil, ocispec.Descriptor{}, errors.New("unknown")
}
func (o manyRepo) PushSignature(ctx context.Context, mt string, blob []byte, s ocispec.Descriptor, a map[string]string) (ocispec.Descriptor, ocispec.Descriptor, error) {
	return ocispec.Descriptor{}, ocispec.Descriptor{}, errors.New("no")
}

type oneRepo struct {
	desc ocispec.Descriptor
	sig  []byte
	mt   string
}

func (o oneRepo) Resolve(ctx context.Context, ref string) (ocispec.Descriptor, error) {
	return o.desc, nil
}
func (o oneRepo) ListSignatures(ctx context.Context, d ocispec.Descriptor, fn func([]ocispec.Descriptor) error) error {
	return fn([]ocispec.Descriptor{{MediaType: ocispec.MediaTypeImageManifest, Digest: digest.FromBytes(o.sig), Size: 1}})
}
func (o oneRepo) FetchSignatureBlob(ctx context.Context, d ocispec.Descriptor) ([]byte, ocispec.Descriptor, error) {
	return o.sig, ocispec.Descriptor{MediaType: o.mt, Digest: digest.FromBytes(o.sig), Size: int64(len(o.sig))}, nil
}
func (o oneRepo) PushSignature(ctx context.Context, mt string, blob []byte, s ocispec.Descriptor, a map[string]string) (ocispec.Descriptor, ocispec.Descriptor, error) {
	return ocispec.Descriptor{}, ocispec.Descriptor{}, errors.New("no")
}

// jwsParts / assemble: re-assembly operators for JWS JSON serialisation.
func jwsParts(raw []byte) map[string]json.RawMessage {
	var m map[string]json.RawMessage
	json.Unmarshal(raw, &m)
	return m
}

func mutate(rng *lib.Rand, raw []byte, k int) []byte {
	out := append([]byte(nil), raw...)
	for i := 0; i < k && len(out) > 0; i++ {
		pos := rng.Intn(len(out))
		switch rng.Intn(5) {
		case 0:
			out[pos] ^= 1 << uint(rng.Intn(8))
		case 1:
			out = append(out[:pos], out[pos+1:]...)
		case 2:
			out = append(out[:pos], append([]byte{byte(rng.Intn(256))}, out[pos:]...)...)
		case 3:
			out[pos] = byte(rng.Intn(256))
		default:
			if i == 0 && rng.Intn(4) == 0 {
				out = out[:pos]
			} else {
				out[pos] ^= 0x20
			}
		}
	}
	return out
}

func main() {
	r := lib.Start("C01", "exploration")
	r.Rule = "envelopes {fresh x JWS/COSE x both schemes x 2 signers x 2 artifacts x metadata variants; re-assembled from every choice of parts (protected header, payload, signature, unprotected header) of pairs of valid envelopes; byte-mutated with 1-3 edits; structure-aware variants} x presented artifact {signed one; differing in exactly one of digest / size / media type; blob content differing by one byte / one length; blob media type stated / unstated / different} x required metadata {none, subset, exact, one value changed, one extra key, empty value for a missing key} x 24 non-skip levels x {fully trusting, most permissive (audit, revocation skipped, untrusted signer)} x 4 entry points; distinct by the full tuple; non-trivial = anything but (fresh envelope, signed artifact, no required metadata)"
	r.Rule += "; plus histories on one verifier / one options value (a reused metadata requirement, signatures listed before the good one, a same-named skip statement of the other policy kind used first) and blobs presented through readers that are not at their beginning"
	r.Assumptions = []string{"the reference verifier is notation-core-go's ParseEnvelope+Verify on the raw bytes plus the harness's own decoding of the payload (never the outcome object returned by the code under test)",
		"only successes are judged (the property is 'success => ...'); the number of successes per stratum is a vacuity guard"}
	ctx := context.Background()
	good := lib.SimpleChain("c01-good", 1, "EC-256", 0)
	bad := lib.SimpleChain("c01-bad", 0, "EC-256", 1)
	goodRSA := lib.SimpleChain("c01-rsa", 0, "RSA-2048", 0)
	blobA := []byte("c01 blob content A, long enough to mutate")
	blobB := []byte("c01 blob content B, long enough to mutate")
	metaSigned := map[string]string{"buildId": "101", "team": "x"}
	type art struct {
		Name string
		Desc ocispec.Descriptor
		Blob []byte
	}
	mkArt := func(name string, blob []byte, mt string, sha512 bool) art {
		d := ocispec.Descriptor{MediaType: mt, Digest: digest.FromBytes(blob), Size: int64(len(blob))}
		if sha512 {
			d.Digest = digest.SHA512.FromBytes(blob)
		}
		return art{name, d, blob}
	}
	artA := mkArt("A", blobA, ocispec.MediaTypeImageManifest, false)
	artB := mkArt("B", blobB, ocispec.MediaTypeImageManifest, false)
	arts := map[string]art{"A": artA, "B": artB}

	// ---- envelope pool
	var pool []env
	fresh := map[string][]byte{}
	for _, f := range lib.Formats {
		for _, scheme := range []string{"notary.x509", "notary.x509.signingAuthority"} {
			for _, sg := range []struct {
				n string
				e *lib.Ent
			}{{"good", good}, {"bad", bad}, {"rsa", goodRSA}} {
				for _, a := range []art{artA, artB} {
					for _, withMeta := range []bool{false, true} {
						d := a.Desc
						if withMeta {
							d.Annotations = metaSigned
						}
						raw := lib.MustCoreSign(lib.SignSpec{Format: f, Scheme: signature.SigningScheme(scheme), Payload: lib.Payload(d), Signer: sg.e})
						label := fmt.Sprintf("fresh|%s|%s|%s|%s|meta=%v", f, scheme, sg.n, a.Name, withMeta)
						pool = append(pool, env{label, f, raw})
						fresh[label] = raw
					}
				}
			}
			// foreign payload type and non-JSON payload, validly signed
			pool = append(pool, env{"fresh-foreign-payload-type|" + f + "|" + scheme, f, lib.MustCoreSign(lib.SignSpec{Format: f, Scheme: signature.SigningScheme(scheme), Payload: lib.Payload(artA.Desc), ContentType: "application/json", Signer: good})})
			for ti, ct := range []string{lib.PayloadType + "; charset=utf-8", strings.Replace(lib.PayloadType, "+json", "+JSON", 1), "Application/Vnd.CNCF.Notary.Payload.V1+json", lib.PayloadType + ";version=2", "application/vnd.in-toto+json", lib.PayloadType + " "} {
				if raw, err := lib.CoreSign(lib.SignSpec{Format: f, Scheme: signature.SigningScheme(scheme), Payload: lib.Payload(artA.Desc), ContentType: ct, Signer: good}); err == nil { // (COSE cannot carry every spelling)
					pool = append(pool, env{fmt.Sprintf("fresh-near-miss-payload-type-%d|%s|%s", ti, f, scheme), f, raw})
				}
			}
			// the payload is the Notary document for the artifact FOLLOWED by more (a second document for another artifact,
			// or bytes): validly signed, and not a Notary payload
			for ti, tail := range []string{string(lib.Payload(artB.Desc)), " trailing bytes", "{}"} {
				pl := append(append([]byte{}, lib.Payload(artA.Desc)...), tail...)
				var raw []byte
				func() {
					defer func() { recover() }()
					if f == lib.MediaJWS {
						raw = lib.HandSign(lib.HandSpec{Format: f, Scheme: scheme, Payload: pl, Signer: good, SigningTime: time.Now().Add(-time.Hour)})
					} else {
						raw = lib.MustCoreSign(lib.SignSpec{Format: f, Scheme: signature.SigningScheme(scheme), Payload: pl, Signer: good})
					}
				}()
				if raw != nil {
					if _, err := lib.RefVerify(f, raw); err == nil {
						pool = append(pool, env{fmt.Sprintf("fresh-payload-with-trailing-data-%d|%s|%s", ti, f, scheme), f, raw})
					}
				}
			}
			// a verification plugin is named (and will approve everything): what is signed is still not a Notary payload
			pool = append(pool, env{"fresh-foreign-payload-type-plugin-demanding|" + f + "|" + scheme, f, lib.MustCoreSign(lib.SignSpec{Format: f, Scheme: signature.SigningScheme(scheme), Payload: lib.Payload(artA.Desc), ContentType: "application/json", Signer: good,
				Ext: []signature.Attribute{{Key: lib.HdrPlugin, Critical: true, Value: "plug"}}})})
			// the signed descriptor has the artifact's digest and size and NO media type member (blob callers may state one)
			for _, a := range []art{artA, artB} {
				pl, _ := json.Marshal(map[string]any{"targetArtifact": map[string]any{"digest": a.Desc.Digest, "size": a.Desc.Size}})
				pool = append(pool, env{"fresh-no-media-type-member|" + f + "|" + scheme + "|" + a.Name, f, lib.MustCoreSign(lib.SignSpec{Format: f, Scheme: signature.SigningScheme(scheme), Payload: pl, Signer: good})})
			}
			pool = append(pool, env{"fresh-payload-without-target|" + f + "|" + scheme, f, lib.MustCoreSign(lib.SignSpec{Format: f, Scheme: signature.SigningScheme(scheme), Payload: []byte(`{}`), Signer: good})})
		}
	}
	// a key bound to SHA-384: the blob digest must be recomputed with the hash of the SIGNATURE algorithm, not with the
	// algorithm named in the payload's digest; and envelopes that demand a verification plugin (which then approves everything)
	good384 := lib.SimpleChain("c01-384", 0, "EC-384", 0)
	for _, f := range lib.Formats {
		for _, a := range []art{artA, artB} {
			right := ocispec.Descriptor{MediaType: a.Desc.MediaType, Digest: digest.SHA384.FromBytes(a.Blob), Size: a.Desc.Size}
			wrongAlg := ocispec.Descriptor{MediaType: a.Desc.MediaType, Digest: digest.SHA256.FromBytes(a.Blob), Size: a.Desc.Size}
			pool = append(pool, env{"fresh-sha384|" + f + "|" + a.Name, f, lib.MustCoreSign(lib.SignSpec{Format: f, Payload: lib.Payload(right), Signer: good384})})
			pool = append(pool, env{"fresh-digest-algorithm-of-payload-differs-from-signature-hash|" + f + "|" + a.Name, f, lib.MustCoreSign(lib.SignSpec{Format: f, Payload: lib.Payload(wrongAlg), Signer: good384})})
			for _, withMeta := range []bool{false, true} {
				d := a.Desc
				if withMeta {
					d.Annotations = metaSigned
				}
				pool = append(pool, env{fmt.Sprintf("fresh-plugin-demanding|%s|%s|meta=%v", f, a.Name, withMeta), f, lib.MustCoreSign(lib.SignSpec{Format: f, Payload: lib.Payload(d), Signer: good,
					Ext: []signature.Attribute{{Key: lib.HdrPlugin, Critical: true, Value: "plug"}, {Key: "com.example.crit", Critical: true, Value: "x"}}})})
			}
		}
	}
	// signatures over the EMPTY blob (a reader-based descriptor generator that is asked twice yields exactly this descriptor)
	for _, f := range lib.Formats {
		for _, sg := range []struct {
			n string
			e *lib.Ent
		}{{"good", good}, {"good384", good384}, {"rsa", goodRSA}} {
			for _, alg := range []digest.Algorithm{digest.SHA256, digest.SHA384, digest.SHA512} {
				for _, mt := range []string{artA.Desc.MediaType, ""} {
					d := ocispec.Descriptor{MediaType: mt, Digest: alg.FromBytes(nil), Size: 0}
					pool = append(pool, env{fmt.Sprintf("fresh-empty-blob|%s|%s|%s|mt=%q", f, sg.n, alg, mt), f, lib.MustCoreSign(lib.SignSpec{Format: f, Payload: lib.Payload(d), Signer: sg.e})})
				}
			}
		}
	}
	// ... and signatures that name the digest of the empty blob together with ANOTHER size
	for _, f := range lib.Formats {
		for _, alg := range []digest.Algorithm{digest.SHA256, digest.SHA384} {
			sg := good
			if alg == digest.SHA384 {
				sg = good384
			}
			d := ocispec.Descriptor{MediaType: artA.Desc.MediaType, Digest: alg.FromBytes(nil), Size: 7}
			pool = append(pool, env{fmt.Sprintf("fresh-empty-blob-digest-with-size-7|%s|%s", f, alg), f, lib.MustCoreSign(lib.SignSpec{Format: f, Payload: lib.Payload(d), Signer: sg})})
		}
	}
	nFresh := len(pool)
	// re-assembly
	rngR := r.Rand("reassemble")
	pairs := r.N(40, 1500)
	for p := 0; p < pairs; p++ {
		e1, e2 := pool[rngR.Intn(nFresh)], pool[rngR.Intn(nFresh)]
		if e1.Format != e2.Format || bytes.Equal(e1.Raw, e2.Raw) {
			continue
		}
		for mask := 1; mask < 15; mask++ {
			var raw []byte
			if e1.Format == lib.MediaJWS {
				p1, p2 := jwsParts(e1.Raw), jwsParts(e2.Raw)
				m := map[string]json.RawMessage{}
				for i, part := range []string{"protected", "payload", "signature", "header"} {
					if mask&(1<<i) != 0 {
						m[part] = p2[part]
					} else {
						m[part] = p1[part]
					}
				}
				raw, _ = json.Marshal(m)
			} else {
				var m1, m2 gocose.Sign1Message
				if m1.UnmarshalCBOR(e1.Raw) != nil || m2.UnmarshalCBOR(e2.Raw) != nil {
					continue
				}
				out := gocose.Sign1Message{Headers: gocose.Headers{RawProtected: m1.Headers.RawProtected, Protected: m1.Headers.Protected, RawUnprotected: m1.Headers.RawUnprotected, Unprotected: m1.Headers.Unprotected}, Payload: m1.Payload, Signature: m1.Signature}
				if mask&1 != 0 {
					out.Headers.RawProtected, out.Headers.Protected = m2.Headers.RawProtected, m2.Headers.Protected
				}
				if mask&2 != 0 {
					out.Payload = m2.Payload
				}
				if mask&4 != 0 {
					out.Signature = m2.Signature
				}
				if mask&8 != 0 {
					out.Headers.RawUnprotected, out.Headers.Unprotected = m2.Headers.RawUnprotected, m2.Headers.Unprotected
				}
				var err error
				if raw, err = out.MarshalCBOR(); err != nil {
					continue
				}
			}
			pool = append(pool, env{fmt.Sprintf("reassembled|mask=%d|[%s]+[%s]", mask, e1.Label, e2.Label), e1.Format, raw})
		}
	}
	nReassembled := len(pool) - nFresh
	// byte mutation + structure-aware
	rngM := r.Rand("mutate")
	for p := 0; p < r.N(1500, 150000); p++ {
		e := pool[rngM.Intn(nFresh)]
		k := 1 + rngM.Intn(3)
		pool = append(pool, env{fmt.Sprintf("mutated|k=%d|[%s]", k, e.Label), e.Format, mutate(rngM, e.Raw, k)})
	}
	for i := 0; i < nFresh; i++ {
		e := pool[i]
		if e.Format != lib.MediaJWS {
			continue
		}
		parts := jwsParts(e.Raw)
		ws, _ := json.MarshalIndent(parts, " ", "\t")
		pool = append(pool, env{"structure|whitespace|[" + e.Label + "]", e.Format, ws})
		// payload replaced by the payload of the other artifact re-encoded with padding
		var pl string
		json.Unmarshal(parts["payload"], &pl)
		if dec, err := base64.RawURLEncoding.DecodeString(pl); err == nil {
			padded, _ := json.Marshal(base64.URLEncoding.EncodeToString(dec))
			m := map[string]json.RawMessage{"protected": parts["protected"], "payload": padded, "signature": parts["signature"], "header": parts["header"]}
			raw, _ := json.Marshal(m)
			pool = append(pool, env{"structure|padded-payload|[" + e.Label + "]", e.Format, raw})
		}
	}
	r.Extra["envelope_pool"] = map[string]int{"fresh": nFresh, "reassembled": nReassembled, "total": len(pool)}

	// ---- verification cases
	type caseT struct {
		E        int
		API      string // verifier.Verify | notation.Verify | verifier.VerifyBlob | notation.VerifyBlob
		Present  string // which artifact is presented and how it differs
		MetaReq  string
		Level    int
		Trusting bool
	}
	levels := lib.AllLevelMaps()
	presentsOCI := []string{"A", "B", "A-digest", "A-size", "A-mediaType", "A-mediaType-empty", "A-annotations", "A-mediaType-docker-counterpart"}
	presentsBlob := []string{"A-empty", "A", "B", "A-byte", "A-length", "A-mt-unstated", "A-mt-different", "A-mt-different-B", "A-mt-parameterised", "A-mt-octet-stream"}
	metaReqs := []string{"value-with-trailing-blank", "key-with-leading-blank", "none", "subset", "exact", "value-changed", "extra-key", "empty-value-missing-key", "reserved-prefixed-missing", "reserved-prefixed-next-to-satisfied", "none", "none"}
	var cases []caseT
	rngC := r.Rand("cases")
	nCases := r.N(60000, 3000000)
	for len(cases) < nCases {
		var e int
		switch rngC.Intn(10) {
		case 0, 1, 2, 3:
			e = rngC.Intn(nFresh)
		case 4, 5, 6:
			e = nFresh + rngC.Intn(nReassembled+1)
			if e >= len(pool) {
				e = rngC.Intn(nFresh)
			}
		default:
			e = nFresh + nReassembled + rngC.Intn(len(pool)-nFresh-nReassembled)
		}
		api := []string{"verifier.Verify", "notation.Verify", "verifier.VerifyBlob", "notation.VerifyBlob"}[rngC.Intn(4)]
		pr := presentsOCI[rngC.Intn(len(presentsOCI))]
		if api == "verifier.VerifyBlob" || api == "notation.VerifyBlob" {
			pr = presentsBlob[rngC.Intn(len(presentsBlob))]
		}
		cases = append(cases, caseT{E: e, API: api, Present: pr, MetaReq: metaReqs[rngC.Intn(len(metaReqs))], Level: rngC.Intn(len(levels)), Trusting: rngC.Intn(3) != 0})
	}

	lib.Parallel(len(cases), 16, func(ci int) {
		c := cases[ci]
		e := pool[c.E]
		L := levels[c.Level]
		if !c.Trusting {
			L = lib.LevelMap{Auth: "log", TS: "log", Exp: "log", Rev: "skip"} // the most permissive non-skip level
		}
		ts := lib.NewMemTS().Put("ca:x", good.Root().Cert, goodRSA.Root().Cert, good384.Root().Cert).Put("signingAuthority:x", good.Root().Cert, goodRSA.Root().Cert)
		// a verification plugin that approves whatever it is asked and processes every attribute
		pm := lib.ScriptedManager{P: &lib.ScriptedPlugin{Caps: []pf.Capability{pf.CapabilityTrustedIdentityVerifier, pf.CapabilityRevocationCheckVerifier}}}
		stores := []string{"ca:x", "signingAuthority:x"}
		ociDoc, blobDoc := lib.OCIPolicy(L.SV(ci), stores, []string{"*"}), lib.BlobPolicy(L.SV(ci), stores, []string{"*"})
		// every fourth case: the document of the OTHER kind holds a statement of the same name whose level is skip, and that
		// statement is used first on this verifier (statement names are unique per document, not across the two)
		otherKindSkippedFirst := ci%4 == 2
		isBlobAPI := c.API == "verifier.VerifyBlob" || c.API == "notation.VerifyBlob"
		skipSV := trustpolicy.SignatureVerification{VerificationLevel: "skip"}
		if otherKindSkippedFirst && isBlobAPI {
			ociDoc = lib.OCIPolicy(skipSV, nil, nil)
		} else if otherKindSkippedFirst {
			blobDoc = &trustpolicy.BlobDocument{Version: "1.0", TrustPolicies: []trustpolicy.BlobTrustPolicy{{Name: "p", SignatureVerification: skipSV}}}
		}
		v, err := verifier.NewVerifierWithOptions(ts, verifier.VerifierOptions{OCITrustPolicy: ociDoc, BlobTrustPolicy: blobDoc,
			RevocationCodeSigningValidator: lib.OKRev{}, RevocationTimestampingValidator: lib.OKRev{}, PluginManager: pm})
		if err != nil {
			panic(err)
		}
		if otherKindSkippedFirst {
			r.Event("cases-after-a-skip-statement-of-the-other-kind-was-used")
			lib.Guard(func() {
				if isBlobAPI {
					v.SkipVerify(ctx, notation.VerifierVerifyOptions{ArtifactReference: "r.io/a@" + artA.Desc.Digest.String()})
					v.Verify(ctx, artA.Desc, e.Raw, notation.VerifierVerifyOptions{ArtifactReference: "r.io/a@" + artA.Desc.Digest.String(), SignatureMediaType: e.Format})
				} else {
					v.VerifyBlob(ctx, func(alg digest.Algorithm) (ocispec.Descriptor, error) {
						return ocispec.Descriptor{Digest: alg.FromBytes(blobA), Size: int64(len(blobA))}, nil
					}, e.Raw, notation.BlobVerifierVerifyOptions{SignatureMediaType: e.Format, TrustPolicyName: "p"})
				}
			})
		}
		var req map[string]string
		switch c.MetaReq {
		case "subset":
			req = map[string]string{"buildId": "101"}
		case "exact":
			req = map[string]string{"buildId": "101", "team": "x"}
		case "value-changed":
			req = map[string]string{"buildId": "102"}
		case "value-with-trailing-blank": // a required pair is required as written: "101 " is not "101"
			req = map[string]string{"buildId": "101 ", "team": "x"}
		case "key-with-leading-blank":
			req = map[string]string{" buildId": "101", "team\n": "x"}
		case "extra-key":
			req = map[string]string{"buildId": "101", "approved": "yes"}
		case "empty-value-missing-key":
			req = map[string]string{"approved": ""}
		case "reserved-prefixed-missing": // a required pair is a required pair, whatever its key looks like
			req = map[string]string{"io.cncf.notary.releasedBy": "ci"}
		case "reserved-prefixed-next-to-satisfied":
			req = map[string]string{"buildId": "101", "io.cncf.notary.x": "y"}
		}
		// ---- presentation
		a := arts[c.Present[:1]]
		presented := a.Desc
		blob := a.Blob
		statedMT := "application/octet-stream"
		blobMTStated := true
		switch c.Present {
		case "A-digest":
			presented.Digest = artB.Desc.Digest
		case "A-size":
			presented.Size++
		case "A-mediaType":
			presented.MediaType = ocispec.MediaTypeImageIndex
		case "A-mediaType-docker-counterpart":
			// the Docker schema 2 type that registries convert to and from the OCI manifest type: another media type string
			presented.MediaType = "application/vnd.docker.distribution.manifest.v2+json"
		case "A-mediaType-empty":
			presented.MediaType = "" // e.g. a descriptor a caller builds from digest and size only: the media type still has to match
		case "A-annotations":
			presented.Annotations = map[string]string{"other": "annotation"}
		case "A-byte":
			blob = append([]byte(nil), blob...)
			blob[len(blob)/2] ^= 1
		case "A-length":
			blob = blob[:len(blob)-1]
		case "A-empty":
			blob = []byte{} // the empty blob is a blob: its digest AND its size (0) are what a signature has to name
		case "A-mt-unstated":
			blobMTStated = false
		case "A-mt-different", "A-mt-different-B":
			statedMT = "text/plain"
		case "A-mt-octet-stream":
			statedMT = "application/octet-stream" // the generic type, stated explicitly: a stated type like any other
		case "A-mt-parameterised":
			statedMT = blobMT(c.Present, a)
		}
		_ = statedMT
		var outcome *notation.VerificationOutcome
		var verr error
		pv, stack := lib.Guard(func() {
			switch c.API {
			case "verifier.Verify":
				outcome, verr = v.Verify(ctx, presented, e.Raw, notation.VerifierVerifyOptions{ArtifactReference: "r.io/a@" + presented.Digest.String(), SignatureMediaType: e.Format, UserMetadata: req})
			case "notation.Verify":
				var outs []*notation.VerificationOutcome
				_, outs, verr = notation.Verify(ctx, v, oneRepo{presented, e.Raw, e.Format}, notation.VerifyOptions{ArtifactReference: "r.io/a@" + presented.Digest.String(), MaxSignatureAttempts: 3, UserMetadata: req})
				if verr == nil && len(outs) == 1 {
					outcome = outs[0]
				} else if verr == nil {
					verr = fmt.Errorf("no single outcome")
				}
			case "verifier.VerifyBlob":
				outcome, verr = v.VerifyBlob(ctx, func(alg digest.Algorithm) (ocispec.Descriptor, error) {
					d := ocispec.Descriptor{Digest: alg.FromBytes(blob), Size: int64(len(blob))}
					if blobMTStated {
						d.MediaType = blobMT(c.Present, a)
					}
					return d, nil
				}, e.Raw, notation.BlobVerifierVerifyOptions{SignatureMediaType: e.Format, UserMetadata: req})
			case "notation.VerifyBlob":
				mt := ""
				if blobMTStated {
					mt = blobMT(c.Present, a)
				}
				// the options are filled the ways callers fill them (nested literal, or field by field through the promoted
				// selectors), and the blob is presented through readers with different end-of-stream habits
				vbo := notation.VerifyBlobOptions{BlobVerifierVerifyOptions: notation.BlobVerifierVerifyOptions{SignatureMediaType: e.Format, UserMetadata: req}, ContentMediaType: mt}
				if ci%2 == 1 {
					vbo = notation.VerifyBlobOptions{}
					vbo.SignatureMediaType = e.Format
					vbo.UserMetadata = req
					vbo.ContentMediaType = mt
				}
				var rd io.Reader = bytes.NewReader(blob)
				switch ci % 3 {
				case 1:
					rd = iotest.DataErrReader(bytes.NewReader(blob)) // the last bytes arrive TOGETHER with io.EOF
				case 2:
					rd = iotest.OneByteReader(bytes.NewReader(blob))
				}
				_, outcome, verr = notation.VerifyBlob(ctx, v, rd, e.Raw, vbo)
			}
		})
		id := fmt.Sprintf("%s|%s|present=%s|meta=%s|%s|trusting=%v", e.Label, c.API, c.Present, c.MetaReq, L, c.Trusting)
		key := id
		if c.E < nFresh && c.Present == "A" && c.MetaReq == "none" {
			key = ""
		}
		r.Eval(key)
		if pv != nil {
			r.Violation(map[string]string{"kind": "panic", "api": c.API}, fmt.Sprintf("%s panicked: %v", id, pv), map[string]any{"case": id, "stack": string(stack), "envelope_base64": base64.StdEncoding.EncodeToString(e.Raw)})
			return
		}
		if verr != nil {
			r.Event("rejected")
			return
		}
		r.Event("accepted")
		r.Event("accepted:" + c.API + ":" + e.Format)
		r.Sample("accepted "+c.API, id)
		wit := map[string]any{"case": id, "envelope_base64": base64.StdEncoding.EncodeToString(e.Raw), "required_metadata": req}
		sig := func(kind string) map[string]string {
			return map[string]string{"kind": kind, "api": c.API, "present": c.Present, "meta": c.MetaReq}
		}
		// (a) reference verification of the raw bytes
		ref, rerr := lib.RefVerify(e.Format, e.Raw)
		if rerr != nil {
			r.Violation(sig("accepted-invalid-envelope"), fmt.Sprintf("%s: accepted, but the reference verifier rejects the raw envelope: %v", id, rerr), wit)
			return
		}
		// (b) payload type
		if ref.Payload.ContentType != lib.PayloadType {
			r.Violation(sig("accepted-foreign-payload-type"), fmt.Sprintf("%s: accepted with payload type %q", id, ref.Payload.ContentType), wit)
		}
		if outcome != nil && outcome.EnvelopeContent != nil && !bytes.Equal(outcome.EnvelopeContent.Payload.Content, ref.Payload.Content) {
			r.Violation(sig("outcome-payload-differs"), id+": the outcome's payload differs from the reference-decoded payload", wit)
		}
		// (c) binding
		var payload struct {
			TargetArtifact *ocispec.Descriptor `json:"targetArtifact"`
		}
		json.Unmarshal(ref.Payload.Content, &payload)
		if payload.TargetArtifact == nil {
			r.Violation(sig("accepted-without-target"), id+": accepted although the payload has no target artifact", wit)
			return
		}
		signed := *payload.TargetArtifact
		if c.API == "verifier.Verify" || c.API == "notation.Verify" {
			if signed.Digest != presented.Digest || signed.Size != presented.Size || signed.MediaType != presented.MediaType {
				r.Violation(sig("accepted-other-artifact"), fmt.Sprintf("%s: accepted, signed target {%s %s %d} != presented {%s %s %d}", id, signed.MediaType, signed.Digest, signed.Size, presented.MediaType, presented.Digest, presented.Size), wit)
			}
		} else {
			alg, ok := map[string]digest.Algorithm{"SHA-256": digest.SHA256, "SHA-384": digest.SHA384, "SHA-512": digest.SHA512}[ref.SignerInfo.SignatureAlgorithm.Hash().String()]
			if !ok {
				r.Violation(sig("accepted-unknown-hash"), id+": accepted with an unknown hash", wit)
				return
			}
			if signed.Digest != alg.FromBytes(blob) || signed.Size != int64(len(blob)) {
				r.Violation(sig("accepted-other-artifact"), fmt.Sprintf("%s: accepted, signed target {%s %d} is not the presented blob {%s %d}", id, signed.Digest, signed.Size, alg.FromBytes(blob), len(blob)), wit)
			}
			if blobMTStated && signed.MediaType != blobMT(c.Present, a) {
				r.Violation(sig("accepted-other-media-type"), fmt.Sprintf("%s: accepted, signed media type %q != stated %q", id, signed.MediaType, blobMT(c.Present, a)), wit)
			}
		}
		// (d) required metadata
		for k, want := range req {
			if got, ok := signed.Annotations[k]; !ok || got != want {
				r.Violation(sig("accepted-without-required-metadata"), fmt.Sprintf("%s: accepted although required metadata %s=%q is not in the signed payload (%v)", id, k, want, signed.Annotations), wit)
			}
		}
	}, r.PanicViolation("harness"))
	// ---- histories on ONE verifier / ONE options value, and readers that are not at their beginning
	{
		ts := lib.NewMemTS().Put("ca:x", good.Root().Cert)
		sv := trustpolicy.SignatureVerification{VerificationLevel: "strict", Override: map[trustpolicy.ValidationType]trustpolicy.ValidationAction{trustpolicy.TypeRevocation: trustpolicy.ActionSkip}}
		v, err := verifier.NewVerifierWithOptions(ts, verifier.VerifierOptions{OCITrustPolicy: lib.OCIPolicy(sv, []string{"ca:x"}, []string{"*"}), BlobTrustPolicy: lib.BlobPolicy(sv, []string{"ca:x"}, []string{"*"}),
			RevocationCodeSigningValidator: lib.OKRev{}, RevocationTimestampingValidator: lib.OKRev{}})
		if err != nil {
			panic(err)
		}
		header := []byte("ARCHIVE-HEADER-v1\n")
		whole := append(append([]byte{}, header...), blobA...)
		for _, f := range lib.Formats {
			withMeta := fresh[fmt.Sprintf("fresh|%s|notary.x509|good|A|meta=true", f)]
			noMeta := fresh[fmt.Sprintf("fresh|%s|notary.x509|good|A|meta=false", f)]
			otherWithMeta := fresh[fmt.Sprintf("fresh|%s|notary.x509|good|B|meta=true", f)]
			if withMeta == nil || noMeta == nil || otherWithMeta == nil {
				panic("harness bug: fresh envelope labels")
			}
			// (1) the caller's requirement is the caller's: satisfied once, it is still required of the next signature
			req := map[string]string{"buildId": "101", "team": "x"}
			opts := notation.VerifierVerifyOptions{ArtifactReference: "r.io/a@" + artA.Desc.Digest.String(), SignatureMediaType: f, UserMetadata: req}
			_, err1 := v.Verify(ctx, artA.Desc, withMeta, opts)
			_, err2 := v.Verify(ctx, artA.Desc, noMeta, opts)
			r.Eval("history|required-metadata-reused|" + f)
			r.Event("histories-with-a-reused-metadata-requirement")
			if err1 != nil {
				r.Violation(map[string]string{"kind": "control-rejected", "api": "verifier.Verify"}, fmt.Sprintf("a good signature carrying the required metadata was rejected: %v", err1), nil)
			}
			if err2 == nil {
				r.Violation(map[string]string{"kind": "accepted-without-required-metadata", "api": "verifier.Verify", "present": "A", "meta": "reused-after-a-satisfying-signature"},
					fmt.Sprintf("%s: with ONE options value, a signature carrying the required pairs was verified first; then a signature WITHOUT them was accepted (requirement now: %v)", f, req), nil)
			}
			if len(req) != 2 {
				r.Violation(map[string]string{"kind": "caller-requirement-changed", "api": "verifier.Verify"}, fmt.Sprintf("the caller's required-metadata map was changed by verification: %v", req), nil)
			}
			// ... the same inside one notation.Verify: an earlier listed signature (of another artifact) carries the pairs, the later one does not
			req2 := map[string]string{"buildId": "101"}
			_, _, err3 := notation.Verify(ctx, v, manyRepo{artA.Desc, [][]byte{otherWithMeta, noMeta}, f}, notation.VerifyOptions{ArtifactReference: "r.io/a@" + artA.Desc.Digest.String(), MaxSignatureAttempts: 5, UserMetadata: req2})
			r.Eval("history|required-metadata-across-listed-signatures|" + f)
			if err3 == nil {
				r.Violation(map[string]string{"kind": "accepted-without-required-metadata", "api": "notation.Verify", "present": "A", "meta": "satisfied-by-an-earlier-listed-signature"},
					f+": notation.Verify succeeded although the only signature of the artifact lacks the required metadata (an earlier listed signature, made for another artifact, carries it)", nil)
			}
			// (2) what is verified is what the reader delivers from where it stands: a caller that has consumed a header presents the rest
			sigWhole := lib.MustCoreSign(lib.SignSpec{Format: f, Payload: lib.Payload(ocispec.Descriptor{MediaType: "application/octet-stream", Digest: digest.FromBytes(whole), Size: int64(len(whole))}), Signer: good})
			sigRest := lib.MustCoreSign(lib.SignSpec{Format: f, Payload: lib.Payload(ocispec.Descriptor{MediaType: "application/octet-stream", Digest: digest.FromBytes(blobA), Size: int64(len(blobA))}), Signer: good})
			tmp := filepath.Join(lib.TempDir("c01f"), "archive.bin")
			os.WriteFile(tmp, whole, 0o644)
			for _, kind := range []string{"bytes.Reader", "os.File", "strings.Reader"} {
				mk := func() io.Reader {
					switch kind {
					case "os.File":
						fh, err := os.Open(tmp)
						if err != nil {
							panic(err)
						}
						fh.Seek(int64(len(header)), io.SeekStart)
						return fh
					case "strings.Reader":
						rd := strings.NewReader(string(whole))
						rd.Seek(int64(len(header)), io.SeekStart)
						return rd
					}
					rd := bytes.NewReader(whole)
					rd.Seek(int64(len(header)), io.SeekStart)
					return rd
				}
				vbo := notation.VerifyBlobOptions{BlobVerifierVerifyOptions: notation.BlobVerifierVerifyOptions{SignatureMediaType: f}}
				rd1, rd2 := mk(), mk()
				_, _, errWhole := notation.VerifyBlob(ctx, v, rd1, sigWhole, vbo)
				dRest, _, errRest := notation.VerifyBlob(ctx, v, rd2, sigRest, vbo)
				for _, x := range []io.Reader{rd1, rd2} {
					if c, ok := x.(io.Closer); ok {
						c.Close()
					}
				}
				r.Eval("reader-not-at-its-beginning|" + kind + "|" + f)
				r.Event("blobs-presented-through-a-reader-that-is-not-at-its-beginning")
				if errWhole == nil {
					r.Violation(map[string]string{"kind": "accepted-other-artifact", "api": "notation.VerifyBlob", "present": "rest-of-a-" + kind, "meta": "none"},
						fmt.Sprintf("%s: the caller presented the %d bytes after a consumed header (%s positioned at offset %d); a signature over the WHOLE %d bytes was accepted", f, len(blobA), kind, len(header), len(whole)), nil)
				}
				if errRest != nil || dRest.Digest != digest.FromBytes(blobA) {
					r.Event("completeness:signature-over-the-presented-rest-rejected")
				}
			}
			os.RemoveAll(filepath.Dir(tmp))
		}
	}
	guarded(r, "very large blob", func() { veryLargeBlob(r) })
	for _, api := range []string{"verifier.Verify", "notation.Verify", "verifier.VerifyBlob", "notation.VerifyBlob"} {
		for _, f := range lib.Formats {
			r.RequireAtLeast("accepted:"+api+":"+f, 10)
		}
	}
	r.RequireAtLeast("rejected", 1000)
	r.Finish()
}

// blobMT: the media type the caller states for the blob.
func blobMT(present string, a struct {
	Name string
	Desc ocispec.Descriptor
	Blob []byte
}) string {
	if present == "A-mt-different" || present == "A-mt-different-B" {
		return "text/plain"
	}
	if present == "A-mt-octet-stream" {
		return "application/octet-stream"
	}
	if present == "A-mt-parameterised" {
		return a.Desc.MediaType + "; charset=utf-8" // the same type WITH a parameter is another media type string
	}
	return a.Desc.MediaType
}

// patReader streams n bytes of a fixed pattern followed by tail.
type patReader struct {
	n, off int64
	tail   []byte
}

func (p *patReader) Read(b []byte) (int, error) {
	if p.off >= p.n+int64(len(p.tail)) {
		return 0, io.EOF
	}
	k := 0
	for k < len(b) && p.off < p.n {
		b[k] = byte(p.off>>12) ^ byte(p.off)
		k++
		p.off++
	}
	for k < len(b) && p.off < p.n+int64(len(p.tail)) {
		b[k] = p.tail[p.off-p.n]
		k++
		p.off++
	}
	return k, nil
}

// veryLargeBlob: a blob of 2 GiB (thorough: also 4 GiB) whose signature is genuine, presented (a) as it is - accepted,
// with its own descriptor - and (b) with content appended after its last byte - another artifact, refused. Sizes at
// which a 31- or 32-bit count, or a "sanity" limit on how much is read, would cut the stream short without saying so.
func veryLargeBlob(r *lib.Run) {
	ctx := context.Background()
	good := lib.SimpleChain("c01-large", 0, "EC-256", 0)
	v, err := verifier.NewVerifierWithOptions(lib.NewMemTS().Put("ca:x", good.Root().Cert), verifier.VerifierOptions{
		BlobTrustPolicy: lib.BlobPolicy(trustpolicy.SignatureVerification{VerificationLevel: "strict"}, []string{"ca:x"}, []string{"*"}), RevocationCodeSigningValidator: lib.OKRev{}, RevocationTimestampingValidator: lib.OKRev{}})
	if err != nil {
		panic(err)
	}
	sizes := []int64{1 << 31}
	if r.Thorough() {
		sizes = append(sizes, 1<<32)
	}
	for si, n := range sizes {
		dg := digest.SHA256.Digester()
		if _, err := io.Copy(dg.Hash(), &patReader{n: n}); err != nil {
			panic(err)
		}
		desc := ocispec.Descriptor{MediaType: "application/octet-stream", Digest: dg.Digest(), Size: n}
		f := lib.Formats[si%2]
		sig := lib.MustCoreSign(lib.SignSpec{Format: f, Payload: lib.Payload(desc), Signer: good})
		vbo := notation.VerifyBlobOptions{BlobVerifierVerifyOptions: notation.BlobVerifierVerifyOptions{SignatureMediaType: f}}
		_, _, errExt := notation.VerifyBlob(ctx, v, &patReader{n: n, tail: []byte("appended after the signed content")}, sig, vbo)
		r.Eval(fmt.Sprintf("very-large-blob|%d|appended", n))
		r.Event("very-large-blobs-presented")
		if errExt == nil {
			r.Violation(map[string]string{"kind": "accepted-other-artifact", "api": "notation.VerifyBlob", "present": "very-large-blob-with-appended-content", "meta": "none"},
				fmt.Sprintf("%s: a blob of %d bytes + 33 appended bytes was accepted with the signature made for the first %d bytes", f, n, n), nil)
		}
		if si == 0 && r.Thorough() {
			got, _, errSame := notation.VerifyBlob(ctx, v, &patReader{n: n}, sig, vbo)
			r.Eval(fmt.Sprintf("very-large-blob|%d|same", n))
			if errSame != nil || got.Digest != desc.Digest || got.Size != n {
				r.Event("completeness:very-large-blob-rejected")
			}
		}
	}
}

// guarded runs a phase; a panic of the library inside it is a violation like any other, not the end of the monitor.
func guarded(r *lib.Run, where string, f func()) {
	defer func() {
		if p := recover(); p != nil {
			r.Violation(map[string]string{"kind": "panic", "where": where}, fmt.Sprintf("%s: the library panicked: %v", where, p), nil)
		}
	}()
	f()
}
