// C16 — a plugin name can never reach outside the plugin directory.
//
// Every case runs ONE plugin-manager operation (Get+GetMetadata, Uninstall,
// Install from file / directory, List, or an end-to-end verifier.Verify with
// the real CLIManager) in a child process chrooted into a scratch jail that
// holds only the static worker, sentinel executables planted wherever the
// name can lexically resolve to, victim directories and the test tree.
// Oracles: returned-error monitor (ground truth is lexical: single path
// component or not), sentinel marker monitor (any process execution), and a
// before/after snapshot diff of the whole jail.
package main

import (
	"encoding/json"
	"fmt"
	"os"
	"os/exec"
	"path"
	"path/filepath"
	"sort"
	"strings"
	"syscall"
	"time"

	"github.com/notaryproject/notation-core-go/signature"
	"github.com/notaryproject/notation-go/verifharness/lib"
	ocispec "github.com/opencontainers/image-spec/specs-go/v1"
)

type jailSpec struct {
	Root       string `json:"root"`
	Op         string `json:"op"`
	Name       string `json:"name"`
	Path       string `json:"path"`
	Overwrite  bool   `json:"overwrite"`
	SigFile    string `json:"sig_file"`
	Format     string `json:"format"`
	Level      string `json:"level"`
	TrustFile  string `json:"trust_file"`
	DescJSON   string `json:"desc_json"`
	ConfigDir  string `json:"config_dir"`
	LibexecDir string `json:"libexec_dir"`
	CacheDir   string `json:"cache_dir"`
	Kind       string `json:"kind"`
}

type jailResult struct {
	OK    bool     `json:"ok"`
	Err   string   `json:"err"`
	Panic string   `json:"panic"`
	Names []string `json:"names"`
}

// lexicallyValid: the name is a single path component.
func lexicallyValid(n string) bool {
	return n != "" && n != "." && n != ".." && !strings.ContainsAny(n, "/\x00")
}

type caseT struct {
	Op         string
	Name       string
	Depth      int
	Format     string
	Level      string
	Source     string // install: file | dir
	Overwrite  bool
	Absent     bool // uninstall: no directory of that name exists (the call must fail and change nothing)
	LinkOut    bool // uninstall: <root>/<name> is a symbolic link to a directory outside the plugin root (only the link may go)
	Unreadable bool // list: the process (an unprivileged user) may not read the plugin root, which holds real plugin directories
	LinkedRoot bool // list: the plugin root itself is reached through a symbolic link (libexec on another volume, a dotfile manager)
	Alone      bool // uninstall: the named plugin is the only entry of the plugin root (the root itself is not <root>/<name>)
	Special    bool // list: the root also holds a pipe, a socket and a dot-named pipe (cases of their own: a List that OPENS its entries blocks on a pipe)
	NonExec    bool // install from a directory whose only notation-* file lacks the execute bit (the manager sets it - for an acceptable name)
}

var workerSrc string

func link(dst string) {
	os.MkdirAll(filepath.Dir(dst), 0o755)
	if err := os.Link(workerSrc, dst); err != nil {
		b, _ := os.ReadFile(workerSrc)
		os.WriteFile(dst, b, 0o755)
	}
}

func rootAt(depth int) string {
	p := "/"
	for i := 1; i <= depth; i++ {
		p = filepath.Join(p, fmt.Sprintf("p%d", i))
	}
	return filepath.Join(p, "plugins")
}

func inside(jail, p string) bool { // p is an absolute path inside the jail namespace
	return strings.HasPrefix(p, "/") && p != "/"
}

func main() {
	r := lib.Start("C16", "exploration")
	r.Rule = "names from a traversal grammar (../ runs of depth 1-8 x tails, a/../../b shapes, ./x, x/., trailing slash, absolute-looking, dot, dot-dot, empty, NUL) plus valid controls, against plugin roots at depth 1/3/6, through Get+GetMetadata, Uninstall, Install from file and from directory (file names notation-.. / notation-.), List over roots with files/symlinks/nested directories, and verifier.Verify with the real CLIManager (JWS and COSE; audit with an untrusted signer, strict with a trusted one); one chrooted child per case; distinct by (operation, name, depth, format, level); non-trivial = names that are not a single path component"
	r.Rule += "; plus sentinels on the PATH of the jailed process, names under which nothing is installed, List as an unprivileged user over an unreadable root, and verifiers built by the FromConfig constructors"
	r.Assumptions = []string{"ground truth is lexical (single path component or not), independent of what exists on disk",
		"names containing a backslash, '...', over-long names are not judged; for a valid name the install source is run to read its metadata (for a rejected name nothing runs, the source included)",
		"chroot is permitted in the sandbox (checked at start; otherwise the run is inconclusive)"}
	scratch := lib.TempDir("c16")
	r.OnExit(func() { os.RemoveAll(scratch) })
	workerSrc = filepath.Join(scratch, "worker")
	b, err := os.ReadFile(filepath.Join(os.Getenv("VERIF_BIN"), "worker"))
	if err != nil {
		r.Inconclusive("worker binary missing")
		r.Finish()
	}
	os.WriteFile(workerSrc, b, 0o755)

	signerGood := lib.SimpleChain("c16-good", 0, "EC-256", 0)
	signerBad := lib.SimpleChain("c16-bad", 0, "EC-256", 1)
	desc := lib.Desc(ocispec.MediaTypeImageManifest, []byte("c16"))
	descJSON, _ := json.Marshal(desc)

	// ---- case list
	var names []string
	for d := 1; d <= 8; d++ {
		for _, tail := range []string{"evil", "x/x", "etc/x", "./", "", "good"} {
			names = append(names, strings.Repeat("../", d)+tail)
		}
	}
	names = append(names, "a/../../b", "good/../../b", "good/../other", "./good", "good/.", "good/", "good//", "/abs/evil", "//evil", "/", ".", "..", "", "a\x00b", "good\x00/../x", "../good", "good/..", "x/y", "good/notation-good")
	// names that are (odd but) single path components and only become traversal names when someone trims them: the plugin
	// directory must still be exactly <root>/<name>, so sentinels wait where the TRIMMED name would resolve to
	wrapped := []string{".. ", " ..", "..\n", "\t..\t", " . ", ". ", " ", "\t", " good", "good ", "../evil ", " ../evil"}
	valid := []string{"good", "bar.example.plugin", "-x", "a_b", "...", "absent-plugin", "absent.v2"} // (absent*: nothing of that name is installed under the root)
	// names in the shape of an executable FILE name (notation-<x>): single components, or traversal names, exactly as
	// their characters say - nothing may be derived from them by stripping the prefix
	prefixed := []string{"notation-..", "notation-.", "notation-", "notation-good", "notation-other", "notation-notation-good", "notation-../evil", "notation-../../x", "notation-good/..", "notation-.. "}
	var cases []caseT
	for _, depth := range []int{1, 3, 6} {
		for _, n := range append(append(append(append([]string{}, names...), valid...), wrapped...), prefixed...) {
			cases = append(cases, caseT{Op: "get", Name: n, Depth: depth}, caseT{Op: "uninstall", Name: n, Depth: depth})
		}
		for _, n := range append(append(append([]string{}, valid...), wrapped...), prefixed...) {
			cases = append(cases, caseT{Op: "uninstall", Name: n, Depth: depth, Absent: true})
		}
		for _, n := range []string{"good3", "linked.plugin", "notation-x"} {
			cases = append(cases, caseT{Op: "uninstall", Name: n, Depth: depth, LinkOut: true})
		}
		for _, n := range []string{"only", "good", "a.b"} {
			cases = append(cases, caseT{Op: "uninstall", Name: n, Depth: depth, Alone: true}, caseT{Op: "uninstall", Name: n, Depth: depth, Alone: true, LinkedRoot: true},
				caseT{Op: "uninstall", Name: n, Depth: depth, Alone: true, Absent: true})
		}
		for _, fn := range []string{"..", ".", "good2", ".. ", " ."} {
			for _, ow := range []bool{false, true} {
				cases = append(cases, caseT{Op: "install", Name: fn, Depth: depth, Source: "dir", Overwrite: ow, NonExec: true})
			}
		}
		for _, fn := range []string{"..", ".", "good2", "evil", ".. ", " ."} {
			for _, ow := range []bool{false, true} {
				cases = append(cases, caseT{Op: "install", Name: fn, Depth: depth, Source: "file", Overwrite: ow}, caseT{Op: "install", Name: fn, Depth: depth, Source: "dir", Overwrite: ow})
			}
		}
		cases = append(cases, caseT{Op: "list", Depth: depth}, caseT{Op: "list", Depth: depth, LinkedRoot: true}, caseT{Op: "list", Depth: depth, Unreadable: true},
			caseT{Op: "list", Depth: depth, Special: true}, caseT{Op: "list", Depth: depth, Special: true, LinkedRoot: true})
		for _, ow := range []bool{false, true} {
			cases = append(cases, caseT{Op: "install", Name: "linkedplug", Depth: depth, Source: "file", Overwrite: ow, LinkOut: true}, caseT{Op: "install", Name: "linkedplug", Depth: depth, Source: "dir", Overwrite: ow, LinkOut: true})
		}
	}
	vnames := names
	if r.Quick() {
		vnames = nil
		for i, n := range names {
			if i%3 == 0 || !strings.HasPrefix(n, "../") {
				vnames = append(vnames, n)
			}
		}
	}
	for _, depth := range []int{1, 3, 6} {
		if r.Quick() && depth == 6 {
			continue
		}
		for _, n := range append(append(append([]string{}, vnames...), "good"), ".. ", " ..", "good ") {
			if strings.Contains(n, "\x00") || strings.TrimSpace(n) == "" {
				continue // not representable / refused earlier as a header value
			}
			for _, f := range lib.Formats {
				cases = append(cases, caseT{Op: "verify", Name: n, Depth: depth, Format: f, Level: "audit"}, caseT{Op: "verify", Name: n, Depth: depth, Format: f, Level: "strict"})
			}
		}
	}

	// the constructors that read the user's directories build their own plugin manager: it must look under
	// <libexec>/plugins too - not under the configuration or the cache directory
	for _, depth := range []int{1, 3} {
		for _, kind := range []string{"oci", "oci-default", "blob"} {
			for _, f := range lib.Formats {
				cases = append(cases, caseT{Op: "verify-from-config", Name: "good", Depth: depth, Format: f, Level: "strict", Source: kind})
			}
		}
	}

	// chroot probe
	{
		jail := filepath.Join(scratch, "probe")
		link(filepath.Join(jail, "w"))
		c := exec.Command("/w", "nothing")
		c.SysProcAttr = &syscall.SysProcAttr{Chroot: jail}
		c.Dir = "/"
		out, _ := c.CombinedOutput()
		if !strings.Contains(string(out), "unknown command") {
			r.Inconclusive("cannot run the worker in a chroot jail: " + string(out))
			r.Finish()
		}
	}

	lib.Parallel(len(cases), 16, func(ci int) {
		c := cases[ci]
		jail := filepath.Join(scratch, fmt.Sprintf("jail-%d", ci))
		defer os.RemoveAll(jail)
		J := func(p string) string { return filepath.Join(jail, p) }
		link(J("/w"))
		root := rootAt(c.Depth)
		os.MkdirAll(J(root), 0o755)
		// legitimate plugins
		for _, g := range []string{"good", "other"} {
			if c.Alone {
				break
			}
			link(J(filepath.Join(root, g, "notation-"+g)))
		}
		// bystander files everywhere
		for d := 0; d <= c.Depth; d++ {
			p := "/"
			for i := 1; i <= d; i++ {
				p = filepath.Join(p, fmt.Sprintf("p%d", i))
			}
			os.WriteFile(J(filepath.Join(p, "bystander.txt")), []byte("bystander"), 0o644)
		}
		os.MkdirAll(J("/etc"), 0o755)
		os.WriteFile(J("/etc/x"), []byte("not a plugin"), 0o644)
		sp := jailSpec{Root: root, Op: c.Op, Name: c.Name, Level: c.Level, Format: c.Format, DescJSON: string(descJSON), Overwrite: c.Overwrite}
		allowedPrefix := []string{}
		isValid := lexicallyValid(c.Name)
		judged := !strings.ContainsAny(c.Name, "\\") && c.Name != "..." && len(c.Name) < 200
		switch c.Op {
		case "verify-from-config":
			for _, d := range []string{"/cfg", "/cache", "/cfg/plugins", "/cache/plugins"} { // sentinels where a manager rooted in the wrong directory would look
				link(J(filepath.Join(d, c.Name, "notation-"+c.Name)))
				os.WriteFile(J(filepath.Join(d, c.Name, "notation-"+c.Name))+".name", []byte(c.Name), 0o644)
			}
			sig, err := lib.CoreSign(lib.SignSpec{Format: c.Format, Payload: lib.Payload(desc), Signer: signerGood, Ext: []signature.Attribute{{Key: lib.HdrPlugin, Critical: true, Value: c.Name}}})
			if err != nil {
				panic(err)
			}
			os.WriteFile(J("/sig.bin"), sig, 0o644)
			os.WriteFile(J("/trust.der"), signerGood.Root().Cert.Raw, 0o644)
			sp.SigFile, sp.TrustFile, sp.ConfigDir, sp.LibexecDir, sp.CacheDir, sp.Kind = "/sig.bin", "/trust.der", "/cfg", filepath.Dir(root), "/cache", c.Source
			allowedPrefix = append(allowedPrefix, filepath.Join(root, c.Name)+"/", "/cfg/truststore", "/cfg/trustpolicy")
		case "get", "verify":
			// sentinel wherever the executable path lexically resolves to
			target := filepath.Join(root, path.Join(c.Name, "notation-"+c.Name))
			if !strings.Contains(c.Name, "\x00") && inside(jail, target) && !strings.HasPrefix(c.Name, "absent") {
				if st, err := os.Lstat(J(target)); err != nil || st.IsDir() {
					if err == nil && st.IsDir() {
						// the resolved path is an existing directory (e.g. the root itself): nothing to plant
					} else {
						link(J(target))
						os.WriteFile(J(target)+".name", []byte(c.Name), 0o644)
					}
				} else {
					os.WriteFile(J(target)+".name", []byte(c.Name), 0o644)
				}
			}
			if t := strings.TrimSpace(c.Name); t != c.Name && !strings.Contains(c.Name, "\x00") {
				tt := filepath.Join(root, path.Join(t, "notation-"+t))
				if inside(jail, tt) {
					if _, err := os.Lstat(J(tt)); err != nil {
						link(J(tt))
						os.WriteFile(J(tt)+".name", []byte(c.Name), 0o644)
					}
				}
			}
			if isValid {
				allowedPrefix = append(allowedPrefix, filepath.Join(root, c.Name)+"/")
			}
			if c.Op == "verify" {
				signer, trust := signerBad, signerGood.Root().Cert
				if c.Level == "strict" {
					signer = signerGood
				}
				sig, err := lib.CoreSign(lib.SignSpec{Format: c.Format, Payload: lib.Payload(desc), Signer: signer,
					Ext: []signature.Attribute{{Key: lib.HdrPlugin, Critical: true, Value: c.Name}}})
				if err != nil {
					panic(err)
				}
				os.WriteFile(J("/sig.bin"), sig, 0o644)
				os.WriteFile(J("/trust.der"), trust.Raw, 0o644)
				sp.SigFile, sp.TrustFile = "/sig.bin", "/trust.der"
			}
		case "uninstall":
			victim := filepath.Join(root, c.Name)
			if c.LinkOut {
				os.MkdirAll(J("/elsewhere/victim-dir"), 0o755)
				os.WriteFile(J("/elsewhere/victim-dir/precious.txt"), []byte("precious"), 0o644)
				os.MkdirAll(J(root), 0o755)
				os.Symlink("/elsewhere/victim-dir", J(victim))
			} else if !strings.Contains(c.Name, "\x00") && inside(jail, victim) && !c.Absent {
				os.MkdirAll(J(victim), 0o755)
				os.WriteFile(J(filepath.Join(victim, "victim.txt")), []byte("victim"), 0o644)
			}
			if t := strings.TrimSpace(c.Name); t != c.Name && t != "" && !strings.Contains(c.Name, "\x00") {
				tv := filepath.Join(root, t)
				if inside(jail, tv) && tv != root && !strings.HasPrefix(root, tv+"/") {
					os.MkdirAll(J(tv), 0o755)
					os.WriteFile(J(filepath.Join(tv, "victim-of-trimmed-name.txt")), []byte("victim"), 0o644)
				}
			}
			if isValid {
				allowedPrefix = append(allowedPrefix, filepath.Join(root, c.Name))
			}
			if c.LinkedRoot {
				os.Rename(J(root), J(root+"-real"))
				os.Symlink(filepath.Base(root)+"-real", J(root))
				if isValid {
					allowedPrefix = append(allowedPrefix, filepath.Join(root+"-real", c.Name))
				}
			}
		case "install":
			if c.LinkOut {
				// <root>/<name> exists - as a symbolic link to a directory elsewhere (which holds no plugin): whatever Install
				// does with the link, nothing is written into the directory it points to
				os.MkdirAll(J("/elsewhere/target-dir"), 0o755)
				os.WriteFile(J("/elsewhere/target-dir/unrelated.txt"), []byte("unrelated"), 0o644)
				os.MkdirAll(J(root), 0o755)
				os.Symlink("/elsewhere/target-dir", J(filepath.Join(root, c.Name)))
			}
			src := "/src/notation-" + c.Name
			link(J(src))
			if c.NonExec {
				// a copy without the execute bit (the hard link shares its mode with the worker itself)
				// (copied by a child process: a file this multi-threaded process writes itself could still be open in a child it
				// forks at that moment, and executing it would then fail with "text file busy")
				os.Remove(J(src))
				if out, err := exec.Command("cp", workerSrc, J(src)).CombinedOutput(); err != nil {
					panic(fmt.Sprintf("harness: cp failed: %v %s", err, out))
				}
				os.Chmod(J(src), 0o644)
			}
			if !c.NonExec { // (a second notation-* file would make the lone candidate ambiguous; the sentinel derives the name from its file name)
				os.WriteFile(J(src)+".name", []byte(c.Name), 0o644)
			}
			os.WriteFile(J("/src/LICENSE"), []byte("license"), 0o644)
			sp.Path = src
			if c.Source == "dir" {
				sp.Path = "/src"
			}
			sp.Name = c.Name
			isValid = lexicallyValid(c.Name)
			if isValid {
				allowedPrefix = append(allowedPrefix, src+".executed", filepath.Join(root, c.Name))
				if c.NonExec {
					allowedPrefix = append(allowedPrefix, src) // (the manager sets the execute bit on the source file it is about to run)
				}
			}
		case "list":
			os.MkdirAll(J(filepath.Join(root, "b.c", "inner")), 0o755)
			os.MkdirAll(J(filepath.Join(root, ".h")), 0o755)
			for _, odd := range []string{"my plugin", "azure+kv", "signer@v2", "pl\u00fcgin"} { // unusual, but single path components all the same
				os.MkdirAll(J(filepath.Join(root, odd)), 0o755)
			}
			os.WriteFile(J(filepath.Join(root, "file")), []byte("f"), 0o644)
			// special files are not directories either (a pipe or socket an agent left behind), and real plugins sort after them
			if c.Special {
				syscall.Mkfifo(J(filepath.Join(root, "agent.pipe")), 0o644)
				syscall.Mknod(J(filepath.Join(root, "b.sock")), syscall.S_IFSOCK|0o644, 0)
				syscall.Mkfifo(J(filepath.Join(root, ".a-pipe")), 0o644)
			}
			os.Symlink(filepath.Join(root, "good"), J(filepath.Join(root, "ln-dir")))
			os.Symlink(filepath.Join(root, "file"), J(filepath.Join(root, "ln-file")))
			os.Symlink("/does/not/exist", J(filepath.Join(root, "ln-dangling")))
			if c.LinkedRoot {
				os.Rename(J(root), J(root+"-real"))
				os.Symlink(filepath.Base(root)+"-real", J(root))
			}
			if c.Unreadable {
				os.Chmod(J(root), 0o700) // (owned by root; the jailed process runs as nobody)
			}
		}
		// executables of the same FILE name wait on the search path of the process (a system-wide copy of a plugin): a plugin
		// is looked up under the plugin root and nowhere else, so none of them is ever run
		if c.Op == "get" || c.Op == "verify" || c.Op == "verify-from-config" {
			for _, d := range []string{"/usr/local/bin", "/bin"} {
				for _, n := range []string{c.Name, strings.TrimSpace(c.Name), path.Base(c.Name)} {
					if n == "" || n == "good" || n == "other" || strings.ContainsAny(n, "/\x00") || len(n) > 100 {
						continue
					}
					if _, err := os.Lstat(J(filepath.Join(d, "notation-"+n))); err != nil {
						link(J(filepath.Join(d, "notation-"+n)))
						os.WriteFile(J(filepath.Join(d, "notation-"+n))+".name", []byte(n), 0o644)
					}
				}
			}
		}
		specBytes, _ := json.Marshal(sp)
		os.WriteFile(J("/spec.json"), specBytes, 0o644)
		before := lib.Snapshot(jail)
		var res jailResult
		for attempt := 0; ; attempt++ {
			cmd := exec.Command("/w", "jail", "/spec.json")
			cmd.SysProcAttr = &syscall.SysProcAttr{Chroot: jail}
			cmd.Dir = "/"
			cmd.Env = append(os.Environ(), "PATH=/usr/local/bin:/bin")
			if c.Unreadable {
				cmd.SysProcAttr.Credential = &syscall.Credential{Uid: 65534, Gid: 65534}
			}
			done := make(chan struct{})
			var out []byte
			var runErr error
			go func() { out, runErr = cmd.Output(); close(done) }()
			select {
			case <-done:
			case <-time.After(map[bool]time.Duration{false: 2 * time.Minute, true: 45 * time.Second}[c.Special]):
				cmd.Process.Kill()
				r.Inconclusive(fmt.Sprintf("jailed case %d hit the watchdog", ci))
				return
			}
			if runErr == nil && json.Unmarshal(out, &res) == nil {
				break
			}
			// the jailed HARNESS process failed (could not be started, died without a result): nothing was observed about the
			// library. If it left the jail untouched, the case is simply run again.
			r.Event("jailed-worker-without-result")
			if attempt < 2 && len(lib.DiffSnapEntries(before, lib.Snapshot(jail))) == 0 {
				continue
			}
			r.Inconclusive(fmt.Sprintf("jailed worker failed for %+v: %v %s", c, runErr, out))
			return
		}
		after := lib.Snapshot(jail)
		entries := lib.DiffSnapEntries(before, after)
		var diff, markers, outside []string
		for _, e := range entries {
			d := e.String()
			diff = append(diff, d)
			p := "/" + e.Path
			if strings.HasSuffix(p, ".executed") && e.Kind == "added" {
				markers = append(markers, p)
			}
			ok := false
			for _, a := range allowedPrefix {
				if p == a || strings.HasPrefix(p, a) || strings.HasPrefix(p, strings.TrimSuffix(a, "/")+"/") {
					ok = true
				}
			}
			if !ok {
				outside = append(outside, d)
			}
		}
		key := ""
		if !isValid && c.Op != "list" {
			key = fmt.Sprintf("%s|%q|%d|%s|%s|%s|%v", c.Op, c.Name, c.Depth, c.Format, c.Level, c.Source+fmt.Sprint(c.Overwrite), c.Absent || c.LinkOut)
		}
		r.Eval(key)
		wit := map[string]any{"case": c, "name_quoted": fmt.Sprintf("%q", c.Name), "result": res, "fs_changes": diff, "plugin_root": root}
		sig := func(kind string) map[string]string {
			return map[string]string{"kind": kind, "op": c.Op, "source": c.Source}
		}
		if res.Panic != "" {
			r.Violation(sig("panic"), "panic inside the plugin manager: "+strings.SplitN(res.Panic, "\n", 2)[0], wit)
		}
		switch {
		case c.Op == "list" && c.Unreadable:
			// the root exists, holds real plugin directories and cannot be read: "there are no plugins" is not what is there
			r.Event("list-cases-over-an-unreadable-root")
			if res.OK {
				r.Violation(sig("list"), fmt.Sprintf("List over a plugin root the process may not read returned %v and no error; the root holds 8 real plugin directories", res.Names), wit)
			}
		case c.Op == "list":
			want := []string{".h", "azure+kv", "b.c", "good", "my plugin", "other", "pl\u00fcgin", "signer@v2"}
			sort.Strings(want)
			got := append([]string(nil), res.Names...)
			sort.Strings(got)
			r.Event("list-cases")
			if !res.OK || fmt.Sprint(got) != fmt.Sprint(want) {
				r.Violation(sig("list"), fmt.Sprintf("List returned %v (err=%s), the real sub-directories are %v", got, res.Err, want), wit)
			}
			if len(diff) > 0 {
				r.Violation(sig("fs-change"), "List changed the file system", wit)
			}
		case !judged:
			r.Event("not-judged")
		case !isValid:
			r.Event("invalid-name-cases")
			if res.OK {
				r.Violation(sig("invalid-name-accepted"), fmt.Sprintf("%s with name %q (not a single path component) returned success", c.Op, c.Name), wit)
			}
			var foreign []string
			for _, m := range markers {
				foreign = append(foreign, m) // for a rejected name NOTHING runs - not even the install source that carries the name
			}
			if len(foreign) > 0 {
				r.Violation(sig("process-executed"), fmt.Sprintf("%s with name %q executed %v", c.Op, c.Name, foreign), wit)
			}
			if len(outside) > 0 {
				r.Violation(sig("fs-change"), fmt.Sprintf("%s with name %q changed the file system: %v", c.Op, c.Name, outside), wit)
			}
		default:
			r.Event("valid-name-cases")
			if len(outside) > 0 {
				r.Violation(sig("fs-change-outside-plugin-dir"), fmt.Sprintf("%s with valid name %q changed the file system outside <root>/<name>: %v", c.Op, c.Name, outside), wit)
			}
			if res.OK {
				r.Event("valid-name-succeeded")
			}
			if strings.HasPrefix(c.Name, "absent") && (c.Op == "get" || c.Op == "verify") {
				r.Event("absent-plugin-cases")
				if res.OK || len(markers) > 0 {
					r.Violation(sig("process-executed"), fmt.Sprintf("%s with the name %q, under which nothing is installed in the plugin root: ok=%v, executed %v (executables of that file name wait on the PATH of the process)", c.Op, c.Name, res.OK, markers), wit)
				}
			}
			if c.Op == "get" && c.Name == "good" && (!res.OK || len(markers) != 1) {
				r.Violation(sig("control-failed"), fmt.Sprintf("control: Get(good) must execute the installed plugin exactly once: ok=%v err=%s markers=%v", res.OK, res.Err, markers), wit)
			}
			if c.Op == "verify-from-config" {
				r.Event("verify-from-config-cases")
				for _, m := range markers {
					if !strings.HasPrefix(m, filepath.Join(root, c.Name)+"/") {
						r.Violation(sig("process-executed"), fmt.Sprintf("a verifier built by the %s from-config constructor executed %s: plugins live under <libexec>/plugins/<name> only", c.Source, m), wit)
					}
				}
				if !res.OK || len(markers) == 0 {
					r.Violation(sig("control-failed"), fmt.Sprintf("control: verification through the %s from-config constructor with the plugin installed under <libexec>/plugins failed or did not run it: ok=%v err=%s markers=%v", c.Source, res.OK, res.Err, markers), wit)
				}
			}
			if c.Op == "verify" && c.Name == "good" && len(markers) == 0 {
				r.Violation(sig("control-failed"), "control: verification naming the installed plugin 'good' did not execute it: "+res.Err, wit)
			}
			if c.Op == "install" && !res.OK && !c.LinkOut {
				r.Violation(sig("control-failed"), fmt.Sprintf("control: install of valid plugin %q failed: %s", c.Name, res.Err), wit)
			}
		}
		r.Sample(fmt.Sprintf("%s valid=%v", c.Op, isValid), map[string]any{"name": fmt.Sprintf("%q", c.Name), "depth": c.Depth, "ok": res.OK, "err": res.Err, "fs_changes": len(diff)})
	}, r.PanicViolation("harness"))
	r.RequireAtLeast("invalid-name-cases", 100)
	r.RequireAtLeast("valid-name-succeeded", 10)
	r.RequireAtLeast("list-cases", 3)
	r.Finish()
}
