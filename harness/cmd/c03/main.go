// C03 — trust comes only from the stores the applicable policy names, typed by scheme.
//
// Generated placements of the signer's root / intermediate / leaf and an
// unrelated CA into named stores of the three types on a REAL on-disk trust
// store, behind a logging wrapper; documents with 1-3 statements listing
// stores (duplicates, several types, non-existent stores, right name under the
// wrong type). One verifier per configuration verifies a SEQUENCE of
// signatures (both schemes, both formats, references hitting each statement
// and the wildcard), so that state carried across verifications is visible.
// Oracle: placement model for the authenticity result + call-log monitor on
// GetCertificates.
package main

import (
	"bytes"
	"context"
	"crypto/x509"
	"encoding/pem"
	"errors"
	"fmt"
	"os"
	"path/filepath"
	"sort"
	"strings"
	"sync"

	"github.com/notaryproject/notation-core-go/signature"
	"github.com/notaryproject/notation-go"
	"github.com/notaryproject/notation-go/dir"
	"github.com/notaryproject/notation-go/verifharness/lib"
	"github.com/notaryproject/notation-go/verifier"
	"github.com/notaryproject/notation-go/verifier/trustpolicy"
	"github.com/notaryproject/notation-go/verifier/truststore"
	pf "github.com/notaryproject/notation-plugin-framework-go/plugin"
	"github.com/opencontainers/go-digest"
	ocispec "github.com/opencontainers/image-spec/specs-go/v1"
)

type logTS struct {
	inner truststore.X509TrustStore
	mu    sync.Mutex
	calls []string
}

func (l *logTS) GetCertificates(ctx context.Context, t truststore.Type, name string) ([]*x509.Certificate, error) {
	l.mu.Lock()
	l.calls = append(l.calls, string(t)+":"+name)
	l.mu.Unlock()
	return l.inner.GetCertificates(ctx, t, name)
}

type storeT struct {
	Type, Name string
	Certs      []string // root inter leaf other
	Exists     bool
	LinkFile   bool   // one of the store's entries is a symbolic link to a certificate file of another store: the store cannot be loaded
	Bundle     bool   // the certificates are kept in one PEM file, in the order of Certs
	Junk       string // non-empty: the store also holds this entry, which is no certificate file: the store cannot be loaded
	LinkTo     string // non-empty: the store directory is a symbolic link to this other store's directory ("type/name")
}

func contains(l []string, x string) bool {
	for _, y := range l {
		if y == x {
			return true
		}
	}
	return false
}

func main() {
	r := lib.Start("C03", "exploration")
	r.Rule = "PRNG configurations: up to 6 named stores over {ca, signingAuthority, tsa} holding subsets of {signer root, signer intermediate, signer leaf (makes the store unloadable), unrelated CA}, empty and non-existent stores; 1-3 statements (scopes reg.io/a, reg.io/b, *) listing 1-4 stores with duplicates / several types / non-existent / right name under the wrong type; per configuration ONE verifier verifies a sequence of 6-10 signatures over {notary.x509, signingAuthority} x {JWS, COSE} x references hitting each statement, the wildcard or nothing, under strict and audit-like levels; distinct by (configuration, step); non-trivial = the applicable statement lists at least one store of the required type"
	r.Assumptions = []string{"certificate equality = identical DER", "one-directional statement: 'model passes but library fails' is counted as a completeness observation, not judged",
		"no countersignature is attached in this check, so no tsa store may be loaded at all"}
	ctx := context.Background()
	leaf := lib.SimpleChain("c03", 1, "EC-256", 0)
	chain := leaf.Chain() // leaf, inter, root
	other := lib.Mint(nil, lib.CertSpec{CN: "c03-unrelated", Kind: "ca", KeyIdx: 3})
	// a non-CA certificate that NAMES itself as its issuer (issuer = subject) but was signed by another key: not self-signed
	selfNamed := lib.Mint(other, lib.CertSpec{Subject: &other.Cert.Subject, Kind: "codesign", KeyIdx: 2})
	if !bytes.Equal(selfNamed.Cert.RawIssuer, selfNamed.Cert.RawSubject) || selfNamed.Cert.CheckSignatureFrom(selfNamed.Cert) == nil {
		panic("harness bug: the self-named certificate is not what it should be")
	}
	certs := map[string]*x509.Certificate{"leaf": chain[0], "inter": chain[1], "root": chain[2], "other": other.Cert, "selfnamed": selfNamed.Cert}
	desc := lib.Desc(ocispec.MediaTypeImageManifest, []byte("c03"))
	sigs := map[string][]byte{}
	for _, f := range lib.Formats {
		for _, sc := range []string{"notary.x509", "notary.x509.signingAuthority"} {
			sigs[f+"|"+sc] = lib.MustCoreSign(lib.SignSpec{Format: f, Scheme: signature.SigningScheme(sc), Payload: lib.Payload(desc), Signer: leaf})
		}
	}
	// the same, demanding a verification plugin (which approves everything): a plugin's verdict never confers trust
	for _, f := range lib.Formats {
		for _, sc := range []string{"notary.x509", "notary.x509.signingAuthority"} {
			sigs[f+"|"+sc+"|plugin"] = lib.MustCoreSign(lib.SignSpec{Format: f, Scheme: signature.SigningScheme(sc), Payload: lib.Payload(desc), Signer: leaf,
				Ext: []signature.Attribute{{Key: lib.HdrPlugin, Critical: true, Value: "plug"}}})
		}
	}
	blob := []byte("c03 blob")
	blobDesc := lib.Desc("application/octet-stream", blob)
	blobSig := lib.MustCoreSign(lib.SignSpec{Format: lib.MediaJWS, Payload: lib.Payload(blobDesc), Signer: leaf})
	types := []string{"ca", "signingAuthority", "tsa"}
	n := r.N(1500, 100000)
	lib.Parallel(n, 16, func(ci int) {
		rng := r.Rand(fmt.Sprintf("cfg-%d", ci))
		base := lib.TempDir("c03")
		defer os.RemoveAll(base)
		// ---- stores
		var stores []storeT
		names := []string{"s0", "s1", "s2", "S1"} // (S1 and s1 are two stores: names are compared exactly)
		for _, nm := range names {
			for _, t := range types {
				if rng.Intn(3) == 0 {
					continue
				}
				st := storeT{Type: t, Name: nm, Exists: true}
				for _, c := range []string{"root", "inter", "other", "leaf", "selfnamed"} {
					p := 35
					if c == "leaf" || c == "selfnamed" {
						p = 8
					}
					if c == "other" {
						p = 50
					}
					if rng.Chance(p) {
						st.Certs = append(st.Certs, c)
					}
				}
				stores = append(stores, st)
			}
		}
		for k := range stores {
			st := &stores[k]
			d := filepath.Join(base, "truststore", "x509", st.Type, st.Name)
			os.MkdirAll(d, 0o755)
			if len(st.Certs) > 1 && rng.Intn(4) == 0 {
				// all certificates of the store in ONE file, in any order (a leaf anywhere in it makes the store unloadable)
				if !contains(st.Certs, "leaf") && rng.Intn(2) == 0 {
					st.Certs = append(st.Certs, "leaf")
				}
				perm := rng.Perm(len(st.Certs))
				shuffled := make([]string, len(perm))
				for i, j := range perm {
					shuffled[i] = st.Certs[j]
				}
				st.Certs = shuffled
				var pemAll []byte
				for _, c := range st.Certs {
					pemAll = append(pemAll, pem.EncodeToMemory(&pem.Block{Type: "CERTIFICATE", Bytes: certs[c].Raw})...)
				}
				os.WriteFile(filepath.Join(d, "bundle.pem"), pemAll, 0o644)
				st.Bundle = true
				r.Event("stores-kept-as-one-bundle-file")
			} else {
				for _, c := range st.Certs {
					os.WriteFile(filepath.Join(d, c+".crt"), certs[c].Raw, 0o644)
				}
			}
			// an entry that is not a certificate file (whatever it is called): the store cannot be loaded
			if rng.Intn(8) == 0 {
				st.Junk = []string{".DS_Store", ".git/", "README.txt", "old/", "..data/", ".root.crt.swp", "empty.crt", "zz-empty.pem"}[rng.Intn(8)]
				if strings.HasSuffix(st.Junk, "/") {
					os.MkdirAll(filepath.Join(d, st.Junk), 0o755)
				} else if strings.Contains(st.Junk, "empty") {
					os.WriteFile(filepath.Join(d, st.Junk), nil, 0o644) // a file holding no certificate at all
				} else {
					os.WriteFile(filepath.Join(d, st.Junk), []byte("\x00\x00\x00\x01Bud1 not a certificate"), 0o644)
				}
				r.Event("stores-with-an-entry-that-is-no-certificate")
			}
		}
		// a store entry that is a symbolic link to the signer's root kept elsewhere (outside the trust store, or in a store of
		// another type): every entry must be a regular file, so such a store cannot be loaded - and must not confer trust
		os.WriteFile(filepath.Join(base, "root-kept-elsewhere.crt"), certs["root"].Raw, 0o644)
		for k := range stores {
			if rng.Intn(7) == 0 {
				d := filepath.Join(base, "truststore", "x509", stores[k].Type, stores[k].Name)
				if os.Symlink(filepath.Join(base, "root-kept-elsewhere.crt"), filepath.Join(d, "zz-linked.crt")) == nil {
					stores[k].LinkFile = true
					r.Event("stores-with-a-linked-entry")
				}
			}
		}
		// named stores that are symbolic links to a store of another type or name: such a store cannot be loaded, and
		// what the link points at (a tsa or signingAuthority store, say) must not leak into the type that lists it
		if len(stores) > 0 && rng.Intn(3) == 0 {
			real := len(stores)
			for _, nm := range append(names, "missing") {
				for _, t := range types {
					if rng.Intn(4) != 0 {
						continue
					}
					taken := false
					for _, st := range stores {
						taken = taken || (st.Type == t && st.Name == nm)
					}
					if taken {
						continue
					}
					tgt := stores[rng.Intn(real)]
					d := filepath.Join(base, "truststore", "x509", t, nm)
					os.MkdirAll(filepath.Dir(d), 0o755)
					if os.Symlink(filepath.Join("..", tgt.Type, tgt.Name), d) == nil {
						stores = append(stores, storeT{Type: t, Name: nm, Exists: true, LinkTo: tgt.Type + "/" + tgt.Name})
						r.Event("linked-store")
					}
				}
			}
		}
		find := func(t, nm string) *storeT {
			for i := range stores {
				if stores[i].Type == t && stores[i].Name == nm {
					return &stores[i]
				}
			}
			return nil
		}
		loadable := func(st *storeT) bool {
			if st == nil || st.LinkFile || len(st.Certs) == 0 || st.LinkTo != "" || st.Junk != "" {
				return false
			}
			for _, c := range st.Certs {
				if c == "leaf" || c == "selfnamed" || (st.Type == "tsa" && c == "inter") {
					return false
				}
			}
			return true
		}
		// ---- statements
		scopes := [][]string{{"reg.io/a"}, {"reg.io/b"}, {"*"}}
		if ci%2 == 1 { // statements scoped to several repositories, the artifact's not in first place
			scopes = [][]string{{"reg.io/x", "reg.io/a"}, {"reg.io/y", "reg.io/z", "reg.io/b"}, {"*"}}
		}
		k := 1 + rng.Intn(3)
		perm := rng.Perm(3)
		var sts []trustpolicy.OCITrustPolicy
		levelName := []string{"strict", "permissive", "audit"}[rng.Intn(3)] // permissive: authenticity enforced, authentic timestamp only logged
		audit := levelName == "audit"
		for i := 0; i < k; i++ {
			var list []string
			m := 1 + rng.Intn(4)
			for j := 0; j < m; j++ {
				t := types[rng.Intn(2)]
				if rng.Intn(6) == 0 {
					t = "tsa"
				}
				nm := append(append([]string(nil), names...), "missing")[rng.Intn(len(names)+1)]
				list = append(list, t+":"+nm)
				if rng.Intn(6) == 0 {
					list = append(list, t+":"+nm) // duplicate
				}
			}
			sv := trustpolicy.SignatureVerification{VerificationLevel: levelName, Override: map[trustpolicy.ValidationType]trustpolicy.ValidationAction{trustpolicy.TypeRevocation: trustpolicy.ActionSkip}}
			if audit {
				sv = trustpolicy.SignatureVerification{VerificationLevel: "audit", Override: map[trustpolicy.ValidationType]trustpolicy.ValidationAction{trustpolicy.TypeRevocation: trustpolicy.ActionSkip}}
			}
			sts = append(sts, trustpolicy.OCITrustPolicy{Name: fmt.Sprintf("st%d", i), SignatureVerification: sv, TrustStores: list, TrustedIdentities: []string{"*"}, RegistryScopes: scopes[perm[i]]})
		}
		doc := &trustpolicy.OCIDocument{Version: "1.0", TrustPolicies: sts}
		if err := doc.Validate(); err != nil {
			panic(fmt.Sprintf("harness bug: %v", err))
		}
		// the model keeps its own copy of the statements (the document's may only change if the library lets them)
		msts := make([]trustpolicy.OCITrustPolicy, len(sts))
		for k := range sts {
			msts[k] = sts[k]
			msts[k].TrustStores = append([]string(nil), sts[k].TrustStores...)
			msts[k].RegistryScopes = append([]string(nil), sts[k].RegistryScopes...)
			msts[k].TrustedIdentities = append([]string(nil), sts[k].TrustedIdentities...)
		}
		lts := &logTS{inner: truststore.NewX509TrustStore(dir.NewSysFS(base))}
		// a blob document whose only statements are a global one and a named one, each listing the stores of an OCI statement
		bdoc := &trustpolicy.BlobDocument{Version: "1.0", TrustPolicies: []trustpolicy.BlobTrustPolicy{
			{Name: "global-statement", SignatureVerification: sts[0].SignatureVerification, TrustStores: sts[0].TrustStores, TrustedIdentities: []string{"*"}, GlobalPolicy: true},
			{Name: "named-statement", SignatureVerification: sts[len(sts)-1].SignatureVerification, TrustStores: sts[len(sts)-1].TrustStores, TrustedIdentities: []string{"*"}}}}
		pm := lib.ScriptedManager{P: &lib.ScriptedPlugin{Caps: []pf.Capability{pf.CapabilityTrustedIdentityVerifier, pf.CapabilityRevocationCheckVerifier}}}
		vopts := verifier.VerifierOptions{OCITrustPolicy: doc, BlobTrustPolicy: bdoc, PluginManager: pm, RevocationCodeSigningValidator: lib.OKRev{}, RevocationTimestampingValidator: lib.OKRev{}}
		var v interface {
			notation.Verifier
			notation.BlobVerifier
		}
		var err error
		if ci%4 == 1 {
			// the deprecated constructor is given the document as its argument; an options value that (still) carries
			// another document - one statement listing every store there is - does not change whose statements apply
			var every []string
			for _, st := range stores {
				every = append(every, st.Type+":"+st.Name)
			}
			if len(every) == 0 {
				every = []string{"ca:s0"}
			}
			vopts.OCITrustPolicy = &trustpolicy.OCIDocument{Version: "1.0", TrustPolicies: []trustpolicy.OCITrustPolicy{{Name: "everything", SignatureVerification: trustpolicy.SignatureVerification{VerificationLevel: "audit"},
				TrustStores: every, TrustedIdentities: []string{"*"}, RegistryScopes: []string{"*"}}}}
			vopts.PluginManager = nil
			var dv notation.Verifier
			dv, err = verifier.NewWithOptions(doc, lts, pm, vopts)
			if err == nil {
				v = dv.(interface {
					notation.Verifier
					notation.BlobVerifier
				})
			}
			r.Event("verifiers-from-the-deprecated-constructor")
		} else {
			v, err = verifier.NewVerifierWithOptions(lts, vopts)
		}
		if err != nil {
			panic(err)
		}
		applicable := func(repo string) *trustpolicy.OCITrustPolicy {
			var wild *trustpolicy.OCITrustPolicy
			for i := range msts {
				for _, s := range msts[i].RegistryScopes {
					if s == repo {
						return &msts[i]
					}
					if s == "*" {
						wild = &msts[i]
					}
				}
			}
			return wild
		}
		// ---- a sequence of verifications through the SAME verifier
		steps := 6 + rng.Intn(5)
		var trace []string
		for step := 0; step < steps; step++ {
			f := lib.Formats[rng.Intn(2)]
			sc := []string{"notary.x509", "notary.x509.signingAuthority"}[rng.Intn(2)]
			repo := []string{"reg.io/a", "reg.io/b", "reg.io/c", "REG.IO/a", "Reg.io/b"}[rng.Intn(5)] // (host spelled in another case: another repository string)
			st := applicable(repo)
			lts.calls = nil
			if rng.Intn(6) == 0 {
				// blob interface with a policy name no statement carries: refused, and no store may be touched
				name := []string{"unknown", "named-statemen", "Named-Statement", "global-statement "}[rng.Intn(4)]
				bout, berr := v.VerifyBlob(ctx, func(alg digest.Algorithm) (ocispec.Descriptor, error) { return blobDesc, nil }, blobSig, notation.BlobVerifierVerifyOptions{SignatureMediaType: lib.MediaJWS, TrustPolicyName: name})
				r.Eval(fmt.Sprintf("%d/%d/blob", ci, step))
				r.Event("blob-unknown-name-steps")
				var noPol notation.ErrorNoApplicableTrustPolicy
				if berr == nil || !errors.As(berr, &noPol) || bout != nil || len(lts.calls) > 0 {
					r.Violation(map[string]string{"kind": "trust-from-other-statement", "scheme": "blob"}, fmt.Sprintf("VerifyBlob with the unknown policy name %q: err=%v, stores consulted %v (stores listed only by other statements must never confer trust)", name, berr, lts.calls), map[string]any{"blob_document": bdoc, "stores": stores})
				}
				trace = append(trace, fmt.Sprintf("VerifyBlob(name=%q) -> calls=%v err=%v", name, lts.calls, berr != nil))
				continue
			}
			if rng.Intn(5) == 0 {
				// the caller looks the applicable statement up in the document and scribbles over what it was handed
				// (it is documented to be a private copy): later verifications must not notice
				if p, err := doc.GetApplicableTrustPolicy(repo + "@" + desc.Digest.String()); err == nil && p != nil {
					for k := range p.TrustStores {
						p.TrustStores[k] = types[rng.Intn(3)] + ":" + names[rng.Intn(3)]
					}
					for k := range p.TrustedIdentities {
						p.TrustedIdentities[k] = "x509.subject:C=ZZ,ST=ZZ,O=Scribble"
					}
					trace = append(trace, "caller scribbled over the statement returned by GetApplicableTrustPolicy("+repo+")")
					r.Event("scribbled-statement-copies")
				}
			}
			sigKey := f + "|" + sc
			if rng.Intn(4) == 0 {
				sigKey += "|plugin"
			}
			out, verr := v.Verify(ctx, desc, sigs[sigKey], notation.VerifierVerifyOptions{ArtifactReference: repo + "@" + desc.Digest.String(), SignatureMediaType: f})
			calls := append([]string(nil), lts.calls...)
			trace = append(trace, fmt.Sprintf("Verify(%s, %s, %s) -> calls=%v err=%v", sc, f, repo, calls, verr != nil))
			wit := map[string]any{"stores": stores, "document": doc, "trace": trace}
			if st == nil {
				r.Eval("")
				if out != nil || verr == nil {
					r.Violation(map[string]string{"kind": "no-statement"}, "verification proceeded although no statement applies", wit)
				}
				continue
			}
			T := "ca"
			if sc != "notary.x509" {
				T = "signingAuthority"
			}
			// model
			var listed []string
			seen := map[string]bool{}
			for _, ref := range st.TrustStores {
				t, nm, _ := strings.Cut(ref, ":")
				if t == T && !seen[ref] {
					seen[ref] = true
					listed = append(listed, nm)
				}
			}
			allLoad := true
			trusted := map[string]bool{}
			for _, nm := range listed {
				s := find(T, nm)
				if !loadable(s) {
					allLoad = false
					continue
				}
				for _, c := range s.Certs {
					trusted[c] = true
				}
			}
			wantPass := allLoad && len(listed) > 0 && (trusted["root"] || trusted["inter"] || trusted["leaf"])
			key := ""
			if len(listed) > 0 {
				key = fmt.Sprintf("%d/%d", ci, step)
			}
			r.Eval(key)
			if out == nil {
				r.Violation(map[string]string{"kind": "nil-outcome"}, "nil outcome although a statement applies", wit)
				continue
			}
			var auth *notation.ValidationResult
			for _, res := range out.VerificationResults {
				if res.Type == trustpolicy.TypeAuthenticity {
					auth = res
				}
			}
			if auth == nil {
				r.Violation(map[string]string{"kind": "no-authenticity-result"}, "no authenticity result", wit)
				continue
			}
			pass := auth.Error == nil
			sigm := func(kind string) map[string]string {
				return map[string]string{"kind": kind, "scheme": sc, "step": fmt.Sprint(step > 0)}
			}
			wit["applicable_statement"], wit["required_type"], wit["listed_of_required_type"], wit["model_pass"] = st.Name, T, listed, wantPass
			wit["authenticity_error"] = fmt.Sprint(auth.Error)
			if pass {
				r.Event("authenticity-pass")
			} else {
				r.Event("authenticity-fail")
			}
			switch {
			case pass && !wantPass:
				why := "no certificate of the chain is held in a listed store of type " + T
				if !allLoad {
					why = "a listed store of type " + T + " cannot be loaded"
				}
				if len(listed) == 0 {
					why = "the applicable statement lists no store of type " + T
				}
				r.Violation(sigm("trust-without-anchor"), fmt.Sprintf("authenticity passed for a %s signature under statement %s although %s", sc, st.Name, why), wit)
			case !pass && wantPass:
				r.Event("completeness:model-pass-library-fail")
				r.Sample("model pass, library fail", wit)
			}
			if !pass && !audit && verr == nil {
				r.Violation(sigm("decision-vs-result"), "Verify succeeded under "+levelName+" (authenticity enforced) although authenticity failed", wit)
			}
			if wantAction := map[bool]trustpolicy.ValidationAction{true: trustpolicy.ActionLog, false: trustpolicy.ActionEnforce}[audit]; auth.Action != wantAction {
				r.Violation(sigm("authenticity-result-action"), fmt.Sprintf("the authenticity result carries action %q, the level %s assigns %q", auth.Action, levelName, wantAction), wit)
			}
			// call-log monitor
			allowed := map[string]bool{}
			for _, nm := range listed {
				allowed[T+":"+nm] = true
			}
			sort.Strings(calls)
			for _, c := range calls {
				if !allowed[c] {
					r.Violation(sigm("store-consulted"), fmt.Sprintf("GetCertificates(%s) was called for a %s signature under statement %s, which lists %v of the required type %s", c, sc, st.Name, listed, T), wit)
				}
			}
			if wantPass {
				for _, nm := range listed {
					found := false
					for _, c := range calls {
						if c == T+":"+nm {
							found = true
						}
					}
					if !found && pass {
						r.Violation(sigm("store-not-consulted"), fmt.Sprintf("authenticity passed without loading the listed store %s:%s (trust taken from elsewhere)", T, nm), wit)
					}
				}
			}
		}
		// ---- a store NAME that walks into a store of another type ("ca:../tsa/s1"): either the statement is refused, or
		// authenticity fails - certificates of another type's store must not confer trust by way of the name
		if ci%3 == 0 {
			for _, o := range stores {
				if !o.Exists || o.LinkTo != "" || !loadable(&o) {
					continue
				}
				holdsChain := false
				for _, c := range o.Certs {
					holdsChain = holdsChain || c == "root" || c == "inter"
				}
				if !holdsChain {
					continue
				}
				for _, T := range []string{"ca", "signingAuthority"} {
					if T == o.Type {
						continue
					}
					for _, nm := range []string{"../" + o.Type + "/" + o.Name, "x/../../" + o.Type + "/" + o.Name, o.Name + "/../../" + o.Type + "/" + o.Name} {
						d2 := &trustpolicy.OCIDocument{Version: "1.0", TrustPolicies: []trustpolicy.OCITrustPolicy{{Name: "walk", SignatureVerification: trustpolicy.SignatureVerification{VerificationLevel: "audit"},
							TrustStores: []string{T + ":" + nm}, TrustedIdentities: []string{"*"}, RegistryScopes: []string{"*"}}}}
						r.Event("store-name-walks")
						v2, err := verifier.NewVerifierWithOptions(truststore.NewX509TrustStore(dir.NewSysFS(base)), verifier.VerifierOptions{OCITrustPolicy: d2, RevocationCodeSigningValidator: lib.OKRev{}, RevocationTimestampingValidator: lib.OKRev{}})
						if err != nil {
							continue // refused at construction
						}
						sc := map[string]string{"ca": "notary.x509", "signingAuthority": "notary.x509.signingAuthority"}[T]
						out, _ := v2.Verify(ctx, desc, sigs[lib.MediaJWS+"|"+sc], notation.VerifierVerifyOptions{ArtifactReference: "reg.io/a@" + desc.Digest.String(), SignatureMediaType: lib.MediaJWS})
						if out != nil {
							for _, res := range out.VerificationResults {
								if res.Type == trustpolicy.TypeAuthenticity && res.Error == nil {
									r.Violation(map[string]string{"kind": "trust-via-store-name", "scheme": sc}, fmt.Sprintf("authenticity passed for a %s signature under a statement listing %q: the certificates come from the %s store %q", sc, T+":"+nm, o.Type, o.Name), map[string]any{"stores": stores})
								}
							}
						}
					}
				}
				break
			}
		}
		if ci < 2 {
			r.Sample("configuration", map[string]any{"stores": stores, "trace": trace})
		}
	}, r.PanicViolation("verifier.Verify"))
	r.RequireAtLeast("authenticity-pass", int64(n/4))
	r.RequireAtLeast("authenticity-fail", int64(n))
	r.Finish()
}
