// C10 — registry verification stops at the first good signature, within the limit.
//
// Exhaustive execution of notation.Verify over every listing of up to 5 (quick) /
// 6 (thorough) signatures x every paging x limits x reference kinds x skip, with
// an instrumented repository and verifier. Oracles: the loop model of DESIGN.md
// appendix C (success iff ...), result monitor, and a trace monitor over the call
// log (nothing fetched/evaluated after the first good signature, never beyond N,
// nothing at all under skip). A sample is re-run with the real verifier and
// real signatures.
package main

import (
	"context"
	"errors"
	"fmt"
	"reflect"
	"strings"
	"sync"
	"time"

	"github.com/notaryproject/notation-go"
	"github.com/notaryproject/notation-go/registry"
	"github.com/notaryproject/notation-go/verifharness/lib"
	"github.com/notaryproject/notation-go/verifier"
	"github.com/notaryproject/notation-go/verifier/trustpolicy"
	"github.com/opencontainers/go-digest"
	ocispec "github.com/opencontainers/image-spec/specs-go/v1"
	"oras.land/oras-go/v2"
	"oras.land/oras-go/v2/registry/remote"
)

type call struct {
	op  string // resolve list fetch verify
	idx int
}

type srepo struct {
	resolved ocispec.Descriptor
	listing  string // v i u per signature
	pages    []int
	failAt   int // > 0: the listing itself fails instead of delivering page number failAt (counted from 0); 0 = never (a first-page failure is an empty listing with an error)
	wrap     bool
	swallow  bool     // the repository stops paging when the callback returns an error and returns nil itself
	blobs    [][]byte // real envelopes (real-verifier mode) or nil
	blobMT   []string
	mu       sync.Mutex
	log      []call
}

func (r *srepo) add(op string, i int) {
	r.mu.Lock()
	r.log = append(r.log, call{op, i})
	r.mu.Unlock()
}

// mtOf: the envelope formats alternate along the listing (scripted mode)
func mtOf(i int) string { return lib.Formats[i%2] }

const foreignEnvelopeType = "application/vnd.example.envelope.v1+json"

// mtAt: the media type entry i's envelope is fetched with ('f': an envelope of a format this library does not know)
func mtAt(listing string, i int) string {
	if i >= 0 && i < len(listing) && listing[i] == 'f' {
		return foreignEnvelopeType
	}
	return mtOf(i)
}

func sigDesc(i int) ocispec.Descriptor {
	// (listed descriptors carry the creation time of the signature manifest, as registries report it: oldest first here,
	// except that #2 is the newest of all - the listing order is the order of the listing, not of any annotation)
	created := time.Date(2026, 1, 1+i, 0, 0, 0, 0, time.UTC)
	if i == 2 {
		created = time.Date(2026, 6, 1, 0, 0, 0, 0, time.UTC)
	}
	return ocispec.Descriptor{MediaType: ocispec.MediaTypeImageManifest, Digest: digest.FromString(fmt.Sprint("sig", i)), Size: int64(100 + i),
		Annotations: map[string]string{ocispec.AnnotationCreated: created.Format(time.RFC3339)}}
}

// origin: the index of the entry whose descriptor entry i carries ('r' = the listing repeats the previous entry's descriptor)
func origin(listing string, i int) int {
	for i > 0 && listing[i] == 'r' {
		i--
	}
	return i
}

func (r *srepo) Resolve(ctx context.Context, ref string) (ocispec.Descriptor, error) {
	r.add("resolve", -1)
	return r.resolved, nil
}
func (r *srepo) ListSignatures(ctx context.Context, desc ocispec.Descriptor, fn func([]ocispec.Descriptor) error) error {
	r.add("list", -1)
	i := 0
	for pi, ps := range r.pages {
		if r.failAt > 0 && pi == r.failAt {
			return errors.New("registry: listing failed")
		}
		var page []ocispec.Descriptor
		for k := 0; k < ps; k++ {
			page = append(page, sigDesc(origin(r.listing, i)))
			i++
		}
		if err := fn(page); err != nil {
			if r.swallow {
				return nil // an iterator-style repository: the callback said stop, so it stops - and has nothing to report itself
			}
			if r.wrap {
				return fmt.Errorf("wrapped by repository: %w", err)
			}
			return err
		}
	}
	return nil
}
func (r *srepo) FetchSignatureBlob(ctx context.Context, d ocispec.Descriptor) ([]byte, ocispec.Descriptor, error) {
	for i := range r.listing {
		if sigDesc(i).Digest == d.Digest {
			r.add("fetch", i)
			if r.listing[i] == 'u' {
				return nil, ocispec.Descriptor{}, errors.New("unfetchable")
			}
			if r.listing[i] == 'e' { // fetched all right, and there is nothing in it (nil or empty)
				return [][]byte{nil, {}}[i%2], ocispec.Descriptor{MediaType: mtOf(i), Digest: digest.FromBytes(nil)}, nil
			}
			if r.blobs != nil {
				return r.blobs[i], ocispec.Descriptor{MediaType: r.blobMT[i], Digest: digest.FromBytes(r.blobs[i]), Size: int64(len(r.blobs[i]))}, nil
			}
			return []byte{r.listing[i], byte(i)}, ocispec.Descriptor{MediaType: mtAt(r.listing, i)}, nil
		}
	}
	r.add("fetch", 99)
	return nil, ocispec.Descriptor{}, errors.New("unknown manifest")
}
func (r *srepo) PushSignature(ctx context.Context, mt string, blob []byte, subject ocispec.Descriptor, ann map[string]string) (ocispec.Descriptor, ocispec.Descriptor, error) {
	return ocispec.Descriptor{}, ocispec.Descriptor{}, errors.New("not used")
}

var (
	callerUserMetadata = map[string]string{"required-by-the-caller": "yes"}
	callerPluginConfig = map[string]string{"plugin-setting": "value", "another": "x"}
)

// sver is the scripted verifier: blob[0]=='v' verifies, anything else fails with (outcome-with-error, error) like the real verifier.
type sver struct {
	skip     bool
	ownLevel bool // the skip level is reported as a value of the verifier's own making
	repo     *srepo
}

func (v *sver) Verify(ctx context.Context, desc ocispec.Descriptor, sig []byte, opts notation.VerifierVerifyOptions) (*notation.VerificationOutcome, error) {
	if len(sig) < 2 { // an empty envelope: it is the one fetched last; worthless like any other invalid signature
		idx := -1
		v.repo.mu.Lock()
		for _, c := range v.repo.log {
			if c.op == "fetch" {
				idx = c.idx
			}
		}
		v.repo.mu.Unlock()
		sig = []byte{'e', byte(idx)}
	}
	v.repo.add("verify", int(sig[1]))
	if opts.SignatureMediaType != mtAt(v.repo.listing, int(sig[1])) {
		v.repo.add("verify-with-wrong-media-type", int(sig[1]))
	}
	// the caller's options reach the verifier as given: the metadata requirement and the plugin configuration are two things
	if !reflect.DeepEqual(opts.UserMetadata, callerUserMetadata) || !reflect.DeepEqual(opts.PluginConfig, callerPluginConfig) || opts.ArtifactReference == "" {
		v.repo.add("verify-with-other-options", int(sig[1]))
	}
	out := &notation.VerificationOutcome{RawSignature: sig, VerificationLevel: trustpolicy.LevelStrict}
	if sig[0] == 'v' {
		return out, nil
	}
	out.Error = errors.New("scripted invalid signature")
	return out, out.Error
}
func (v *sver) SkipVerify(ctx context.Context, opts notation.VerifierVerifyOptions) (bool, *trustpolicy.VerificationLevel, error) {
	if v.skip && v.ownLevel {
		// a verifier that builds (copies, deserialises) its levels itself: a skip level is a skip level whoever made the value
		own := trustpolicy.VerificationLevel{Name: trustpolicy.LevelSkip.Name, Enforcement: map[trustpolicy.ValidationType]trustpolicy.ValidationAction{}}
		for k, a := range trustpolicy.LevelSkip.Enforcement {
			own.Enforcement[k] = a
		}
		return true, &own, nil
	}
	if v.skip {
		return true, trustpolicy.LevelSkip, nil
	}
	return false, trustpolicy.LevelStrict, nil
}

// rver wraps the real verifier to log Verify calls (index recovered from the blob identity).
type rver struct {
	inner interface {
		Verify(context.Context, ocispec.Descriptor, []byte, notation.VerifierVerifyOptions) (*notation.VerificationOutcome, error)
		SkipVerify(context.Context, notation.VerifierVerifyOptions) (bool, *trustpolicy.VerificationLevel, error)
	}
	repo *srepo
}

func (v *rver) Verify(ctx context.Context, desc ocispec.Descriptor, sig []byte, opts notation.VerifierVerifyOptions) (*notation.VerificationOutcome, error) {
	idx := 98
	for i, b := range v.repo.blobs {
		if b != nil && string(b) == string(sig) {
			idx = i
		}
	}
	v.repo.add("verify", idx)
	return v.inner.Verify(ctx, desc, sig, opts)
}
func (v *rver) SkipVerify(ctx context.Context, opts notation.VerifierVerifyOptions) (bool, *trustpolicy.VerificationLevel, error) {
	return v.inner.SkipVerify(ctx, opts)
}

// pagings returns every composition of n into positive page sizes, plus variants with an empty page inserted.
func pagings(n int, withEmpty bool) [][]int {
	var comps [][]int
	var rec func(rest int, cur []int)
	rec = func(rest int, cur []int) {
		if rest == 0 {
			comps = append(comps, append([]int(nil), cur...))
			return
		}
		for f := 1; f <= rest; f++ {
			rec(rest-f, append(cur, f))
		}
	}
	rec(n, nil)
	out := append([][]int(nil), comps...)
	if n == 0 {
		out = append(out, []int{0})
		return out
	}
	if withEmpty {
		for _, c := range comps {
			// an empty page in front, and one after the first page
			out = append(out, append([]int{0}, c...))
			mid := append([]int{c[0], 0}, c[1:]...)
			out = append(out, mid)
		}
	}
	return out
}

type scenario struct {
	listing string
	pages   []int
	N       int
	ref     string // tag digest mismatch none
	skip    bool
	wrap    bool
	real    bool
	failAt  int // see srepo.failAt
	swallow bool
}

// realCOSE signs a COSE envelope; the signing time is shifted by the index so that the bytes are distinct per position.
func realCOSE(signer *lib.Ent, artifact ocispec.Descriptor, i int) []byte {
	artifact.Annotations = map[string]string{"build": "42"}
	return lib.MustCoreSign(lib.SignSpec{Format: lib.MediaCOSE, Payload: lib.Payload(artifact), Signer: signer, SigningTime: time.Now().Add(-time.Duration(i+2) * time.Hour)})
}

func (s scenario) String() string {
	return fmt.Sprintf("listing=%q pages=%v N=%d ref=%s skip=%v wrap=%v real=%v listing-fails-at-page=%d swallow=%v", s.listing, s.pages, s.N, s.ref, s.skip, s.wrap, s.real, s.failAt, s.swallow)
}

func main() {
	r := lib.Start("C10", "exploration")
	maxLen := r.N(5, 6)
	r.Rule = fmt.Sprintf("every listing over {valid,invalid,unfetchable} of length 0..%d x every composition into pages (plus empty pages) x N in {-1,0,1..7} x reference {tag, matching digest, mismatching digest, none} x skip x repository returning the callback error verbatim/wrapped is executed against notation.Verify; a case is distinct by that tuple", maxLen)
	r.Rule += "; plus PRNG listings over the extended alphabet {valid, invalid, unfetchable, empty envelope, repeated entry}, listing failures part-way, and a verifier that reports skip with a level value of its own"
	r.Assumptions = []string{
		"scripted invalid signatures return (outcome with error, error) like the real verifier; nil-outcome failures are not scripted",
		"the real-verifier sample uses notation-core-go signed envelopes; a signature is 'valid' iff signed by the trusted chain over the resolved artifact",
	}
	artifact := lib.Desc(ocispec.MediaTypeImageManifest, []byte("c10 artifact"))
	// what the repository resolves carries annotations of its own (an OCI layout adds ref.name for a tag); what the
	// signatures cover carries the signer's user metadata instead: "the resolved artifact descriptor" is the former
	artifact.Annotations = map[string]string{"org.opencontainers.image.ref.name": "v1", "resolved-by": "repository"}
	signedView := artifact
	signedView.Annotations = map[string]string{"build": "42"}
	other := digest.FromString("other artifact")

	var listings []string
	var gen func(p string, n int)
	gen = func(p string, n int) {
		listings = append(listings, p)
		if n == 0 {
			return
		}
		for _, c := range "viu" {
			gen(p+string(c), n-1)
		}
	}
	gen("", maxLen)

	var scen []scenario
	for _, ls := range listings {
		for _, pg := range pagings(len(ls), true) {
			for _, N := range []int{-1, 0, 1, 2, 3, 4, 5, 6, 7} {
				for _, ref := range []string{"tag", "digest", "mismatch", "mismatch-sha512", "none"} {
					for _, skip := range []bool{false, true} {
						for _, wrap := range []bool{false, true} {
							if ref != "tag" && ref != "digest" && wrap {
								continue // the listing is never reached; wrap is irrelevant
							}
							scen = append(scen, scenario{listing: ls, pages: pg, N: N, ref: ref, skip: skip, wrap: wrap})
						}
					}
				}
			}
		}
	}
	// the listing itself fails part-way (a registry error on a later page): what was listed before still counts - a good
	// signature among it (within the limit, nothing unfetchable before it) is a success, anything else an error
	frng := r.Rand("listing-failures")
	for k := 0; k < r.N(20000, 300000); k++ {
		ls := listings[frng.Intn(len(listings))]
		pgs := pagings(len(ls), true)
		pg := pgs[frng.Intn(len(pgs))]
		if len(pg) < 2 {
			continue
		}
		scen = append(scen, scenario{listing: ls, pages: pg, N: 1 + frng.Intn(7), ref: []string{"tag", "digest"}[frng.Intn(2)], wrap: frng.Bool(), failAt: 1 + frng.Intn(len(pg)-1)})
	}
	// listings with an EMPTY envelope ('e': fetched without error, zero bytes - one more worthless signature) and with a
	// REPEATED entry ('r': the listing carries the previous entry's descriptor once more - one more listed signature)
	srng := r.Rand("special-listings")
	for k := 0; k < r.N(30000, 400000); k++ {
		n := 1 + srng.Intn(6)
		b := make([]byte, n)
		for i := range b {
			b[i] = "viuerierf"[srng.Intn(9)]
			if i == 0 && b[i] == 'r' {
				b[i] = 'i'
			}
		}
		pgs := pagings(n, true)
		scen = append(scen, scenario{listing: string(b), pages: pgs[srng.Intn(len(pgs))], N: 1 + srng.Intn(7), ref: []string{"tag", "digest", "tag", "digest", "tag", "none-with-port", "none-trailing-colon", "none-trailing-at"}[srng.Intn(8)], wrap: srng.Bool(), swallow: srng.Intn(3) == 0})
	}
	// real-verifier sample
	rng := r.Rand("real-sample")
	nReal := r.N(600, 200000)
	trusted := lib.SimpleChain("c10-good", 0, "EC-256", 0)
	untrusted := lib.SimpleChain("c10-bad", 0, "EC-256", 1)
	goodSig := lib.MustCoreSign(lib.SignSpec{Format: lib.MediaJWS, Payload: lib.Payload(signedView), Signer: trusted})
	badSig := lib.MustCoreSign(lib.SignSpec{Format: lib.MediaJWS, Payload: lib.Payload(signedView), Signer: untrusted})
	wrongArtifactSig := lib.MustCoreSign(lib.SignSpec{Format: lib.MediaJWS, Payload: lib.Payload(lib.Desc(ocispec.MediaTypeImageManifest, []byte("another"))), Signer: trusted})
	for k := 0; k < nReal; k++ {
		ls := listings[rng.Intn(len(listings))]
		pgs := pagings(len(ls), true)
		scen = append(scen, scenario{listing: ls, pages: pgs[rng.Intn(len(pgs))], N: rng.Intn(8), ref: []string{"digest", "digest", "digest", "mismatch", "mismatch-sha512"}[rng.Intn(5)] /* the real verifier needs a digest reference for policy selection */, skip: rng.Intn(6) == 0, wrap: rng.Bool(), real: true})
	}
	mkReal := func(skip bool, variant int) *rver {
		sv := trustpolicy.SignatureVerification{VerificationLevel: "strict"}
		stores, ids := []string{"ca:x"}, []string{"*"}
		if skip {
			sv, stores, ids = trustpolicy.SignatureVerification{VerificationLevel: "skip"}, nil, nil
			switch variant % 4 { // a skip statement stays a skip statement with a timestamp option or an empty override map
			case 1:
				sv.VerifyTimestamp = trustpolicy.OptionAlways
			case 2:
				sv.Override = map[trustpolicy.ValidationType]trustpolicy.ValidationAction{}
			case 3:
				sv.VerifyTimestamp = trustpolicy.OptionAfterCertExpiry
			}
		}
		v, err := verifier.NewVerifierWithOptions(lib.NewMemTS().Put("ca:x", trusted.Root().Cert), verifier.VerifierOptions{OCITrustPolicy: lib.OCIPolicy(sv, stores, ids), RevocationCodeSigningValidator: lib.OKRev{}, RevocationTimestampingValidator: lib.OKRev{}})
		if err != nil {
			panic(err)
		}
		return &rver{inner: v}
	}

	lib.Parallel(len(scen), 16, func(si int) {
		s := scen[si]
		n := len(s.listing)
		repo := &srepo{resolved: artifact, listing: s.listing, pages: s.pages, wrap: s.wrap, failAt: s.failAt, swallow: s.swallow}
		if s.failAt > 0 { // only the signatures of the pages delivered before the failure were ever listed
			n = 0
			for _, ps := range s.pages[:s.failAt] {
				n += ps
			}
			r.Event("listing-failure-scenarios")
		}
		var v notation.Verifier
		if s.real {
			repo.blobs = make([][]byte, n)
			repo.blobMT = make([]string, n)
			for i := range s.listing {
				repo.blobMT[i] = lib.MediaJWS
				cose := (i+si)%3 == 0 // formats are mixed along the listing
				switch s.listing[i] {
				case 'v':
					if cose {
						repo.blobs[i], repo.blobMT[i] = realCOSE(trusted, artifact, i), lib.MediaCOSE
					} else {
						repo.blobs[i] = append(append([]byte(nil), goodSig...), strings.Repeat(" ", i)...) // distinct bytes per index, same JSON
					}
				case 'i':
					switch {
					case cose:
						repo.blobs[i], repo.blobMT[i] = realCOSE(untrusted, artifact, i), lib.MediaCOSE
					case i%2 == 0:
						repo.blobs[i] = append(append([]byte(nil), badSig...), strings.Repeat(" ", i)...)
					default:
						repo.blobs[i] = append(append([]byte(nil), wrongArtifactSig...), strings.Repeat(" ", i)...)
					}
				}
			}
			rv := mkReal(s.skip, si)
			rv.repo = repo
			v = rv
		} else {
			v = &sver{skip: s.skip, ownLevel: si%2 == 1, repo: repo}
		}
		ref := "reg.example/repo"
		switch s.ref {
		case "tag":
			ref += ":v1"
		case "digest":
			ref += "@" + artifact.Digest.String()
		case "mismatch":
			ref += "@" + other.String()
		case "none-with-port": // a port is no tag: still a reference without tag or digest
			ref = "localhost:5000/repo"
		case "none-trailing-colon":
			ref += ":"
		case "none-trailing-at":
			ref += "@"
		case "mismatch-sha512":
			ref += "@" + digest.SHA512.FromString("c10 artifact").String() // another algorithm is still another digest
		}
		var vUserMeta, vPluginCfg map[string]string
		if !s.real { // (the real verifier would enforce the metadata requirement; the scripted one records what it is handed)
			vUserMeta, vPluginCfg = callerUserMetadata, callerPluginConfig
		}
		desc, outs, err := notation.Verify(context.Background(), v, repo, notation.VerifyOptions{ArtifactReference: ref, MaxSignatureAttempts: s.N, UserMetadata: vUserMeta, PluginConfig: vPluginCfg})

		// ---- model (appendix C)
		wantOK, istar := false, -1
		reachList := false
		switch {
		case s.N <= 0:
		case s.skip:
			wantOK = true
		case strings.HasPrefix(s.ref, "none"), s.ref == "mismatch", s.ref == "mismatch-sha512":
		default:
			reachList = true
			lim := n
			if s.N < lim {
				lim = s.N
			}
			for i := 0; i < lim; i++ {
				if s.listing[origin(s.listing, i)] == 'u' {
					break
				}
				if s.listing[origin(s.listing, i)] == 'v' { // ('i', 'e', 'f': fetched and worthless - one attempt each)
					istar, wantOK = i, true
					break
				}
			}
		}
		kind := "scripted"
		if s.real {
			kind = "real"
		}
		r.Eval(s.String())
		if err == nil {
			r.Event("success-" + kind)
		} else {
			r.Event("error-" + kind)
		}
		r.Sample(fmt.Sprintf("%s ok=%v", kind, err == nil), map[string]any{"scenario": s.String(), "calls": fmt.Sprint(repo.log), "error": fmt.Sprint(err)})
		wit := map[string]any{"scenario": s.String(), "calls": fmt.Sprint(repo.log), "error": fmt.Sprint(err), "model_success": wantOK, "model_first_good": istar}
		sig := func(k string) map[string]string {
			return map[string]string{"kind": k, "ref": s.ref, "skip": fmt.Sprint(s.skip), "verifier": kind}
		}
		if (err == nil) != wantOK {
			r.Violation(sig("success-iff"), fmt.Sprintf("notation.Verify success=%v, model says %v: %s", err == nil, wantOK, s), wit)
		}
		// ---- result monitor
		if err == nil && wantOK {
			if s.skip {
				if len(outs) != 1 || outs[0] == nil || outs[0].VerificationLevel == nil || outs[0].VerificationLevel.Name != "skip" {
					r.Violation(sig("skip-result"), "skip success without a single skip-level outcome", wit)
				}
			} else {
				if !reflect.DeepEqual(desc, artifact) {
					r.Violation(sig("returned-descriptor"), fmt.Sprintf("returned descriptor %+v is not the descriptor the repository resolved (%+v)", desc, artifact), wit)
				}
				okOutcome := len(outs) == 1 && outs[0] != nil && outs[0].Error == nil
				if okOutcome {
					if s.real {
						okOutcome = string(outs[0].RawSignature) == string(repo.blobs[istar])
					} else {
						okOutcome = len(outs[0].RawSignature) == 2 && int(outs[0].RawSignature[1]) == istar
					}
				}
				if !okOutcome {
					r.Violation(sig("returned-outcome"), "outcomes are not exactly the outcome of the first good signature", wit)
				}
			}
		}
		// ---- trace monitor
		var resolves, lists, verifies int
		fetched := map[int]bool{}
		lastFetched := -1
		for _, c := range repo.log {
			switch c.op {
			case "resolve":
				resolves++
			case "list":
				lists++
				if resolves == 0 {
					r.Violation(sig("trace-list-before-resolve"), "signatures listed before the reference was resolved", wit)
				}
			case "fetch":
				if fetched[c.idx] {
					r.Event("refetch")
				}
				fetched[c.idx] = true
				if c.idx < lastFetched {
					r.Violation(sig("trace-order"), "signatures fetched out of listing order", wit)
				}
				lastFetched = c.idx
				if c.idx >= s.N {
					r.Violation(sig("trace-fetch-beyond-limit"), fmt.Sprintf("signature #%d fetched although the limit is %d", c.idx+1, s.N), wit)
				}
				if wantOK && istar >= 0 && c.idx > istar {
					r.Violation(sig("trace-fetch-after-first-good"), fmt.Sprintf("signature #%d fetched after the first good signature #%d", c.idx+1, istar+1), wit)
				}
			case "verify-with-other-options":
				r.Violation(sig("trace-verify-options"), fmt.Sprintf("signature #%d was handed to the verifier with other options than the caller gave (user metadata / plugin configuration / reference)", c.idx+1), wit)
			case "verify-with-wrong-media-type":
				r.Violation(sig("trace-verify-media-type"), fmt.Sprintf("signature #%d was handed to the verifier with a media type other than the one its envelope was fetched with", c.idx+1), wit)
			case "verify":
				verifies++
				if !fetched[c.idx] {
					r.Violation(sig("trace-verify-unfetched"), "a signature was evaluated that was not fetched", wit)
				}
				if wantOK && istar >= 0 && c.idx > istar {
					r.Violation(sig("trace-verify-after-first-good"), fmt.Sprintf("signature #%d evaluated after the first good signature #%d", c.idx+1, istar+1), wit)
				}
			}
		}
		if s.N > 0 && (len(fetched) > s.N || verifies > s.N) {
			r.Violation(sig("trace-more-than-limit"), fmt.Sprintf("%d fetched / %d evaluated with limit %d", len(fetched), verifies, s.N), wit)
		}
		if s.skip && s.N > 0 && len(repo.log) > 0 {
			r.Violation(sig("trace-repository-touched-under-skip"), "repository accessed although the applicable level is skip", wit)
		}
		if !reachList && lists+len(fetched)+verifies > 0 {
			r.Violation(sig("trace-listing-without-valid-reference"), "signatures listed/fetched although the reference is unusable or the limit non-positive", wit)
		}
		if wantOK && !s.skip && err == nil {
			// every signature up to the first good one was fetched, fetchable ones evaluated
			for i := 0; i <= istar; i++ {
				if !fetched[i] && s.listing[i] != 'r' {
					r.Violation(sig("trace-skipped-signature"), fmt.Sprintf("signature #%d before the first good one was never fetched", i+1), wit)
				}
			}
		}
	}, r.PanicViolation("notation.Verify"))

	remotePaging(r)
	r.Exhaustive = true
	r.RequireAtLeast("success-scripted", 1000)
	r.RequireAtLeast("error-scripted", 1000)
	r.RequireAtLeast("success-real", 50)
	r.RequireAtLeast("error-real", 50)
	r.Finish()
}

// pver: a verifier that accepts envelopes starting with 'v' and records which signature (second byte) it was shown.
type pver struct {
	mu   sync.Mutex
	seen []int
}

func (v *pver) Verify(ctx context.Context, desc ocispec.Descriptor, sig []byte, opts notation.VerifierVerifyOptions) (*notation.VerificationOutcome, error) {
	v.mu.Lock()
	v.seen = append(v.seen, int(sig[1]))
	v.mu.Unlock()
	out := &notation.VerificationOutcome{RawSignature: sig, VerificationLevel: trustpolicy.LevelStrict}
	if sig[0] == 'v' {
		return out, nil
	}
	out.Error = errors.New("scripted invalid signature")
	return out, out.Error
}

// remotePaging: the same statement through the library's own registry client against a registry that pages its referrers
// listing (1-3 per page). Every page AFTER the one that holds the first good signature answers 500: the good signature is
// among the first N the repository lists and everything before it could be fetched, so verification succeeds - with
// exactly that signature's outcome, nothing after it evaluated. Without a good signature among the first N: an error.
func remotePaging(r *lib.Run) {
	ctx := context.Background()
	type sc struct {
		listing string
		page, n int
	}
	var scs []sc
	var gen func(prefix string, n int)
	gen = func(prefix string, n int) {
		if len(prefix) > 0 {
			for _, page := range []int{1, 2, 3} {
				for _, lim := range []int{1, 2, 3, 6} {
					scs = append(scs, sc{prefix, page, lim})
				}
			}
		}
		if len(prefix) < n {
			gen(prefix+"v", n)
			gen(prefix+"i", n)
		}
	}
	gen("", 4)
	if r.Quick() {
		var few []sc
		for i, s := range scs {
			if i%3 == 0 || strings.HasSuffix(s.listing, "iv") {
				few = append(few, s)
			}
		}
		scs = few
	}
	lib.Parallel(len(scs), 8, func(i int) {
		s := scs[i]
		g := strings.IndexByte(s.listing, 'v')
		wantOK := g >= 0 && g < s.n
		reg := lib.NewFakeRegistry(s.page)
		defer reg.Close()
		rr, err := remote.NewRepository(reg.Host() + "/test")
		if err != nil {
			panic(err)
		}
		rr.PlainHTTP = true
		rr.Client = reg.Client()
		repo := registry.NewRepository(rr)
		artifact, err := oras.PushBytes(ctx, rr, ocispec.MediaTypeImageManifest, []byte(fmt.Sprintf(`{"schemaVersion":2,"mediaType":%q,"config":{"mediaType":"application/vnd.oci.empty.v1+json","digest":"sha256:44136fa355b3678a1146ad16f7e8649e94fb4fc21fe77e8310c060f61caaff8a","size":2},"layers":[],"annotations":{"c10":"%d"}}`, ocispec.MediaTypeImageManifest, i)))
		if err != nil {
			r.Inconclusive("remote paging: cannot push the artifact: " + err.Error())
			return
		}
		for k := 0; k < len(s.listing); k++ {
			if _, _, err := repo.PushSignature(ctx, lib.Formats[k%2], []byte{s.listing[k], byte(k), 'x', byte(i), byte(i >> 8)}, artifact, map[string]string{"n": fmt.Sprint(k)}); err != nil {
				r.Inconclusive("remote paging: cannot push a signature: " + err.Error())
				return
			}
		}
		if wantOK {
			reg.FailReferrersFromPage = g/s.page + 2
		}
		before := reg.Count("GET", "/referrers/")
		v := &pver{}
		_, outs, verr := notation.Verify(ctx, v, repo, notation.VerifyOptions{ArtifactReference: reg.Host() + "/test@" + artifact.Digest.String(), MaxSignatureAttempts: s.n})
		pages := reg.Count("GET", "/referrers/") - before
		r.Eval(fmt.Sprintf("remote-paging|%s|%d|%d", s.listing, s.page, s.n))
		r.Event("verifications-over-a-paged-registry")
		wit := map[string]any{"listing": s.listing, "referrers_per_page": s.page, "limit": s.n, "first_good": g, "later_pages_fail_from": reg.FailReferrersFromPage, "referrers_requests": pages, "evaluated": v.seen, "error": fmt.Sprint(verr)}
		sig := func(kind string) map[string]string {
			return map[string]string{"kind": kind, "repo": "registry-client", "paged": fmt.Sprint(s.page)}
		}
		if (verr == nil) != wantOK {
			r.Violation(sig("decision"), fmt.Sprintf("listing %s in pages of %d, limit %d (pages after the one with the first good signature answer 500): success=%v, the statement says %v (err=%v)", s.listing, s.page, s.n, verr == nil, wantOK, verr), wit)
			return
		}
		if wantOK {
			r.Event("success-over-a-paged-registry")
			if len(outs) != 1 || outs[0] == nil || len(outs[0].RawSignature) < 2 || int(outs[0].RawSignature[1]) != g {
				r.Violation(sig("outcome"), fmt.Sprintf("listing %s: the outcome returned is not the one of the first good signature #%d", s.listing, g+1), wit)
			}
			if len(v.seen) != g+1 {
				r.Violation(sig("trace-verify-after-first-good"), fmt.Sprintf("listing %s: %d signatures evaluated, the first good one is #%d", s.listing, len(v.seen), g+1), wit)
			}
		} else if len(v.seen) > s.n {
			r.Violation(sig("trace-more-than-limit"), fmt.Sprintf("listing %s: %d evaluated with limit %d", s.listing, len(v.seen), s.n), wit)
		}
	}, r.PanicViolation("notation.Verify over the registry client"))
}
