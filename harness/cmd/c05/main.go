// C05 — revocation checking fails closed over the whole certificate chain.
//
// Exhaustive result vectors {OK, NonRevokable, Unknown, Revoked, out-of-range}^n
// for chains of n = 1..4 are returned by a scripted validator (both validator
// interfaces) to verifier.Verify; the oracle is the three-line aggregation of
// the statement plus an argument monitor on what the validator received.
package main

import (
	"bytes"
	"context"
	"crypto/x509"
	"crypto/x509/pkix"
	"errors"
	"fmt"
	"github.com/opencontainers/go-digest"
	"strings"
	"sync"
	"sync/atomic"
	"time"

	"github.com/notaryproject/notation-core-go/revocation"
	"github.com/notaryproject/notation-core-go/revocation/result"
	"github.com/notaryproject/notation-core-go/signature"
	"github.com/notaryproject/notation-go"
	"github.com/notaryproject/notation-go/verifharness/lib"
	"github.com/notaryproject/notation-go/verifier"
	"github.com/notaryproject/notation-go/verifier/trustpolicy"
	pf "github.com/notaryproject/notation-plugin-framework-go/plugin"
	ocispec "github.com/opencontainers/image-spec/specs-go/v1"
)

type vecRev struct {
	mu             sync.Mutex
	vec            []result.Result
	err            bool
	methods        int // variant of method annotations
	srvErr         bool
	calls          int
	chain          []*x509.Certificate
	st             time.Time
	errWithResults bool          // the validator error comes TOGETHER with a (complete, well-formed) result vector
	lastSrvOK      bool          // several per-server entries, the LAST of which says OK whatever the certificate-level verdict is (a second distribution point that answered)
	noSrv          bool          // verdicts only: no per-server results at all (a validator need not consult servers to know)
	shape          string        // "": one entry per certificate; nil-entry-first / nil-entry-last / empty / shorter / longer: a vector that does not report on every certificate
	delay          time.Duration // answer only after this long (a slow responder)
}

func (r *vecRev) ValidateContext(ctx context.Context, o revocation.ValidateContextOptions) ([]*result.CertRevocationResult, error) {
	r.mu.Lock()
	r.calls++
	r.chain = append([]*x509.Certificate(nil), o.CertChain...)
	r.st = o.AuthenticSigningTime
	r.mu.Unlock()
	if r.err && !r.errWithResults {
		return nil, errors.New("scripted validator failure")
	}
	out := make([]*result.CertRevocationResult, len(r.vec))
	for i, v := range r.vec {
		m := result.RevocationMethod((i + r.methods) % 4) // Unknown, OCSP, CRL, OCSPFallbackCRL
		sr := []*result.ServerResult{{Result: v, Server: "http://srv/" + fmt.Sprint(i), RevocationMethod: result.RevocationMethodOCSP}}
		if r.srvErr {
			sr[0].Error = errors.New("server error")
			sr = append(sr, &result.ServerResult{Result: v, Server: "http://crl/" + fmt.Sprint(i), RevocationMethod: result.RevocationMethodCRL, Error: errors.New("second server error")})
		}
		if r.lastSrvOK {
			sr = append(sr, &result.ServerResult{Result: v, Server: "http://crl-a/" + fmt.Sprint(i), RevocationMethod: result.RevocationMethodCRL},
				&result.ServerResult{Result: result.ResultOK, Server: "http://crl-b/" + fmt.Sprint(i), RevocationMethod: result.RevocationMethodCRL})
		}
		if r.noSrv {
			sr = nil
		}
		out[i] = &result.CertRevocationResult{Result: v, RevocationMethod: m, ServerResults: sr}
	}
	if r.delay > 0 {
		time.Sleep(r.delay)
	}
	switch r.shape {
	case "nil-entry-first":
		out[0] = nil
	case "nil-entry-last":
		out[len(out)-1] = nil
	case "empty":
		out = []*result.CertRevocationResult{}
	case "nil-slice":
		out = nil
	case "shorter":
		out = out[:len(out)-1]
	case "longer":
		out = append(out, &result.CertRevocationResult{Result: result.ResultOK})
	}
	if r.err {
		return out, errors.New("scripted validator failure (with results)")
	}
	return out, nil
}

type legacy struct{ r *vecRev }

func (l legacy) Validate(chain []*x509.Certificate, t time.Time) ([]*result.CertRevocationResult, error) {
	return l.r.ValidateContext(context.Background(), revocation.ValidateContextOptions{CertChain: chain, AuthenticSigningTime: t})
}

// dual is a deprecated-interface client whose type ALSO has the context-aware method (a wrapper embedding a newer
// validator, say). Supplied as RevocationClient, it is its Validate that speaks; ValidateContext would answer all-OK.
type dual struct {
	legacy
	ctxCalls *int32
}

func (d dual) ValidateContext(ctx context.Context, o revocation.ValidateContextOptions) ([]*result.CertRevocationResult, error) {
	atomic.AddInt32(d.ctxCalls, 1)
	return lib.OKRev{}.ValidateContext(ctx, o)
}

type cfg struct {
	Format, Scheme string
	ChainLen       int
	Vec            []result.Result
	VErr           bool
	Methods        int
	SrvErr         bool
	Legacy         bool
	L              lib.LevelMap
}

func main() {
	r := lib.Start("C05", "exploration")
	r.Rule = "every vector in {OK,NonRevokable,Unknown,Revoked,out-of-range}^n for chains n=1..4 x validator error x validator interface x revocation action {enforce,log,skip} x scheme (thorough: x format x method/server-error annotations x all 24 levels); distinct by the full tuple; non-trivial = revocation not skipped"
	r.Rule += "; plus validator answers that do not cover the chain (nil entry, empty, nil, one short, one long), both interfaces supplied at once, an empty-subject leaf, the same signature twice on one verifier with the verdict changing, and a slow deprecated client under an expiring context"
	r.Assumptions = []string{"vectors whose length differs from the chain, or nil entries, are outside the quantifier and not generated",
		"'fails as revoked and names a revoked certificate' is read from the revocation result's error text (the only observable): it must contain 'revoked', not 'unknown', and the subject of a certificate scripted as revoked"}
	vals := []result.Result{result.ResultOK, result.ResultNonRevokable, result.ResultUnknown, result.ResultRevoked, result.Result(9)}
	desc := lib.Desc(ocispec.MediaTypeImageManifest, []byte("c05"))
	payload := lib.Payload(desc)
	blobDesc := lib.Desc("application/octet-stream", []byte("c05 blob"))
	signTime := time.Now().Add(-48 * time.Hour).Truncate(time.Second)

	type signed struct {
		chain []*x509.Certificate
		raw   map[string][]byte // format|scheme
	}
	formats := []string{lib.MediaJWS}
	if r.Thorough() {
		formats = lib.Formats
	}
	schemes := []string{"notary.x509", "notary.x509.signingAuthority"}
	var sets []signed
	for n := 1; n <= 4; n++ {
		var leaf *lib.Ent
		if n == 1 {
			leaf = lib.Mint(nil, lib.CertSpec{CN: "c05-selfsigned", Kind: "codesign", NotBefore: time.Now().Add(-100 * 24 * time.Hour), NotAfter: time.Now().Add(100 * 24 * time.Hour)})
		} else {
			leaf = lib.SimpleChain(fmt.Sprintf("c05-n%d", n), n-2, "EC-256", 0)
		}
		s := signed{chain: leaf.Chain(), raw: map[string][]byte{}}
		if len(s.chain) != n {
			panic("chain length")
		}
		for _, f := range formats {
			for _, sc := range schemes {
				s.raw[f+"|"+sc] = lib.MustCoreSign(lib.SignSpec{Format: f, Scheme: signature.SigningScheme(sc), Payload: payload, Signer: leaf, SigningTime: signTime})
				s.raw[f+"|"+sc+"|blob"] = lib.MustCoreSign(lib.SignSpec{Format: f, Scheme: signature.SigningScheme(sc), Payload: lib.Payload(blobDesc), Signer: leaf, SigningTime: signTime})
				// the same, demanding a verification plugin (which will own trusted-identity verification only)
				s.raw[f+"|"+sc+"|plugin"] = lib.MustCoreSign(lib.SignSpec{Format: f, Scheme: signature.SigningScheme(sc), Payload: payload, Signer: leaf, SigningTime: signTime,
					Ext: []signature.Attribute{{Key: lib.HdrPlugin, Critical: true, Value: "plug"}}})
			}
		}
		sets = append(sets, s)
	}
	// the same chains of 2 and 3 with a leaf whose subject name is EMPTY (identified by other means; trusted identity "*")
	setsNoSubject := map[int]signed{}
	for n := 2; n <= 3; n++ {
		cur := lib.Mint(nil, lib.CertSpec{CN: "c05-ns-root", Kind: "ca", KeyIdx: 7, PathLen: 3})
		for k := 0; k < n-2; k++ {
			cur = lib.Mint(cur, lib.CertSpec{CN: fmt.Sprintf("c05-ns-int%d", k), Kind: "ca", KeyIdx: 6 - k, PathLen: 2 - k})
		}
		leaf := lib.Mint(cur, lib.CertSpec{Subject: &pkix.Name{}, Kind: "codesign", NotBefore: time.Now().Add(-500 * 24 * time.Hour), NotAfter: time.Now().Add(500 * 24 * time.Hour)})
		s := signed{chain: leaf.Chain(), raw: map[string][]byte{}}
		if len(s.chain) != n || s.chain[0].Subject.String() != "" {
			panic("chain with an empty-subject leaf")
		}
		for _, f := range formats {
			for _, sc := range schemes {
				s.raw[f+"|"+sc] = lib.MustCoreSign(lib.SignSpec{Format: f, Scheme: signature.SigningScheme(sc), Payload: payload, Signer: leaf, SigningTime: signTime})
				s.raw[f+"|"+sc+"|blob"] = lib.MustCoreSign(lib.SignSpec{Format: f, Scheme: signature.SigningScheme(sc), Payload: lib.Payload(blobDesc), Signer: leaf, SigningTime: signTime})
				s.raw[f+"|"+sc+"|plugin"] = lib.MustCoreSign(lib.SignSpec{Format: f, Scheme: signature.SigningScheme(sc), Payload: payload, Signer: leaf, SigningTime: signTime,
					Ext: []signature.Attribute{{Key: lib.HdrPlugin, Critical: true, Value: "plug"}}})
			}
		}
		setsNoSubject[n] = s
	}

	levels := []lib.LevelMap{{"enforce", "enforce", "enforce", "enforce"}, {"enforce", "enforce", "enforce", "log"}, {"enforce", "enforce", "enforce", "skip"}}
	if r.Thorough() {
		levels = lib.AllLevelMaps()
	}
	var cfgs []cfg
	for n := 1; n <= 4; n++ {
		total := 1
		for i := 0; i < n; i++ {
			total *= len(vals)
		}
		for code := 0; code < total; code++ {
			vec := make([]result.Result, n)
			c := code
			for i := range vec {
				vec[i] = vals[c%len(vals)]
				c /= len(vals)
			}
			for _, f := range formats {
				for _, sc := range schemes {
					for _, verr := range []bool{false, true} {
						for _, leg := range []bool{false, true} {
							for li, L := range levels {
								if r.Thorough() {
									if verr && li%4 != 0 {
										continue // validator error is independent of the vector; thinned in the 24-level product
									}
									for m := 0; m < 4; m++ {
										cfgs = append(cfgs, cfg{f, sc, n, vec, verr, m, m%2 == 1, leg, L})
									}
								} else {
									cfgs = append(cfgs, cfg{f, sc, n, vec, verr, code % 4, code%2 == 1, leg, L})
								}
							}
						}
					}
				}
			}
		}
	}

	lib.Parallel(len(cfgs), 16, func(i int) {
		c := cfgs[i]
		set := sets[c.ChainLen-1]
		if ns, ok := setsNoSubject[c.ChainLen]; ok && i%3 == 1 {
			set = ns
			r.Event("chains-whose-leaf-has-an-empty-subject")
		}
		sig := set.raw[c.Format+"|"+c.Scheme]
		// every fourth case: the signature names a plugin that owns ONLY trusted-identity verification, so native
		// revocation checking must be performed exactly as without a plugin
		tiPlugin := i%4 == 1
		if tiPlugin {
			sig = set.raw[c.Format+"|"+c.Scheme+"|plugin"]
		}
		storeType := "ca"
		if c.Scheme != "notary.x509" {
			storeType = "signingAuthority"
		}
		rv := &vecRev{vec: c.Vec, err: c.VErr, methods: c.Methods, srvErr: c.SrvErr, noSrv: i%5 == 2, lastSrvOK: i%5 == 4 || i%7 == 3, errWithResults: i%2 == 1}
		var dualCtxCalls int32
		// every seventh case goes through the blob interface: the same level (with its revocation override) from a blob statement
		blobPath := i%7 == 3 && !tiPlugin
		if blobPath {
			sig = set.raw[c.Format+"|"+c.Scheme+"|blob"]
		}
		opts := verifier.VerifierOptions{OCITrustPolicy: lib.OCIPolicy(c.L.SV(i), []string{storeType + ":x"}, []string{"*"}), RevocationTimestampingValidator: lib.OKRev{}}
		if blobPath {
			opts.BlobTrustPolicy = lib.BlobPolicy(c.L.SV(i), []string{storeType + ":x"}, []string{"*"})
		}
		if c.Legacy && i%3 == 0 {
			opts.RevocationClient = dual{legacy{rv}, &dualCtxCalls}
		} else if c.Legacy {
			opts.RevocationClient = legacy{rv}
		} else {
			opts.RevocationCodeSigningValidator = rv
			if i%5 == 4 {
				// a caller half-way through the migration still fills the deprecated field too (with a client that finds
				// nothing wrong): the context-aware validator it supplied is the one to consult
				allOK := &vecRev{vec: make([]result.Result, c.ChainLen)}
				for k := range allOK.vec {
					allOK.vec[k] = result.ResultOK
				}
				opts.RevocationClient = legacy{allOK}
				r.Event("both-interfaces-supplied")
			}
		}
		if tiPlugin {
			opts.PluginManager = lib.ScriptedManager{P: &lib.ScriptedPlugin{Caps: []pf.Capability{pf.CapabilityTrustedIdentityVerifier}}}
		}
		var v notation.Verifier
		var err error
		// the trust anchor is the root, an intermediate or the leaf itself: the validator still gets the whole chain
		anchor := set.chain[len(set.chain)-1-(i/3)%len(set.chain)]
		mts := lib.NewMemTS().Put(storeType+":x", anchor)
		if (i/6)%2 == 1 { // alternates per block of (interface x action) so that every combination meets both constructors
			// the deprecated constructor must select the same validator
			o2 := opts
			doc, pm := o2.OCITrustPolicy, o2.PluginManager
			o2.OCITrustPolicy, o2.PluginManager = nil, nil
			v, err = verifier.NewWithOptions(doc, mts, pm, o2)
		} else {
			v, err = verifier.NewVerifierWithOptions(mts, opts)
		}
		if err != nil {
			panic(err)
		}
		var out *notation.VerificationOutcome
		var verr error
		if blobPath {
			r.Event("blob-interface")
			out, verr = v.(notation.BlobVerifier).VerifyBlob(context.Background(), func(digest.Algorithm) (ocispec.Descriptor, error) { return blobDesc, nil }, sig, notation.BlobVerifierVerifyOptions{SignatureMediaType: c.Format})
		} else {
			out, verr = v.Verify(context.Background(), desc, sig, notation.VerifierVerifyOptions{ArtifactReference: "r.io/a@" + desc.Digest.String(), SignatureMediaType: c.Format})
		}
		key := fmt.Sprintf("%s|%s|%v|%v|%d|%v|%v|%s", c.Format, c.Scheme, c.Vec, c.VErr, c.Methods, c.SrvErr, c.Legacy, c.L)
		if c.L.Rev == "skip" {
			r.Eval("")
		} else {
			r.Eval(key)
		}
		wit := map[string]any{"config": c, "level": c.L.String(), "verify_error": fmt.Sprint(verr)}
		sigm := func(k string) map[string]string {
			return map[string]string{"kind": k, "scheme": c.Scheme, "legacy": fmt.Sprint(c.Legacy), "action": c.L.Rev}
		}
		if out == nil {
			r.Violation(sigm("nil-outcome"), "nil outcome", wit)
			return
		}
		var revRes *notation.ValidationResult
		for _, res := range out.VerificationResults {
			if res.Type == trustpolicy.TypeRevocation {
				revRes = res
			}
		}
		if c.L.Rev == "skip" {
			r.Event("skip")
			if rv.calls != 0 {
				r.Violation(sigm("validator-called-under-skip"), "validator consulted although revocation is skipped", wit)
			}
			if verr != nil {
				r.Violation(sigm("skip-rejected"), fmt.Sprintf("verification failed under skipped revocation: %v", verr), wit)
			}
			return
		}
		// argument monitor
		if dualCtxCalls != 0 {
			r.Violation(sigm("wrong-interface-consulted"), fmt.Sprintf("the value supplied as deprecated RevocationClient had its ValidateContext called %d times (its Validate %d times)", dualCtxCalls, rv.calls), wit)
			return
		}
		if rv.calls != 1 {
			r.Violation(sigm("validator-call-count"), fmt.Sprintf("validator consulted %d times", rv.calls), wit)
			return
		}
		sameChain := len(rv.chain) == len(set.chain)
		for j := 0; sameChain && j < len(set.chain); j++ {
			sameChain = bytes.Equal(rv.chain[j].Raw, set.chain[j].Raw)
		}
		if !sameChain {
			r.Violation(sigm("validator-chain"), fmt.Sprintf("validator received %d certificates, the signature's chain has %d (or order/bytes differ)", len(rv.chain), len(set.chain)), wit)
		}
		if c.Scheme == "notary.x509" && !rv.st.IsZero() {
			r.Violation(sigm("validator-signing-time"), fmt.Sprintf("validator received signing time %v for a notary.x509 signature (not authentic)", rv.st), wit)
		}
		if c.Scheme != "notary.x509" && !rv.st.Equal(signTime) {
			r.Violation(sigm("validator-signing-time"), fmt.Sprintf("validator received signing time %v, authentic signing time is %v", rv.st, signTime), wit)
		}
		// aggregation oracle
		allOK, anyRev := !c.VErr, false
		var revokedSubjects []string
		for j, x := range c.Vec {
			if x != result.ResultOK && x != result.ResultNonRevokable {
				allOK = false
			}
			if x == result.ResultRevoked && !c.VErr {
				anyRev = true
				revokedSubjects = append(revokedSubjects, set.chain[j].Subject.String())
			}
		}
		if revRes == nil {
			r.Violation(sigm("result-missing"), "no revocation result reported although revocation is not skipped", wit)
			return
		}
		passed := revRes.Error == nil
		if passed {
			r.Event("revocation-passed")
		} else {
			r.Event("revocation-failed")
		}
		r.Sample(fmt.Sprintf("pass=%v", passed), map[string]any{"config": key, "result_error": fmt.Sprint(revRes.Error)})
		if passed != allOK {
			r.Violation(sigm("aggregation"), fmt.Sprintf("revocation validation passed=%v for vector %v (validator error=%v); statement demands %v", passed, c.Vec, c.VErr, allOK), wit)
			return
		}
		if !passed {
			msg := revRes.Error.Error()
			if anyRev {
				r.Event("revoked-vectors")
				named := false
				for _, s := range revokedSubjects {
					if strings.Contains(msg, s) || strings.Contains(msg, fmt.Sprintf("%q", s)) {
						named = true
					}
				}
				if !strings.Contains(strings.ToLower(msg), "revoked") || !named {
					r.Violation(sigm("revoked-not-reported"), fmt.Sprintf("vector %v contains Revoked but the failure reads %q (must say revoked and name one of %v)", c.Vec, msg, revokedSubjects), wit)
				}
			} else if strings.Contains(strings.ToLower(msg), "is revoked") {
				r.Violation(sigm("claims-revoked"), fmt.Sprintf("vector %v has no Revoked entry but the failure reads %q", c.Vec, msg), wit)
			}
		}
		wantAccept := allOK || c.L.Rev == "log"
		if (verr == nil) != wantAccept {
			r.Violation(sigm("decision"), fmt.Sprintf("Verify accept=%v, expected %v (revocation pass=%v action=%s)", verr == nil, wantAccept, allOK, c.L.Rev), wit)
		}
		if revRes.Action != trustpolicy.ValidationAction(c.L.Rev) {
			r.Violation(sigm("action"), "revocation result carries the wrong action", wit)
		}
	}, r.PanicViolation("verifier.Verify"))
	// ---- validators that do not report on every certificate, histories on one verifier, and a slow deprecated client
	revOf := func(out *notation.VerificationOutcome) *notation.ValidationResult {
		if out == nil {
			return nil
		}
		for _, res := range out.VerificationResults {
			if res.Type == trustpolicy.TypeRevocation {
				return res
			}
		}
		return nil
	}
	for n := 1; n <= 4; n++ {
		set := sets[n-1]
		okVec := make([]result.Result, n)
		for k := range okVec {
			okVec[k] = result.ResultOK
		}
		for fi, f := range formats {
			for si, sc := range schemes {
				storeType := map[string]string{"notary.x509": "ca", "notary.x509.signingAuthority": "signingAuthority"}[sc]
				mts := lib.NewMemTS().Put(storeType+":x", set.chain[len(set.chain)-1])
				L := lib.LevelMap{Auth: "enforce", TS: "enforce", Exp: "enforce", Rev: "enforce"}
				for li, legacyIface := range []bool{false, true} {
					mk := func(rv *vecRev) notation.Verifier {
						opts := verifier.VerifierOptions{OCITrustPolicy: lib.OCIPolicy(L.SV(n+fi+si+li), []string{storeType + ":x"}, []string{"*"}), RevocationTimestampingValidator: lib.OKRev{}}
						if legacyIface {
							opts.RevocationClient = legacy{rv}
						} else {
							opts.RevocationCodeSigningValidator = rv
						}
						v, err := verifier.NewVerifierWithOptions(mts, opts)
						if err != nil {
							panic(err)
						}
						return v
					}
					vo := notation.VerifierVerifyOptions{ArtifactReference: "r.io/a@" + desc.Digest.String(), SignatureMediaType: f}
					sigm := func(k string) map[string]string {
						return map[string]string{"kind": k, "scheme": sc, "legacy": fmt.Sprint(legacyIface), "action": "enforce"}
					}
					// (a) every certificate reported OK - except that the vector does not cover every certificate
					for _, shape := range []string{"nil-entry-first", "nil-entry-last", "empty", "nil-slice", "shorter", "longer"} {
						if n == 1 && shape == "nil-entry-last" {
							continue
						}
						rv := &vecRev{vec: okVec, shape: shape}
						var out *notation.VerificationOutcome
						var verr error
						pv, stack := lib.Guard(func() { out, verr = mk(rv).Verify(context.Background(), desc, set.raw[f+"|"+sc], vo) })
						r.Eval(fmt.Sprintf("incomplete-vector|%d|%s|%s|%v|%s", n, f, sc, legacyIface, shape))
						r.Event("vectors-that-do-not-cover-every-certificate")
						wit := map[string]any{"chain_length": n, "vector_shape": shape, "verify_error": fmt.Sprint(verr)}
						if pv != nil {
							wit["stack"] = string(stack)
							r.Violation(map[string]string{"kind": "panic", "shape": shape}, fmt.Sprintf("verification panicked on a validator answer of shape %s for a chain of %d: %v", shape, n, pv), wit)
							continue
						}
						if res := revOf(out); res == nil || res.Error == nil || verr == nil {
							r.Violation(map[string]string{"kind": "aggregation", "scheme": sc, "legacy": fmt.Sprint(legacyIface), "action": "enforce", "shape": shape},
								fmt.Sprintf("the validator answered with a vector of shape %s for a chain of %d certificates (so it did not report every certificate OK); revocation passed=%v, Verify accepted=%v", shape, n, res != nil && res.Error == nil, verr == nil), wit)
						}
					}
					// (a') a certificate is reported revoked and the vector lacks an entry for another one: revoked it is
					if n >= 2 {
						for _, shape := range []string{"nil-entry-first", "nil-entry-last"} {
							vec := append([]result.Result(nil), okVec...)
							revokedAt := n - 1
							if shape == "nil-entry-last" {
								revokedAt = 0
							}
							vec[revokedAt] = result.ResultRevoked
							rv := &vecRev{vec: vec, shape: shape}
							var out *notation.VerificationOutcome
							pv, _ := lib.Guard(func() { out, _ = mk(rv).Verify(context.Background(), desc, set.raw[f+"|"+sc], vo) })
							r.Eval(fmt.Sprintf("revoked-beside-a-missing-entry|%d|%s|%s|%v|%s", n, f, sc, legacyIface, shape))
							r.Event("revoked-beside-a-missing-entry")
							res := revOf(out)
							if pv != nil || res == nil || res.Error == nil || !strings.Contains(strings.ToLower(res.Error.Error()), "revoked") || !strings.Contains(res.Error.Error(), set.chain[revokedAt].Subject.String()) {
								r.Violation(map[string]string{"kind": "revoked-not-reported", "scheme": sc, "legacy": fmt.Sprint(legacyIface), "action": "enforce", "shape": shape + "+revoked"},
									fmt.Sprintf("certificate #%d of %d is reported revoked and the entry for another one is missing: result %v (panic=%v); must fail as revoked and name %q", revokedAt+1, n, res, pv, set.chain[revokedAt].Subject.String()), nil)
							}
						}
					}
					// (b) ONE verifier, the same signature twice: the first time every certificate is OK, then the leaf is revoked
					rv := &vecRev{vec: append([]result.Result(nil), okVec...)}
					v := mk(rv)
					_, err1 := v.Verify(context.Background(), desc, set.raw[f+"|"+sc], vo)
					rv.vec[0] = result.ResultRevoked
					out2, err2 := v.Verify(context.Background(), desc, set.raw[f+"|"+sc], vo)
					r.Eval(fmt.Sprintf("same-verifier-twice|%d|%s|%s|%v", n, f, sc, legacyIface))
					r.Event("same-signature-twice-on-one-verifier")
					if err1 != nil {
						r.Violation(sigm("control-rejected"), fmt.Sprintf("all-OK vector rejected: %v", err1), nil)
					}
					if res := revOf(out2); rv.calls != 2 || res == nil || res.Error == nil || err2 == nil {
						r.Violation(sigm("second-verification-not-checked"), fmt.Sprintf("one verifier verified the same signature twice; the second time the validator reports the leaf revoked: validator consulted %d times in all, second revocation result passed=%v, accepted=%v", rv.calls, res != nil && res.Error == nil, err2 == nil), nil)
					}
				}
				// (c) the deprecated client answers slowly (revoked / unknown / an error) and the caller's context expires first:
				// whenever the verification returns, the revocation validation has not passed
				for vi, verdict := range []string{"revoked", "unknown", "error"} {
					if (n+fi+si+vi)%2 == 1 {
						continue
					}
					vec := append([]result.Result(nil), okVec...)
					rv := &vecRev{vec: vec, delay: 250 * time.Millisecond}
					switch verdict {
					case "revoked":
						vec[len(vec)-1] = result.ResultRevoked
					case "unknown":
						vec[0] = result.ResultUnknown
					default:
						rv.err = true
					}
					opts := verifier.VerifierOptions{OCITrustPolicy: lib.OCIPolicy(L.SV(n), []string{storeType + ":x"}, []string{"*"}), RevocationTimestampingValidator: lib.OKRev{}, RevocationClient: legacy{rv}}
					v, err := verifier.NewVerifierWithOptions(mts, opts)
					if err != nil {
						panic(err)
					}
					cctx, cancel := context.WithTimeout(context.Background(), 40*time.Millisecond)
					out, verr := v.Verify(cctx, desc, set.raw[f+"|"+sc], notation.VerifierVerifyOptions{ArtifactReference: "r.io/a@" + desc.Digest.String(), SignatureMediaType: f})
					cancel()
					r.Eval(fmt.Sprintf("slow-deprecated-client|%d|%s|%s|%s", n, f, sc, verdict))
					r.Event("slow-deprecated-client-under-an-expiring-context")
					// (only "does not pass" is judged here: a verifier that gives up on the slow client when the context ends and
					// fails the validation as inconclusive has not been told "revoked" yet - that is failing closed, too)
					if res := revOf(out); verr == nil || (res != nil && res.Error == nil) {
						r.Violation(map[string]string{"kind": "aggregation", "scheme": sc, "legacy": "true", "action": "enforce", "shape": "slow-client-" + verdict},
							fmt.Sprintf("the deprecated client answers %s after 250 ms, the caller's context expires after 40 ms: revocation passed=%v, accepted=%v", verdict, res != nil && res.Error == nil, verr == nil), nil)
					}
				}
			}
		}
	}
	r.Exhaustive = true
	r.RequireAtLeast("revocation-passed", 100)
	r.RequireAtLeast("revocation-failed", 100)
	r.RequireAtLeast("revoked-vectors", 100)
	countersigned(r)
	r.Finish()
}

// countersigned: notary.x509 signatures that carry a genuine RFC 3161 countersignature, over a chain that is valid today
// and over one whose leaf has run out since (the countersignature keeps the signature verifiable). Revocation checking
// is performed all the same: the validator is consulted once, without a signing time (the stamped time is the TSA's word,
// not an authentic signing time of this scheme), and its verdict decides as it does without a countersignature.
func countersigned(r *lib.Run) {
	defer func() {
		if p := recover(); p != nil {
			r.Violation(map[string]string{"kind": "panic", "phase": "countersigned"}, fmt.Sprintf("the library panicked: %v", p), nil)
		}
	}()
	ctx := context.Background()
	now := time.Now()
	day := 24 * time.Hour
	root := lib.Mint(nil, lib.CertSpec{CN: "c05-cs-root", Kind: "ca", KeyIdx: 7})
	tsaRoot := lib.Mint(nil, lib.CertSpec{CN: "c05-cs-tsa-root", Kind: "ca", KeyIdx: 6})
	tsaLeaf := lib.Mint(tsaRoot, lib.CertSpec{CN: "c05-cs-tsa", Kind: "tsa", KeyIdx: 2})
	desc := lib.Desc(ocispec.MediaTypeImageManifest, []byte("c05 countersigned"))
	for _, expired := range []bool{false, true} {
		spec := lib.CertSpec{CN: fmt.Sprintf("c05-cs-leaf-expired-%v", expired), Kind: "codesign", KeyIdx: 0, NotBefore: now.Add(-100 * day)}
		if expired {
			spec.NotAfter = now.Add(-5 * day)
		}
		leaf := lib.Mint(root, spec)
		for _, format := range lib.Formats {
			raw := lib.MustCoreSign(lib.SignSpec{Format: format, Payload: lib.Payload(desc), Signer: leaf, SigningTime: now.Add(-20 * day)})
			sigVal, alg := lib.SigValue(format, raw)
			stamped := lib.AttachToken(format, raw, (&lib.TSA{Key: tsaLeaf.Key, Chain: tsaLeaf.Chain()}).Token(lib.TokenSpec{Message: sigVal, Hash: alg.Hash(), GenTime: now.Add(-20 * day), AccuracyS: 1}))
			for _, status := range []result.Result{result.ResultOK, result.ResultRevoked, result.ResultUnknown} {
				for _, level := range []string{"strict", "permissive"} {
					for _, legacy := range []bool{false, true} {
						rv := &vecRev{vec: []result.Result{status, result.ResultOK}}
						sv := trustpolicy.SignatureVerification{VerificationLevel: level, VerifyTimestamp: []trustpolicy.TimestampOption{trustpolicy.OptionAlways, trustpolicy.OptionAfterCertExpiry}[len(format)%2]}
						opts := verifier.VerifierOptions{OCITrustPolicy: lib.OCIPolicy(sv, []string{"ca:x", "tsa:t"}, []string{"*"}), RevocationTimestampingValidator: lib.OKRev{}}
						if legacy {
							opts.RevocationClient = legacyClient{rv}
						} else {
							opts.RevocationCodeSigningValidator = rv
						}
						v, err := verifier.NewVerifierWithOptions(lib.NewMemTS().Put("ca:x", root.Cert).Put("tsa:t", tsaRoot.Cert), opts)
						if err != nil {
							panic(err)
						}
						_, verr := v.Verify(ctx, desc, stamped, notation.VerifierVerifyOptions{ArtifactReference: "r.io/a@" + desc.Digest.String(), SignatureMediaType: format})
						id := fmt.Sprintf("countersigned|%s|leaf-expired=%v|%v|%s|legacy=%v", format, expired, status, level, legacy)
						r.Eval(id)
						r.Event("countersigned-signatures")
						sigm := func(kind string) map[string]string {
							return map[string]string{"kind": kind, "phase": "countersigned", "leaf_expired": fmt.Sprint(expired)}
						}
						wit := map[string]any{"case": id, "error": fmt.Sprint(verr), "validator_calls": rv.calls, "signing_time_given": rv.st}
						if rv.calls != 1 {
							r.Violation(sigm("validator-calls"), fmt.Sprintf("%s: the revocation validator was consulted %d times (the level does not skip revocation, no plugin owns it)", id, rv.calls), wit)
							continue
						}
						if !rv.st.IsZero() {
							r.Violation(sigm("validator-signing-time"), fmt.Sprintf("%s: the validator received the signing time %v for a notary.x509 signature (the time a TSA stamped is not an authentic signing time of this scheme)", id, rv.st), wit)
						}
						mustFail := status != result.ResultOK && level == "strict"
						if mustFail && verr == nil {
							r.Violation(sigm("aggregation"), fmt.Sprintf("%s: verification succeeded although the leaf is reported %v and revocation is enforced", id, status), wit)
						}
						if status == result.ResultOK && verr != nil {
							r.Event("completeness:countersigned-ok-chain-rejected")
						}
					}
				}
			}
		}
	}
}

// legacyClient: the deprecated client interface over the same script.
type legacyClient struct{ rv *vecRev }

func (l legacyClient) Validate(certChain []*x509.Certificate, signingTime time.Time) ([]*result.CertRevocationResult, error) {
	return l.rv.ValidateContext(context.Background(), revocation.ValidateContextOptions{CertChain: certChain, AuthenticSigningTime: signingTime})
}
