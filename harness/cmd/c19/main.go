// C19 — stored signatures round-trip byte-for-byte and stay with their artifact.
//
// Push sequences run against the registry client over an on-disk OCI layout
// (also reopened) and an in-memory store, both behind a counting wrapper that
// records which descriptors were fetched. A model map subject -> set of pushed
// (manifest, media type, bytes, annotations) decides every listing and fetch;
// foreign referrers and hand-built hostile manifests are interleaved.
package main

import (
	"bytes"
	"context"
	"encoding/json"
	"errors"
	"fmt"
	"io"
	"os"
	"sort"
	"strings"
	"sync"

	"github.com/notaryproject/notation-go/registry"
	"github.com/notaryproject/notation-go/verifharness/lib"
	"github.com/opencontainers/go-digest"
	ocispec "github.com/opencontainers/image-spec/specs-go/v1"
	"oras.land/oras-go/v2"
	"oras.land/oras-go/v2/content/memory"
	"oras.land/oras-go/v2/content/oci"
	"oras.land/oras-go/v2/errdef"
	"oras.land/oras-go/v2/registry/remote"
)

const legacyArtifactManifest = "application/vnd.oci.artifact.manifest.v1+json"

var nearTypes = []string{"application/vnd.cncf.notary.Signature", "APPLICATION/VND.CNCF.NOTARY.SIGNATURE", "Application/vnd.cncf.notary.signature", "application/vnd.cncf.notary.signature.v2", "application/vnd.cncf.notary.signature ", "application/vnd.cncf.notary.signatur"}

// counting wraps a GraphTarget and counts Fetch calls per digest.
type counting struct {
	oras.GraphTarget
	mu      sync.Mutex
	fetched map[digest.Digest]int
}

func (c *counting) Fetch(ctx context.Context, d ocispec.Descriptor) (io.ReadCloser, error) {
	c.mu.Lock()
	c.fetched[d.Digest]++
	c.mu.Unlock()
	return c.GraphTarget.Fetch(ctx, d)
}
func (c *counting) count(d digest.Digest) int {
	c.mu.Lock()
	defer c.mu.Unlock()
	return c.fetched[d]
}

func pushJSON(ctx context.Context, s oras.GraphTarget, mediaType string, v any) ocispec.Descriptor {
	b, _ := json.Marshal(v)
	d := ocispec.Descriptor{MediaType: mediaType, Digest: digest.FromBytes(b), Size: int64(len(b))}
	if err := s.Push(ctx, d, bytes.NewReader(b)); err != nil && !errors.Is(err, errdef.ErrAlreadyExists) {
		panic(fmt.Sprintf("push %s: %v", mediaType, err))
	}
	return d
}

type pushed struct {
	Kind string
	MT   string
	Blob []byte
	Ann  map[string]string
	Man  ocispec.Descriptor
	// hostile manifests: listing them is fine, fetching must be refused without reading these blobs
	Refuse     bool
	BlobDigest []digest.Digest
}

// remoteRegistry: the same round trip against a REGISTRY (an in-process server speaking the distribution API with the
// referrers API, one to three referrers per page): the client's remote branches (manifests and blobs are different
// services there) are only walked this way. Signatures pushed through the client for two subject artifacts, foreign
// referrers (another artifact type, a near-miss type), and hostile notation-typed manifests pushed directly.
func remoteRegistry(ctx context.Context, r *lib.Run) {
	n := r.N(48, 2000)
	lib.Parallel(n, 8, func(iter int) {
		rng := r.Rand(fmt.Sprintf("remote-%d", iter))
		reg := lib.NewFakeRegistry(iter % 4)
		defer reg.Close()
		rr, err := remote.NewRepository(reg.Host() + "/test")
		if err != nil {
			panic(err)
		}
		rr.PlainHTTP = true
		rr.Client = reg.Client()
		repo := registry.NewRepository(rr)
		var subjects []ocispec.Descriptor
		for i := 0; i < 2; i++ {
			ld, err := oras.PushBytes(ctx, rr, "application/octet-stream", []byte(fmt.Sprint("remote layer", iter, i)))
			if err != nil {
				panic(err)
			}
			cfg, _ := oras.PushBytes(ctx, rr, ocispec.MediaTypeImageConfig, []byte(fmt.Sprintf(`{"remote":%d}`, i)))
			m := ocispec.Manifest{MediaType: ocispec.MediaTypeImageManifest, Config: cfg, Layers: []ocispec.Descriptor{ld}}
			m.SchemaVersion = 2
			subjects = append(subjects, pushJSON(ctx, rr, ocispec.MediaTypeImageManifest, m))
		}
		if err := rr.Tag(ctx, subjects[0], "v1"); err != nil {
			panic(err)
		}
		var trace []string
		wit := func() map[string]any {
			return map[string]any{"trace": trace, "referrers_per_page": iter % 4, "requests": reg.Requests()}
		}
		for _, ref := range []string{"v1", subjects[0].Digest.String(), subjects[1].Digest.String()} {
			want := subjects[0]
			if ref == subjects[1].Digest.String() {
				want = subjects[1]
			}
			got, err := repo.Resolve(ctx, ref)
			r.Eval(fmt.Sprintf("remote|%d|resolve|%s", iter, ref))
			if err != nil || got.Digest != want.Digest || got.Size != want.Size || got.MediaType != want.MediaType {
				r.Violation(map[string]string{"kind": "resolve", "store": "registry"}, fmt.Sprintf("Resolve(%.20s) = %+v (err=%v), the registry holds %+v", ref, got, err, want), wit())
			}
		}
		model := map[digest.Digest][]pushed{}
		notationCfg := ocispec.Descriptor{MediaType: registry.ArtifactTypeNotation, Digest: ocispec.DescriptorEmptyJSON.Digest, Size: 2}
		nOps := 3 + rng.Intn(8)
		for op := 0; op < nOps; op++ {
			si := rng.Intn(2)
			sub := subjects[si]
			switch kind := rng.Intn(9); {
			case kind <= 4:
				mt := []string{lib.MediaJWS, lib.MediaCOSE, lib.MediaJWS, lib.MediaCOSE, lib.MediaJWS, "application/vnd.example.signatureEnvelope.v1+json"}[rng.Intn(6)] // (an envelope media type is pushed and handed back as spelled)
				size := 1 + rng.Intn(5000)
				if rng.Intn(8) == 0 {
					size = 200000 + rng.Intn(900000)
				}
				blob := append([]byte(fmt.Sprintf("remote-envelope-%d-%d|", iter, op)), r.Rand(fmt.Sprintf("remote-blob-%d-%d", iter, op)).Bytes(size)...)
				ann := map[string]string{"io.cncf.notary.x509chain.thumbprint#S256": fmt.Sprintf(`["%d"]`, op), "k": fmt.Sprint(op)}
				if rng.Intn(4) == 0 {
					ann = nil
				} else if rng.Intn(3) == 0 {
					ann["org.example.reviewed"] = ""
				}
				bd, man, err := repo.PushSignature(ctx, mt, blob, sub, ann)
				trace = append(trace, fmt.Sprintf("PushSignature(%s, %d bytes, subject#%d) -> %v", mt, len(blob), si, err))
				if err != nil {
					r.Violation(map[string]string{"kind": "push", "store": "registry"}, "PushSignature failed: "+err.Error(), wit())
					continue
				}
				if bd.Digest != digest.FromBytes(blob) || bd.Size != int64(len(blob)) || bd.MediaType != mt {
					r.Violation(map[string]string{"kind": "push-descriptor", "store": "registry"}, fmt.Sprintf("PushSignature returned blob descriptor %+v for %d bytes of %s", bd, len(blob), mt), wit())
				}
				model[sub.Digest] = append(model[sub.Digest], pushed{Kind: "signature", MT: mt, Blob: blob, Ann: ann, Man: man})
				r.Event("signature-pushes-to-a-registry")
			case kind == 5:
				bd, _ := oras.PushBytes(ctx, rr, "application/spdx+json", []byte(fmt.Sprint("remote sbom", iter, op)))
				if _, err := oras.PackManifest(ctx, rr, oras.PackManifestVersion1_1, "application/vnd.example.sbom", oras.PackManifestOptions{Subject: &sub, Layers: []ocispec.Descriptor{bd}}); err != nil {
					panic(err)
				}
				trace = append(trace, fmt.Sprintf("foreign artifact type referrer of subject#%d", si))
			case kind == 6:
				variant := nearTypes[rng.Intn(len(nearTypes))]
				vcfg := ocispec.Descriptor{MediaType: variant, Digest: ocispec.DescriptorEmptyJSON.Digest, Size: 2}
				rr.Push(ctx, vcfg, bytes.NewReader([]byte("{}")))
				bd, _ := oras.PushBytes(ctx, rr, lib.MediaJWS, []byte(fmt.Sprint("remote near-type", iter, op)))
				nm := ocispec.Manifest{MediaType: ocispec.MediaTypeImageManifest, Config: vcfg, Layers: []ocispec.Descriptor{bd}, Subject: &sub}
				nm.SchemaVersion = 2
				pushJSON(ctx, rr, ocispec.MediaTypeImageManifest, nm)
				trace = append(trace, fmt.Sprintf("image manifest of the near-miss artifact type %q for subject#%d", variant, si))
			case kind == 7:
				// notation-typed manifest with TWO layers: may be listed, must not be handed out as an envelope
				rr.Push(ctx, notationCfg, bytes.NewReader([]byte("{}")))
				b1, _ := oras.PushBytes(ctx, rr, lib.MediaJWS, []byte(fmt.Sprint("remote two-layer a", iter, op)))
				b2, _ := oras.PushBytes(ctx, rr, lib.MediaJWS, []byte(fmt.Sprint("remote two-layer b", iter, op)))
				m := ocispec.Manifest{MediaType: ocispec.MediaTypeImageManifest, Config: notationCfg, Layers: []ocispec.Descriptor{b1, b2}, Subject: &sub}
				m.SchemaVersion = 2
				d := pushJSON(ctx, rr, ocispec.MediaTypeImageManifest, m)
				trace = append(trace, fmt.Sprintf("two-layer notation manifest for subject#%d", si))
				model[sub.Digest] = append(model[sub.Digest], pushed{Kind: "hostile-two-layers", Man: d, Refuse: true})
			default:
				// the single layer DECLARES more than 32 MiB (the blob behind it is small): refused before the blob is asked for
				rr.Push(ctx, notationCfg, bytes.NewReader([]byte("{}")))
				real, _ := oras.PushBytes(ctx, rr, lib.MediaJWS, []byte(fmt.Sprint("remote declared-big", iter, op)))
				lie := real
				lie.Size = 32*1024*1024 + 1
				m := ocispec.Manifest{MediaType: ocispec.MediaTypeImageManifest, Config: notationCfg, Layers: []ocispec.Descriptor{lie}, Subject: &sub}
				m.SchemaVersion = 2
				d := pushJSON(ctx, rr, ocispec.MediaTypeImageManifest, m)
				trace = append(trace, fmt.Sprintf("notation manifest whose layer declares 32 MiB + 1 for subject#%d", si))
				model[sub.Digest] = append(model[sub.Digest], pushed{Kind: "hostile-declared-blob-size", Man: d, Refuse: true, BlobDigest: []digest.Digest{real.Digest}})
			}
		}
		for si, sub := range subjects {
			var got []ocispec.Descriptor
			pages := 0
			err := repo.ListSignatures(ctx, sub, func(ds []ocispec.Descriptor) error { got = append(got, ds...); pages++; return nil })
			r.Eval(fmt.Sprintf("remote|%d|%d|list", iter, si))
			r.Event("listings-from-a-registry")
			r.EventN("listing-pages-from-a-registry", int64(pages))
			if err != nil {
				r.Violation(map[string]string{"kind": "list-error", "store": "registry"}, "ListSignatures failed: "+err.Error(), wit())
				continue
			}
			var gd, wd []string
			gotBy := map[digest.Digest]ocispec.Descriptor{}
			for _, d := range got {
				gd = append(gd, d.Digest.String())
				gotBy[d.Digest] = d
			}
			for _, p := range model[sub.Digest] {
				wd = append(wd, p.Man.Digest.String())
			}
			sort.Strings(gd)
			sort.Strings(wd)
			if fmt.Sprint(gd) != fmt.Sprint(wd) {
				w := wit()
				w["listed"], w["pushed"] = gd, wd
				r.Violation(map[string]string{"kind": "listing", "store": "registry"}, fmt.Sprintf("ListSignatures(subject#%d) over a registry returned %d manifests, %d notation-typed ones were pushed for it (sets differ)", si, len(gd), len(wd)), w)
				continue
			}
			for _, p := range model[sub.Digest] {
				md := gotBy[p.Man.Digest]
				if p.Refuse {
					before := 0
					for _, bd := range p.BlobDigest {
						before += reg.Count("GET", "/blobs/"+bd.String())
					}
					blob, _, ferr := repo.FetchSignatureBlob(ctx, md)
					r.Event("hostile-fetches-from-a-registry")
					if ferr == nil {
						r.Violation(map[string]string{"kind": "hostile-not-refused", "hostile": p.Kind, "store": "registry"}, fmt.Sprintf("a %s manifest was not refused (%d bytes returned)", p.Kind, len(blob)), wit())
					}
					after := 0
					for _, bd := range p.BlobDigest {
						after += reg.Count("GET", "/blobs/"+bd.String())
					}
					if after > before {
						r.Violation(map[string]string{"kind": "hostile-content-read", "hostile": p.Kind, "store": "registry"}, fmt.Sprintf("the blob of a %s manifest was requested from the registry before the refusal", p.Kind), wit())
					}
					continue
				}
				blob, bd, ferr := repo.FetchSignatureBlob(ctx, md)
				r.Event("fetches-from-a-registry")
				if ferr != nil || !bytes.Equal(blob, p.Blob) || bd.MediaType != p.MT || bd.Digest != digest.FromBytes(p.Blob) {
					r.Violation(map[string]string{"kind": "fetch", "store": "registry"}, fmt.Sprintf("FetchSignatureBlob over a registry: err=%v, %d bytes of type %s; pushed %d bytes of type %s", ferr, len(blob), bd.MediaType, len(p.Blob), p.MT), wit())
				}
				for k, v := range p.Ann {
					if got, present := md.Annotations[k]; !present || got != v {
						r.Violation(map[string]string{"kind": "annotations", "store": "registry"}, fmt.Sprintf("pushed annotation %s=%s is not on the listed manifest (%v)", k, v, md.Annotations), wit())
					}
				}
				for k := range md.Annotations {
					if _, ok := p.Ann[k]; !ok && k != ocispec.AnnotationCreated {
						r.Violation(map[string]string{"kind": "annotations", "store": "registry"}, fmt.Sprintf("listed manifest carries annotation %q that was not pushed with it (pushed %v)", k, p.Ann), wit())
					}
				}
			}
		}
		if iter < 2 {
			r.Sample("registry sequence", map[string]any{"trace": trace, "requests": reg.Requests()})
		}
	}, r.PanicViolation("registry client over a registry"))
	r.RequireAtLeast("fetches-from-a-registry", int64(n))
}

func main() {
	r := lib.Start("C19", "exploration")
	r.Rule = "PRNG push sequences (4-12 pushes over 3 subject artifacts; JWS/COSE media types; envelope sizes 1 B - 1 MiB, all distinct) interleaved with foreign referrers (other artifact type; image manifest of notation type whose LAYER is the subject, with another or no subject; subject differing only in media type / size; legacy artifact manifests with matching and non-matching subject) and hostile signature manifests (0 or 2 layers, layer declared > 32 MiB, manifest descriptor declared > 4 MiB, a real 32 MiB+1 envelope); each on an on-disk OCI layout (checked live and reopened) and on an in-memory store; distinct by (sequence, subject, observer); non-trivial = every listing / fetch"
	r.Rule += "; plus the same round trips over an in-process registry (distribution + referrers API, 0-3 referrers per page), near-miss artifact types, oversized legacy manifests, under-declared blob sizes, a custom envelope media type, a large index above the subject"
	r.Assumptions = []string{"oras adds org.opencontainers.image.created to manifests: annotations are compared as pushed ⊆ listed with extras limited to that key",
		"a refusal to open or list a layout that contains an inconsistent hostile manifest is a refusal, not a wrong listing; byte-identical re-pushes are idempotent (the model is a set)"}
	ctx := context.Background()
	n := r.N(600, 20000)
	lib.Parallel(n, 16, func(iter int) {
		rng := r.Rand(fmt.Sprintf("seq-%d", iter))
		onDisk := iter%2 == 0
		var inner oras.GraphTarget
		dir := ""
		if onDisk {
			dir = lib.TempDir("c19")
			defer os.RemoveAll(dir)
			st, err := oci.New(dir)
			if err != nil {
				panic(err)
			}
			inner = st
		} else {
			inner = memory.New()
		}
		store := &counting{GraphTarget: inner, fetched: map[digest.Digest]int{}}
		repo := registry.NewRepository(store)
		var subjects []ocispec.Descriptor
		for i := 0; i < 3; i++ {
			layer := []byte(fmt.Sprint("layer", iter, i))
			ld, err := oras.PushBytes(ctx, store, "application/octet-stream", layer)
			if err != nil {
				panic(err)
			}
			cfg, _ := oras.PushBytes(ctx, store, ocispec.MediaTypeImageConfig, []byte(fmt.Sprintf(`{"i":%d}`, i)))
			m := ocispec.Manifest{MediaType: ocispec.MediaTypeImageManifest, Config: cfg, Layers: []ocispec.Descriptor{ld}}
			m.SchemaVersion = 2
			subjects = append(subjects, pushJSON(ctx, store, ocispec.MediaTypeImageManifest, m))
		}
		notationCfg := ocispec.Descriptor{MediaType: registry.ArtifactTypeNotation, Digest: ocispec.DescriptorEmptyJSON.Digest, Size: 2}
		store.Push(ctx, notationCfg, bytes.NewReader([]byte("{}")))
		model := map[string][]pushed{}
		keyOf := func(d ocispec.Descriptor) string { return fmt.Sprintf("%s|%s|%d", d.MediaType, d.Digest, d.Size) }
		addModel := func(sub ocispec.Descriptor, p pushed) {
			for _, q := range model[keyOf(sub)] {
				if q.Man.Digest == p.Man.Digest {
					return
				}
			}
			model[keyOf(sub)] = append(model[keyOf(sub)], p)
		}
		var trace []string
		var nearMiss []ocispec.Descriptor
		nOps := 4 + rng.Intn(9)
		for op := 0; op < nOps; op++ {
			si := rng.Intn(3)
			sub := subjects[si]
			other := subjects[(si+1)%3]
			kind := rng.Intn(12)
			switch {
			case kind <= 4: // a real signature push through the client
				mt := []string{lib.MediaJWS, lib.MediaCOSE, lib.MediaJWS, lib.MediaCOSE, lib.MediaJWS, "application/vnd.example.signatureEnvelope.v1+json"}[rng.Intn(6)] // (an envelope media type is pushed and handed back as spelled)
				size := 1 + rng.Intn(5000)
				if rng.Intn(10) == 0 {
					size = 100000 + rng.Intn(900000)
				}
				blob := append([]byte(fmt.Sprintf("%d/%d:", iter, op)), rng.Bytes(size)...)
				ann := map[string]string{"io.cncf.notary.x509chain.thumbprint#S256": fmt.Sprintf("[\"%d\"]", op), "k": fmt.Sprint(op)}
				if rng.Intn(4) == 0 {
					ann = nil
				}
				if ann != nil && rng.Intn(3) == 0 {
					ann["org.example.reviewed"] = "" // an annotation with an empty value is an annotation that was pushed
				}
				if ann != nil && rng.Intn(4) == 0 {
					// the caller states the creation time itself, with a zone offset and fractions: an annotation like any other
					ann[ocispec.AnnotationCreated] = fmt.Sprintf("2023-03-14T16:10:%02d.250+08:00", op%60)
					r.Event("pushes-with-a-caller-stated-created-annotation")
				}
				pushSub := sub
				if rng.Intn(3) == 0 {
					// the subject descriptor as a tag resolution hands it out (annotated): the same artifact
					pushSub.Annotations = map[string]string{"org.opencontainers.image.ref.name": "v1", "resolved-by": "tag"}
					r.Event("pushes-for-an-annotated-subject-descriptor")
				}
				bd, man, err := repo.PushSignature(ctx, mt, blob, pushSub, ann)
				trace = append(trace, fmt.Sprintf("PushSignature(%s, %d bytes, subject#%d) -> %v", mt, len(blob), si, err))
				if err != nil {
					r.Violation(map[string]string{"kind": "push-failed"}, "PushSignature failed: "+err.Error(), map[string]any{"trace": trace})
					return
				}
				if bd.Digest != digest.FromBytes(blob) || bd.MediaType != mt || man.MediaType != ocispec.MediaTypeImageManifest {
					r.Violation(map[string]string{"kind": "push-descriptors"}, "PushSignature returned wrong descriptors", map[string]any{"trace": trace, "blob": bd, "manifest": man})
				}
				addModel(sub, pushed{Kind: "signature", MT: mt, Blob: blob, Ann: ann, Man: man})
				r.Event("signature-pushes")
			case kind == 5: // referrer of another artifact type
				bd, _ := oras.PushBytes(ctx, store, "application/spdx+json", []byte(fmt.Sprint("sbom", iter, op)))
				if _, err := oras.PackManifest(ctx, store, oras.PackManifestVersion1_1, "application/vnd.example.sbom", oras.PackManifestOptions{Subject: &sub, Layers: []ocispec.Descriptor{bd}}); err != nil {
					panic(err)
				}
				trace = append(trace, fmt.Sprintf("foreign artifact type referrer of subject#%d", si))
				if rng.Intn(3) == 0 {
					// an artifact type that is spelled ALMOST like the Notary one (other letter case, a suffix, a blank) is another type
					variant := nearTypes[rng.Intn(len(nearTypes))]
					vcfg := ocispec.Descriptor{MediaType: variant, Digest: ocispec.DescriptorEmptyJSON.Digest, Size: 2}
					store.Push(ctx, vcfg, bytes.NewReader([]byte("{}")))
					bd3, _ := oras.PushBytes(ctx, store, lib.MediaJWS, []byte(fmt.Sprint("near-type", iter, op)))
					nm := ocispec.Manifest{MediaType: ocispec.MediaTypeImageManifest, Config: vcfg, Layers: []ocispec.Descriptor{bd3}, Subject: &sub, ArtifactType: variant}
					nm.SchemaVersion = 2
					pushJSON(ctx, store, ocispec.MediaTypeImageManifest, nm)
					trace = append(trace, fmt.Sprintf("image manifest of the near-miss artifact type %q for subject#%d", variant, si))
					r.Event("referrers-of-a-near-miss-artifact-type")
				}
				if rng.Bool() {
					// what a generic OCI 1.1 tool attaches when told "--artifact-type application/vnd.cncf.notary.signature": the
					// artifactType FIELD names notation, the config is the empty one. A Notary signature manifest is recognised
					// by its config media type (that is what PushSignature writes); this is a referrer of another kind.
					bd2, _ := oras.PushBytes(ctx, store, lib.MediaJWS, []byte(fmt.Sprint("attached-by-a-generic-tool", iter, op)))
					if _, err := oras.PackManifest(ctx, store, oras.PackManifestVersion1_1, registry.ArtifactTypeNotation, oras.PackManifestOptions{Subject: &sub, Layers: []ocispec.Descriptor{bd2}}); err != nil {
						panic(err)
					}
					trace = append(trace, fmt.Sprintf("image manifest with artifactType FIELD = notation and the empty config for subject#%d", si))
					r.Event("artifact-type-field-referrers")
				}
			case kind == 6: // notation-typed image manifest whose LAYER is the subject; its subject is another artifact or absent
				m := ocispec.Manifest{MediaType: ocispec.MediaTypeImageManifest, Config: notationCfg, Layers: []ocispec.Descriptor{sub}, Annotations: map[string]string{"weird": fmt.Sprint(op)}}
				m.SchemaVersion = 2
				if rng.Bool() {
					m.Subject = &other
				}
				if rng.Intn(3) == 0 {
					// ... or its subject shares nothing but the DIGEST with the artifact it lists as layer (another media type):
					// it is a predecessor of the artifact in the graph and a signature manifest of that other descriptor only
					fake := sub
					fake.MediaType = []string{"application/vnd.docker.distribution.manifest.v2+json", ocispec.MediaTypeImageIndex}[rng.Intn(2)]
					m.Subject = nil
					mm := m
					mm.Subject = &fake
					ok := func() (ok bool) {
						defer func() {
							if recover() != nil {
								ok = false
							}
						}()
						d := pushJSON(ctx, store, ocispec.MediaTypeImageManifest, mm)
						nearMiss = append(nearMiss, fake)
						addModel(fake, pushed{Kind: "weird", Man: d})
						return true
					}()
					trace = append(trace, fmt.Sprintf("notation-typed manifest with subject#%d as LAYER whose subject shares only the digest with it (pushed=%v)", si, ok))
					r.Event("predecessors-whose-subject-shares-only-the-digest")
					break
				}
				d := pushJSON(ctx, store, ocispec.MediaTypeImageManifest, m)
				trace = append(trace, fmt.Sprintf("notation-typed manifest with subject#%d as LAYER, subject=%v", si, m.Subject != nil))
				if m.Subject != nil { // it is a (weird) signature manifest of `other` with the subject manifest as its envelope blob
					addModel(other, pushed{Kind: "weird", Man: d})
				}
			case kind == 7 && rng.Bool(): // a real PushSignature for a subject that differs from a stored artifact in exactly one field
				fake := sub
				if rng.Bool() {
					fake.MediaType = "application/vnd.docker.distribution.manifest.v2+json"
				} else {
					fake.Size++
				}
				blob := []byte(fmt.Sprintf("near-miss-envelope %d/%d", iter, op))
				_, man, err := repo.PushSignature(ctx, lib.MediaJWS, blob, fake, map[string]string{"near": "miss"})
				trace = append(trace, fmt.Sprintf("PushSignature for subject#%d with one field changed (%s, %d) -> %v", si, fake.MediaType, fake.Size, err))
				if err == nil {
					// it belongs to the descriptor it was pushed for, never to the stored artifact that merely shares the digest
					nearMiss = append(nearMiss, fake)
					addModel(fake, pushed{Kind: "signature", MT: lib.MediaJWS, Blob: blob, Ann: map[string]string{"near": "miss"}, Man: man})
				}
			case kind == 7: // subject descriptor differing in exactly one field
				fake := sub
				if rng.Bool() {
					fake.MediaType = ocispec.MediaTypeImageIndex
				} else {
					fake.Size++
				}
				bd, _ := oras.PushBytes(ctx, store, lib.MediaJWS, []byte(fmt.Sprint("near-miss", iter, op)))
				m := ocispec.Manifest{MediaType: ocispec.MediaTypeImageManifest, Config: notationCfg, Layers: []ocispec.Descriptor{bd}, Subject: &fake}
				m.SchemaVersion = 2
				func() {
					defer func() { recover() }() // a store may refuse a subject whose size contradicts stored content
					d := pushJSON(ctx, store, ocispec.MediaTypeImageManifest, m)
					// it is a signature manifest of exactly that near-miss descriptor (and of nothing else)
					nearMiss = append(nearMiss, fake)
					addModel(fake, pushed{Kind: "weird", Man: d})
				}()
				trace = append(trace, fmt.Sprintf("notation-typed manifest whose subject differs from subject#%d in one field", si))
			case kind == 8: // legacy artifact manifest: signature of sub (listed) or of nothing relevant
				blob := []byte(fmt.Sprint("legacy-envelope", iter, op))
				bd, _ := oras.PushBytes(ctx, store, lib.MediaCOSE, blob)
				am := map[string]any{"mediaType": legacyArtifactManifest, "artifactType": registry.ArtifactTypeNotation, "blobs": []ocispec.Descriptor{bd}, "subject": sub, "annotations": map[string]string{"legacy": fmt.Sprint(op)}}
				if rng.Intn(3) == 0 {
					am["artifactType"] = "application/vnd.example.other"
					if rng.Bool() {
						am["artifactType"] = nearTypes[rng.Intn(len(nearTypes))]
						r.Event("referrers-of-a-near-miss-artifact-type")
					}
				}
				if rng.Intn(2) == 0 {
					// members the (withdrawn) artifact-manifest spec does not know: other producers wrote them, readers ignore them
					am["schemaVersion"] = 2
					am["io.example.vendor-extension"] = map[string]any{"a": []int{1, 2}}
					r.Event("legacy-manifests-with-unknown-members")
				}
				d := pushJSON(ctx, store, legacyArtifactManifest, am)
				trace = append(trace, fmt.Sprintf("legacy artifact manifest of type %v for subject#%d", am["artifactType"], si))
				if am["artifactType"] == registry.ArtifactTypeNotation {
					addModel(sub, pushed{Kind: "legacy", MT: lib.MediaCOSE, Blob: blob, Ann: map[string]string{"legacy": fmt.Sprint(op)}, Man: d})
				}
				if rng.Intn(3) == 0 {
					// a legacy notation manifest that REFERS to the subject as its blob while its subject is another artifact, and
					// an image index that lists the subject: both are predecessors of the subject in the graph, neither is a signature of it
					am2 := map[string]any{"mediaType": legacyArtifactManifest, "artifactType": registry.ArtifactTypeNotation, "blobs": []ocispec.Descriptor{sub}, "subject": other, "annotations": map[string]string{"legacy-weird": fmt.Sprint(op)}}
					d2 := pushJSON(ctx, store, legacyArtifactManifest, am2)
					addModel(other, pushed{Kind: "weird", Man: d2})
					idx := ocispec.Index{MediaType: ocispec.MediaTypeImageIndex, Manifests: []ocispec.Descriptor{sub}, Annotations: map[string]string{"index": fmt.Sprint(iter, op)}}
					if iter%20 == 0 {
						// a multi-arch index of well over 4 MiB above the subject: it is no referrer, the manifest cap for referrers does not concern it
						idx.Annotations["pad"] = strings.Repeat("i", 4*1024*1024+4096)
						r.Event("large-index-above-the-subject")
					}
					idx.SchemaVersion = 2
					pushJSON(ctx, store, ocispec.MediaTypeImageIndex, idx)
					trace = append(trace, fmt.Sprintf("legacy notation manifest with subject#%d as BLOB (subject: the next artifact) and an image index listing subject#%d", si, si))
					r.Event("non-signature-predecessors")
				}
			case kind == 9: // hostile: 0 or 2 layers
				var layers []ocispec.Descriptor
				var bds []digest.Digest
				if rng.Bool() {
					for k := 0; k < 2; k++ {
						bd, _ := oras.PushBytes(ctx, store, lib.MediaJWS, []byte(fmt.Sprint("two-layers", iter, op, k)))
						layers = append(layers, bd)
						bds = append(bds, bd.Digest)
					}
					if ph := rng.Intn(4); ph < 2 {
						// one of the two layers is the empty placeholder of OCI 1.1 (`{}`): two layers are two layers
						empty, _ := oras.PushBytes(ctx, store, ocispec.MediaTypeEmptyJSON, []byte("{}"))
						layers[ph] = empty
						bds = []digest.Digest{layers[1-ph].Digest}
						r.Event("two-layers-one-of-them-the-empty-placeholder")
					}
				} else {
					layers = []ocispec.Descriptor{}
				}
				m := ocispec.Manifest{MediaType: ocispec.MediaTypeImageManifest, Config: notationCfg, Layers: layers, Subject: &sub}
				m.SchemaVersion = 2
				var doc any = m
				if len(layers) == 0 && rng.Bool() {
					// no layer - but a member of the OTHER manifest format ("blobs") that does carry one: still not a signature manifest
					smuggled, _ := oras.PushBytes(ctx, store, lib.MediaJWS, []byte(fmt.Sprint("smuggled-through-blobs-member", iter, op)))
					bds = append(bds, smuggled.Digest)
					mb, _ := json.Marshal(m)
					var mm map[string]any
					json.Unmarshal(mb, &mm)
					mm["layers"], mm["blobs"] = []any{}, []ocispec.Descriptor{smuggled}
					doc = mm
					r.Event("zero-layers-with-blobs-member")
				}
				d := pushJSON(ctx, store, ocispec.MediaTypeImageManifest, doc)
				trace = append(trace, fmt.Sprintf("hostile signature manifest with %d layers for subject#%d", len(layers), si))
				addModel(sub, pushed{Kind: "hostile-layer-count", Man: d, Refuse: true, BlobDigest: bds})
			case kind == 10: // hostile: the single layer declares more than 32 MiB
				small := []byte(fmt.Sprint("tiny blob with a huge declared size", iter, op))
				real, _ := oras.PushBytes(ctx, store, lib.MediaJWS, small)
				lie := real
				lie.Size = 32*1024*1024 + 1 + int64(rng.Intn(1000))
				under := rng.Intn(3) == 0
				if under {
					lie.Size = int64(len(small) / 2) // ... or FEWER bytes than the blob has: what comes back would not be what the descriptor describes
				}
				m := ocispec.Manifest{MediaType: ocispec.MediaTypeImageManifest, Config: notationCfg, Layers: []ocispec.Descriptor{lie}, Subject: &sub}
				m.SchemaVersion = 2
				d := pushJSON(ctx, store, ocispec.MediaTypeImageManifest, m)
				trace = append(trace, fmt.Sprintf("hostile signature manifest whose layer declares %d bytes (the blob has %d) for subject#%d", lie.Size, len(small), si))
				if under {
					addModel(sub, pushed{Kind: "hostile-under-declared-blob-size", Man: d, Refuse: true})
					r.Event("under-declared-blob-sizes")
				} else {
					addModel(sub, pushed{Kind: "hostile-declared-blob-size", Man: d, Refuse: true, BlobDigest: []digest.Digest{real.Digest}})
				}
			case kind == 11 && rng.Intn(3) == 0:
				// a one-layer signature manifest of another producer whose layer descriptor embeds a `data` member (image-spec
				// 1.1) - of the declared length, but NOT the content stored under the layer's digest: the envelope is the stored blob
				blob := []byte(fmt.Sprint("envelope stored under the digest of the layer ", iter, op))
				bd, _ := oras.PushBytes(ctx, store, lib.MediaJWS, blob)
				forged := bytes.Repeat([]byte("F"), len(blob))
				if rng.Bool() {
					forged = append([]byte(nil), blob...) // (or, honestly, the very bytes)
				}
				withData := bd
				withData.Data = forged
				m := ocispec.Manifest{MediaType: ocispec.MediaTypeImageManifest, Config: notationCfg, Layers: []ocispec.Descriptor{withData}, Subject: &sub, Annotations: map[string]string{"data": fmt.Sprint(op)}}
				m.SchemaVersion = 2
				d := pushJSON(ctx, store, ocispec.MediaTypeImageManifest, m)
				trace = append(trace, fmt.Sprintf("one-layer signature manifest whose layer embeds a data member for subject#%d", si))
				addModel(sub, pushed{Kind: "signature", MT: lib.MediaJWS, Blob: blob, Ann: map[string]string{"data": fmt.Sprint(op)}, Man: d})
				r.Event("one-layer-with-embedded-data")
			case kind == 11 && rng.Bool():
				// a hand-built signature manifest (exactly one layer) that also carries a member this format does not define
				// ("blobs", as the legacy format calls it): unknown members are ignored, the one layer is the envelope
				blob := []byte(fmt.Sprint("envelope of a manifest with an extension member ", iter, op))
				bd, _ := oras.PushBytes(ctx, store, lib.MediaCOSE, blob)
				decoy, _ := oras.PushBytes(ctx, store, lib.MediaJWS, []byte(fmt.Sprint("extension payload", iter, op)))
				m := ocispec.Manifest{MediaType: ocispec.MediaTypeImageManifest, Config: notationCfg, Layers: []ocispec.Descriptor{bd}, Subject: &sub, Annotations: map[string]string{"ext": fmt.Sprint(op)}}
				m.SchemaVersion = 2
				mb, _ := json.Marshal(m)
				var mm map[string]any
				json.Unmarshal(mb, &mm)
				mm["blobs"] = []ocispec.Descriptor{decoy}
				d := pushJSON(ctx, store, ocispec.MediaTypeImageManifest, mm)
				trace = append(trace, fmt.Sprintf("one-layer signature manifest with an extension member for subject#%d", si))
				addModel(sub, pushed{Kind: "signature", MT: lib.MediaCOSE, Blob: blob, Ann: map[string]string{"ext": fmt.Sprint(op)}, Man: d})
				r.Event("one-layer-with-extension-member")
			default:
				// re-push of an identical signature (idempotent)
				if ps := model[keyOf(sub)]; len(ps) > 0 && ps[0].Kind == "signature" {
					_, man, err := repo.PushSignature(ctx, ps[0].MT, ps[0].Blob, sub, ps[0].Ann)
					trace = append(trace, fmt.Sprintf("identical re-push for subject#%d -> %v", si, err))
					if err == nil {
						addModel(sub, pushed{Kind: "signature", MT: ps[0].MT, Blob: ps[0].Blob, Ann: ps[0].Ann, Man: man})
					}
				}
			}
		}
		// ---- observers
		observers := map[string]registry.Repository{"live": repo}
		if onDisk {
			st2, err := oci.New(dir)
			if err != nil {
				r.Event("reopen-refused")
			} else {
				observers["reopened"] = registry.NewRepository(&counting{GraphTarget: st2, fetched: map[digest.Digest]int{}})
			}
			if ro, err := registry.NewOCIRepository(dir, registry.RepositoryOptions{}); err == nil {
				observers["NewOCIRepository"] = ro
			}
		}
		type held struct {
			blob []byte
			want []byte
			what string
		}
		var heldResults []held
		for oname, ob := range observers {
			for si, sub := range append(append([]ocispec.Descriptor{}, subjects...), nearMiss...) {
				var got []ocispec.Descriptor
				listSub := sub
				if si%2 == 1 && si < len(subjects) {
					listSub.Annotations = map[string]string{"org.opencontainers.image.ref.name": "latest"} // (listed with an annotated descriptor of the same artifact)
				}
				err := ob.ListSignatures(ctx, listSub, func(ds []ocispec.Descriptor) error { got = append(got, ds...); return nil })
				r.Eval(fmt.Sprintf("%d|%d|%s", iter, si, oname))
				wit := map[string]any{"trace": trace, "observer": oname, "subject": si, "on_disk": onDisk}
				if err != nil {
					r.Violation(map[string]string{"kind": "list-error"}, "ListSignatures failed: "+err.Error(), wit)
					continue
				}
				var gd, wd []string
				gotBy := map[digest.Digest]ocispec.Descriptor{}
				for _, d := range got {
					gd = append(gd, d.Digest.String())
					gotBy[d.Digest] = d
				}
				for _, p := range model[keyOf(sub)] {
					wd = append(wd, p.Man.Digest.String())
				}
				sort.Strings(gd)
				sort.Strings(wd)
				r.Event("listings")
				if fmt.Sprint(gd) != fmt.Sprint(wd) {
					wit["listed"], wit["pushed"] = gd, wd
					r.Violation(map[string]string{"kind": "listing"}, fmt.Sprintf("ListSignatures(subject#%d) returned %d manifests, %d were pushed for it (sets differ)", si, len(gd), len(wd)), wit)
					continue
				}
				for _, p := range model[keyOf(sub)] {
					md := gotBy[p.Man.Digest]
					if p.Kind == "weird" {
						continue
					}
					if p.Refuse {
						blob, _, ferr := ob.FetchSignatureBlob(ctx, md)
						r.Event("hostile-fetches")
						if ferr == nil {
							r.Violation(map[string]string{"kind": "hostile-not-refused", "hostile": p.Kind}, fmt.Sprintf("a %s manifest was not refused (%d bytes returned)", p.Kind, len(blob)), wit)
						}
						if oname == "live" {
							for _, bd := range p.BlobDigest {
								if c := store.count(bd); c > 0 {
									r.Violation(map[string]string{"kind": "hostile-content-read", "hostile": p.Kind}, fmt.Sprintf("the blob of a %s manifest was fetched %d times before the refusal", p.Kind, c), wit)
								}
							}
						}
						continue
					}
					blob, bd, ferr := ob.FetchSignatureBlob(ctx, md)
					heldResults = append(heldResults, held{blob, p.Blob, fmt.Sprintf("%s observer, subject #%d", oname, si)})
					r.Event("fetches")
					if ferr != nil || !bytes.Equal(blob, p.Blob) || bd.MediaType != p.MT || bd.Digest != digest.FromBytes(p.Blob) {
						r.Violation(map[string]string{"kind": "fetch"}, fmt.Sprintf("FetchSignatureBlob: err=%v, %d bytes of type %s; pushed %d bytes of type %s", ferr, len(blob), bd.MediaType, len(p.Blob), p.MT), wit)
					}
					for k, v := range p.Ann {
						if got, present := md.Annotations[k]; !present || got != v {
							r.Violation(map[string]string{"kind": "annotations"}, fmt.Sprintf("pushed annotation %s=%s is not on the listed manifest (%v)", k, v, md.Annotations), wit)
						}
					}
					for k := range md.Annotations {
						if _, ok := p.Ann[k]; !ok && k != ocispec.AnnotationCreated {
							r.Violation(map[string]string{"kind": "annotations"}, fmt.Sprintf("listed manifest carries annotation %q that was not pushed with it (pushed %v)", k, p.Ann), wit)
						}
					}
				}
			}
		}
		// results of earlier fetches must still hold their own bytes after later fetches (no buffer reuse across calls)
		for _, h := range heldResults {
			if !bytes.Equal(h.blob, h.want) {
				r.Violation(map[string]string{"kind": "fetch", "why": "earlier-result-changed-by-later-fetch"}, fmt.Sprintf("an envelope fetched earlier (%s) no longer holds the bytes that were pushed after later fetches", h.what), map[string]any{"trace": trace})
				break
			}
		}
		// hostile: manifest descriptor declaring more than 4 MiB must be refused before the manifest is fetched
		for _, ps := range model {
			for _, p := range ps {
				if p.Kind != "signature" {
					continue
				}
				big := p.Man
				big.Size = 4*1024*1024 + 1
				before := store.count(p.Man.Digest)
				_, _, err := repo.FetchSignatureBlob(ctx, big)
				r.Event("hostile-fetches")
				if err == nil || store.count(p.Man.Digest) != before {
					r.Violation(map[string]string{"kind": "hostile-not-refused", "hostile": "declared-manifest-size"}, fmt.Sprintf("a manifest descriptor declaring %d bytes: err=%v, manifest fetched=%v", big.Size, err, store.count(p.Man.Digest) != before), map[string]any{"trace": trace})
				}
				wrongType := p.Man
				wrongType.MediaType = ocispec.MediaTypeImageIndex
				if _, _, err := repo.FetchSignatureBlob(ctx, wrongType); err == nil {
					r.Violation(map[string]string{"kind": "hostile-not-refused", "hostile": "manifest-media-type"}, "a descriptor of another manifest media type was accepted", nil)
				}
				break
			}
		}
		if iter < 2 {
			r.Sample("sequence", trace)
		}
	}, r.PanicViolation("registry client"))

	// a referrer whose MANIFEST really exceeds the 4 MiB cap, foreign or notation-typed, next to a good signature: whatever
	// the listing answers (an error, or the good signature alone), the oversized manifest's content is never read
	for _, typed := range []string{"foreign", "notation", "legacy-foreign", "legacy-notation"} {
		for _, where := range []string{"memory", "disk"} {
			var inner oras.GraphTarget = memory.New()
			if where == "disk" {
				dir := lib.TempDir("c19big")
				r.OnExit(func() { os.RemoveAll(dir) })
				st, err := oci.New(dir)
				if err != nil {
					panic(err)
				}
				inner = st
			}
			store := &counting{GraphTarget: inner, fetched: map[digest.Digest]int{}}
			repo := registry.NewRepository(store)
			sub, _ := oras.PushBytes(ctx, store, ocispec.MediaTypeImageManifest, []byte(`{"schemaVersion":2,"mediaType":"application/vnd.oci.image.manifest.v1+json","config":{"mediaType":"application/vnd.oci.empty.v1+json","digest":"sha256:44136fa355b3678a1146ad16f7e8649e94fb4fc21fe77e8310c060f61caaff8a","size":2},"layers":[],"annotations":{"for":"`+typed+where+`"}}`))
			_, goodMan, err := repo.PushSignature(ctx, lib.MediaJWS, []byte("good envelope "+typed+where), sub, nil)
			if err != nil {
				panic(err)
			}
			cfgType := "application/vnd.example.sbom.config"
			if typed == "notation" {
				cfgType = registry.ArtifactTypeNotation
			}
			cfg := ocispec.Descriptor{MediaType: cfgType, Digest: ocispec.DescriptorEmptyJSON.Digest, Size: 2}
			store.Push(ctx, cfg, bytes.NewReader([]byte("{}")))
			layer, _ := oras.PushBytes(ctx, store, lib.MediaJWS, []byte("layer of the oversized manifest "+typed+where))
			m := ocispec.Manifest{MediaType: ocispec.MediaTypeImageManifest, Config: cfg, Layers: []ocispec.Descriptor{layer}, Subject: &sub, Annotations: map[string]string{"pad": strings.Repeat("p", 4*1024*1024+10)}}
			m.SchemaVersion = 2
			var bigMan ocispec.Descriptor
			func() {
				defer func() { recover() }()
				if strings.HasPrefix(typed, "legacy") {
					// the same as a legacy artifact manifest (the manifest cap is the manifest cap, whatever the manifest format)
					at := "application/vnd.example.other"
					if typed == "legacy-notation" {
						at = registry.ArtifactTypeNotation
					}
					bigMan = pushJSON(ctx, store, legacyArtifactManifest, map[string]any{"mediaType": legacyArtifactManifest, "artifactType": at, "blobs": []ocispec.Descriptor{layer}, "subject": sub,
						"annotations": map[string]string{"pad": strings.Repeat("p", 4*1024*1024+10)}})
					return
				}
				bigMan = pushJSON(ctx, store, ocispec.MediaTypeImageManifest, m)
			}()
			if bigMan.Digest == "" {
				r.Event("oversized-manifest-not-storable")
				continue
			}
			before := store.count(bigMan.Digest)
			var got []ocispec.Descriptor
			lerr := repo.ListSignatures(ctx, sub, func(ds []ocispec.Descriptor) error { got = append(got, ds...); return nil })
			r.Eval("oversized-manifest|" + typed + "|" + where)
			r.Event("oversized-manifest-listings")
			wit := map[string]any{"oversized_manifest": bigMan, "type": typed, "store": where, "listing_error": fmt.Sprint(lerr), "listed": got}
			if c := store.count(bigMan.Digest) - before; c > 0 {
				r.Violation(map[string]string{"kind": "hostile-content-read", "hostile": "oversized-" + typed + "-referrer-manifest"}, fmt.Sprintf("a %s referrer manifest of %d bytes (cap 4 MiB) was fetched %d times by ListSignatures (err=%v)", typed, bigMan.Size, c, lerr), wit)
			}
			for _, d := range got {
				if d.Digest == bigMan.Digest {
					r.Violation(map[string]string{"kind": "hostile-not-refused", "hostile": "oversized-" + typed + "-referrer-manifest"}, "an oversized referrer manifest was listed as a signature", wit)
				} else if d.Digest != goodMan.Digest {
					r.Violation(map[string]string{"kind": "listing"}, "the listing holds a manifest that was never pushed for the subject", wit)
				}
			}
		}
	}

	// a signature manifest of EXACTLY the cap (4 MiB) is not over it: pushed, listed, fetched like any other; one byte more is refused
	func() {
		const capBytes = 4 * 1024 * 1024
		for _, over := range []int{0, 1} {
			store := &counting{GraphTarget: memory.New(), fetched: map[digest.Digest]int{}}
			repo := registry.NewRepository(store)
			sub, _ := oras.PushBytes(ctx, store, ocispec.MediaTypeImageManifest, []byte(`{"schemaVersion":2,"mediaType":"application/vnd.oci.image.manifest.v1+json","config":{"mediaType":"application/vnd.oci.empty.v1+json","digest":"sha256:44136fa355b3678a1146ad16f7e8649e94fb4fc21fe77e8310c060f61caaff8a","size":2},"layers":[],"annotations":{"exact":"cap"}}`))
			blob := []byte(fmt.Sprint("envelope under a manifest at the cap ", over))
			ann := func(pad int) map[string]string {
				return map[string]string{ocispec.AnnotationCreated: "2026-01-01T00:00:00Z", "pad": strings.Repeat("p", pad)}
			}
			probe := registry.NewRepository(memory.New())
			_, pm, err := probe.PushSignature(ctx, lib.MediaJWS, blob, sub, ann(1000))
			if err != nil {
				r.Inconclusive("cannot push the probe manifest: " + err.Error())
				return
			}
			want := capBytes + over
			_, man, err := repo.PushSignature(ctx, lib.MediaJWS, blob, sub, ann(1000+want-int(pm.Size)))
			if err != nil || int(man.Size) != want {
				r.Event("exact-cap-manifest-not-constructible")
				continue
			}
			var listed []ocispec.Descriptor
			lerr := repo.ListSignatures(ctx, sub, func(ds []ocispec.Descriptor) error { listed = append(listed, ds...); return nil })
			got, _, ferr := repo.FetchSignatureBlob(ctx, man)
			r.Eval(fmt.Sprintf("manifest-at-cap+%d", over))
			r.Event("manifests-at-the-cap")
			if over == 0 {
				if lerr != nil || len(listed) != 1 || ferr != nil || !bytes.Equal(got, blob) {
					r.Violation(map[string]string{"kind": "fetch", "why": "manifest-of-exactly-the-cap"}, fmt.Sprintf("a signature manifest of exactly %d bytes (the cap, not over it): listing err=%v (%d listed), fetch err=%v", capBytes, lerr, len(listed), ferr), nil)
				}
			} else if ferr == nil {
				r.Violation(map[string]string{"kind": "hostile-not-refused", "hostile": "manifest-one-byte-over-the-cap"}, "a signature manifest one byte over the cap was fetched", nil)
			}
		}
	}()

	// one real envelope just above the 32 MiB cap
	func() {
		store := &counting{GraphTarget: memory.New(), fetched: map[digest.Digest]int{}}
		repo := registry.NewRepository(store)
		sub, _ := oras.PushBytes(ctx, store, ocispec.MediaTypeImageManifest, []byte(`{"schemaVersion":2,"mediaType":"application/vnd.oci.image.manifest.v1+json","config":{"mediaType":"application/vnd.oci.empty.v1+json","digest":"sha256:44136fa355b3678a1146ad16f7e8649e94fb4fc21fe77e8310c060f61caaff8a","size":2},"layers":[]}`))
		blob := bytes.Repeat([]byte{'e'}, 32*1024*1024+1)
		bd, man, err := repo.PushSignature(ctx, lib.MediaJWS, blob, sub, nil)
		if err != nil {
			r.Inconclusive("cannot push the oversized envelope: " + err.Error())
			return
		}
		got, _, ferr := repo.FetchSignatureBlob(ctx, man)
		r.Event("hostile-fetches")
		if ferr == nil || store.count(bd.Digest) > 0 {
			r.Violation(map[string]string{"kind": "hostile-not-refused", "hostile": "real-oversized-envelope"}, fmt.Sprintf("an envelope of 32 MiB + 1 was not refused before its content was used (err=%v, %d bytes returned, blob fetched %d times)", ferr, len(got), store.count(bd.Digest)), nil)
		}
	}()
	remoteRegistry(ctx, r)
	r.RequireAtLeast("listings", int64(n*3))
	r.RequireAtLeast("fetches", int64(n))
	r.RequireAtLeast("hostile-fetches", int64(n/2))
	r.Finish()
}
