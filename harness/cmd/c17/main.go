// C17 — plugin processes are contained: validated replies, bounded output, bounded time.
//
// Real processes through the real execCommander: the static worker, installed as
// notation-<name>, plays a scripted plugin (behaviour read from a side file); a
// FRESH host child process per case calls one CLIPlugin method and reports the
// error type/code, the duration, the time elapsed after its context ended and
// its own peak RSS (VmHWM). The behaviour script is the ground truth.
package main

import (
	"bytes"
	"context"
	"encoding/base64"
	"encoding/json"
	"errors"
	"fmt"
	"github.com/notaryproject/notation-go/plugin"
	"github.com/notaryproject/notation-go/plugin/proto"
	pf "github.com/notaryproject/notation-plugin-framework-go/plugin"
	"os"
	"os/exec"
	"path/filepath"
	"runtime/debug"
	"strings"
	"sync"
	"syscall"
	"time"

	"github.com/notaryproject/notation-go/verifharness/lib"
)

type behavior struct {
	Exit         int    `json:"exit"`
	KillSelf     bool   `json:"kill_self"`
	Stdout       string `json:"stdout"`
	StdoutFill   int64  `json:"stdout_fill"`
	Stderr       string `json:"stderr"`
	StderrFill   int64  `json:"stderr_fill"`
	SleepMS      int    `json:"sleep_ms"`
	IgnoreTERM   bool   `json:"ignore_term"`
	Child        string `json:"child"`
	ChildSleepMS int    `json:"child_sleep_ms"`
	ExitFirst    bool   `json:"exit_first"`
	StderrFirst  bool   `json:"stderr_first"`
}

type hostSpec struct {
	Path       string `json:"path"`
	Name       string `json:"name"`
	Command    string `json:"command"`
	DeadlineMS int    `json:"deadline_ms"`
	CancelMS   int    `json:"cancel_ms"`
}

type hostResult struct {
	OK          bool   `json:"ok"`
	ErrType     string `json:"err_type"`
	ErrCode     string `json:"err_code"`
	ErrMsg      string `json:"err_msg"`
	DurMS       int64  `json:"dur_ms"`
	AfterCtxMS  int64  `json:"after_ctx_ms"`
	HWMBeforeKB int64  `json:"hwm_before_kb"`
	HWMAfterKB  int64  `json:"hwm_after_kb"`
}

type caseT struct {
	ID      string
	Command string
	B       behavior
	Ctx     string // background | deadline | cancel
	// ground truth
	ValidReply bool   // stdout is a reply of the expected shape (and valid metadata with the right name)
	ReplyClass string // valid | missing:<field> | wrong-name | wrong-contract | non-json | empty | shape | null | huge
	StderrKind string // empty | structured:<code> | non-json | huge
	Timing     string // immediate | slow | slow-ignore-term | child-holds | grandchild-holds | child-holds-exit-first
	Big        bool
}

const maxAfterCtxMS = 30000

func metaJSON(name string, drop string, contract string) string {
	m := map[string]any{"name": name, "description": "d", "version": "1.0.0", "url": "https://u", "supportedContractVersions": []string{contract}, "capabilities": []string{"SIGNATURE_GENERATOR.RAW"}}
	if drop != "" {
		delete(m, drop)
	}
	b, _ := json.Marshal(m)
	return string(b)
}

func main() {
	r := lib.Start("C17", "exploration")
	r.Rule = "scripted plugin behaviours through the real process runner: 5 protocol commands x exit {0,1,2,125,126,127,255,killed} x stdout {valid, each mandatory metadata field removed, wrong name, wrong contract version, non-JSON, empty, shape-incompatible, 2 GiB} x stderr {empty, structured with each of 6 error codes, non-JSON, 2 GiB} x timing {immediate, sleeping past a 300 ms deadline, ignoring SIGTERM, child / grandchild holding stdout+stderr for 120 s} x context {background, deadline, explicit cancel}; quick = a fixed covering subset, thorough = the full product; distinct by behaviour tuple; non-trivial = every case except the plain valid reply"
	r.Assumptions = []string{"the behaviour script is the ground truth; `null` replies to non-metadata commands are not judged (whether null has 'the expected shape' is not stated)",
		"bounded return is decided bimodally: the scripted descendants would hold the pipes for 120 s, the threshold is 30 s after the context ended; a 180 s watchdog firing without a decision is inconclusive",
		"bounded buffering is decided from the host child's own VmHWM: growth < 1 GiB while the plugin emits 2 GiB (calibrated: about 130 MiB per stream with the 64 MiB cap, >= 2 GiB without)"}
	scratch := lib.TempDir("c17")
	r.OnExit(func() { os.RemoveAll(scratch) })
	r.OnExit(func() { killHolders(scratch) })
	workerSrc := filepath.Join(os.Getenv("VERIF_BIN"), "worker")
	if _, err := os.Stat(workerSrc); err != nil {
		r.Inconclusive("worker binary missing")
		r.Finish()
	}
	wb, _ := os.ReadFile(workerSrc)
	workerCopy := filepath.Join(scratch, "worker")
	os.WriteFile(workerCopy, wb, 0o755)

	commands := []string{"get-plugin-metadata", "describe-key", "generate-signature", "generate-envelope", "verify-signature"}
	validReply := map[string]string{
		"describe-key":       `{"keyId":"k","keySpec":"EC-256"}`,
		"generate-signature": `{"keyId":"k","signature":"c2ln","signingAlgorithm":"ECDSA-SHA-256","certificateChain":["Y2VydA=="]}`,
		"generate-envelope":  `{"signatureEnvelope":"ZW52","signatureEnvelopeType":"application/jose+json","annotations":{"a":"b"}}`,
		"verify-signature":   `{"verificationResults":{"SIGNATURE_VERIFIER.REVOCATION_CHECK":{"success":true}},"processedAttributes":[]}`,
	}
	shapeBad := map[string]string{
		"get-plugin-metadata": `{"name":["x"],"description":"d","version":"1.0.0","url":"u","supportedContractVersions":["1.0"],"capabilities":["SIGNATURE_GENERATOR.RAW"]}`,
		"describe-key":        `{"keyId":5,"keySpec":"EC-256"}`,
		"generate-signature":  `{"keyId":"k","signature":"not base64 !!","signingAlgorithm":"x","certificateChain":[]}`,
		"generate-envelope":   `[1,2,3]`,
		"verify-signature":    `{"verificationResults":"yes"}`,
	}
	errCodes := []string{"VALIDATION_ERROR", "UNSUPPORTED_CONTRACT_VERSION", "ACCESS_DENIED", "TIMEOUT", "THROTTLED", "ERROR"}
	const name = "scripted"

	type stdoutV struct {
		class string
		valid bool
		text  func(cmd string) string
		fill  int64
	}
	stdouts := []stdoutV{
		{"valid", true, func(c string) string {
			if c == "get-plugin-metadata" {
				return metaJSON(name, "", "1.0")
			}
			return validReply[c]
		}, 0},
		{"non-json", false, func(string) string { return "this is not json" }, 0},
		{"empty", false, func(string) string { return "" }, 0},
		{"shape", false, func(c string) string { return shapeBad[c] }, 0},
		{"huge", false, func(c string) string { return validReply["describe-key"] }, 2 << 30},
	}
	for _, f := range []string{"name", "description", "version", "url", "supportedContractVersions", "capabilities"} {
		f := f
		stdouts = append(stdouts, stdoutV{"missing:" + f, false, func(string) string { return metaJSON(name, f, "1.0") }, 0})
	}
	for _, f := range []string{"name", "description", "version", "url", "supportedContractVersions", "capabilities"} {
		f := f
		// present, but empty: "" / [] - a mandatory field without content is not present in any useful sense
		stdouts = append(stdouts, stdoutV{"missing:" + f + "-present-but-empty", false, func(string) string {
			var m map[string]any
			json.Unmarshal([]byte(metaJSON(name, "", "1.0")), &m)
			if _, isList := m[f].([]any); isList {
				m[f] = []any{}
			} else {
				m[f] = ""
			}
			b, _ := json.Marshal(m)
			return string(b)
		}, 0})
	}
	stdouts = append(stdouts,
		stdoutV{"wrong-name", false, func(string) string { return metaJSON("someone-else", "", "1.0") }, 0},
		stdoutV{"wrong-name-letter-case", false, func(string) string { return metaJSON(strings.ToUpper(name[:1])+name[1:], "", "1.0") }, 0},
		stdoutV{"wrong-name-trailing-blank", false, func(string) string { return metaJSON(name+" ", "", "1.0") }, 0},
		stdoutV{"wrong-contract", false, func(string) string { return metaJSON(name, "", "2.0") }, 0},
		stdoutV{"wrong-contract-same-major", false, func(string) string { return metaJSON(name, "", "1.1") }, 0},
		stdoutV{"wrong-contract-major-only", false, func(string) string { return metaJSON(name, "", "1") }, 0},
		stdoutV{"wrong-contract-patch", false, func(string) string { return metaJSON(name, "", "1.0.1") }, 0},
		stdoutV{"null", false, func(string) string { return "null" }, 0},
		// a complete, well-shaped reply followed by more output is not a JSON reply
		stdoutV{"valid-then-second-document", false, func(c string) string {
			v := validReply[c]
			if c == "get-plugin-metadata" {
				v = metaJSON(name, "", "1.0")
			}
			return v + "\n{\"errorCode\":\"ERROR\",\"errorMessage\":\"late failure\"}"
		}, 0},
		// ... and so is a reply BEHIND something: a notice line, a JSON string, an array, a stray brace
		stdoutV{"text-then-valid", false, func(c string) string {
			v := validReply[c]
			if c == "get-plugin-metadata" {
				v = metaJSON(name, "", "1.0")
			}
			return []string{"notice: a new version of this plugin is available\n", "\"ok\"\n", "[1,2]\n", "}\n", "\ufeff"}[len(c)%5] + v
		}, 0},
		stdoutV{"valid-then-log-line", false, func(c string) string {
			v := validReply[c]
			if c == "get-plugin-metadata" {
				v = metaJSON(name, "", "1.0")
			}
			return v + "\nwarning: something was written to stdout"
		}, 0})
	type stderrV struct {
		kind string
		text string
		fill int64
	}
	stderrs := []stderrV{{"empty", "", 0}, {"non-json", "fatal: something broke\n", 0}, {"huge", "", 2 << 30}}
	for _, c := range errCodes {
		stderrs = append(stderrs, stderrV{"structured:" + c, fmt.Sprintf(`{"errorCode":%q,"errorMessage":"scripted %s message, 100%% for %%s of %%d%%%% done","errorMetadata":{"k":"v"}}`, c, c), 0})
	}
	// a structured error that carries one more member than the three the contract names (a newer plugin, a vendor field)
	for _, c := range errCodes[2:4] {
		stderrs = append(stderrs, stderrV{"structured:" + c, fmt.Sprintf(`{"errorCode":%q,"errorMessage":"scripted %s message","errorMetadata":{"k":"v"},"errorDetails":{"traceId":"abc"}}`, c, c), 0})
	}
	// the same structured errors pretty-printed over several lines (a plugin written in a language whose JSON encoder
	// indents by default): still the plugin's own structured error
	for _, c := range errCodes[:2] {
		stderrs = append(stderrs, stderrV{"structured:" + c, fmt.Sprintf("{\n  \"errorCode\": %q,\n  \"errorMessage\": \"scripted %s message\",\n  \"errorMetadata\": {\n    \"k\": \"v\"\n  }\n}\n", c, c), 0})
	}
	type timingV struct {
		name string
		set  func(b *behavior)
	}
	timings := []timingV{
		{"immediate", func(b *behavior) {}},
		{"slow", func(b *behavior) { b.SleepMS = 120000 }},
		{"slow-ignore-term", func(b *behavior) { b.SleepMS, b.IgnoreTERM = 120000, true }},
		{"child-holds", func(b *behavior) { b.Child, b.ChildSleepMS, b.SleepMS = "hold", 120000, 120000 }},
		{"grandchild-holds", func(b *behavior) { b.Child, b.ChildSleepMS, b.SleepMS = "hold2", 120000, 120000 }},
		{"child-holds-exit-first", func(b *behavior) { b.Child, b.ChildSleepMS, b.ExitFirst = "hold", 120000, true }},
		{"reports-error-then-hangs", func(b *behavior) { b.SleepMS, b.StderrFirst, b.Exit = 120000, true, 1 }},
	}

	var cases []caseT
	add := func(cmd string, so stdoutV, se stderrV, exit int, tm timingV, ctx string) {
		if strings.HasPrefix(so.class, "missing:") || strings.HasPrefix(so.class, "wrong-name") || strings.HasPrefix(so.class, "wrong-contract") {
			if cmd != "get-plugin-metadata" {
				return
			}
		}
		b := behavior{Stdout: so.text(cmd), StdoutFill: so.fill, Stderr: se.text, StderrFill: se.fill}
		switch exit {
		case -1:
			b.KillSelf = true
		default:
			b.Exit = exit
		}
		tm.set(&b)
		c := caseT{Command: cmd, B: b, Ctx: ctx, ValidReply: so.valid, ReplyClass: so.class, StderrKind: se.kind, Timing: tm.name, Big: so.fill > 0 || se.fill > 0}
		c.ID = fmt.Sprintf("%s|%s|%s|exit=%d|%s|%s", cmd, so.class, se.kind, exit, tm.name, ctx)
		cases = append(cases, c)
	}
	if r.Thorough() {
		for _, cmd := range commands {
			for _, so := range stdouts {
				for _, se := range stderrs {
					for _, exit := range []int{0, 1, 2, -1, 125, 126, 127, 255} {
						if so.fill > 0 && se.fill > 0 {
							continue
						}
						add(cmd, so, se, exit, timings[0], "background")
					}
				}
			}
			for _, tm := range timings[1:] {
				for _, ctx := range []string{"deadline", "cancel"} {
					add(cmd, stdouts[0], stderrs[0], 0, tm, ctx)
					if tm.name == "reports-error-then-hangs" {
						for _, se := range stderrs[3:] {
							add(cmd, stdouts[0], se, 1, tm, ctx)
						}
					}
				}
			}
			add(cmd, stdouts[0], stderrs[0], 0, timings[0], "deadline")
		}
	} else {
		for ci, cmd := range commands {
			for si, so := range stdouts {
				if so.fill > 0 {
					continue
				}
				// every reply class with exit 0 and empty stderr; and rotating exit/stderr combinations
				add(cmd, so, stderrs[0], 0, timings[0], "background")
				se := stderrs[3+(ci+si)%len(errCodes)]
				add(cmd, so, se, []int{1, 2, -1}[(ci+si)%3], timings[0], "background")
			}
			for si, se := range stderrs {
				if se.fill > 0 {
					continue
				}
				add(cmd, stdouts[0], se, []int{1, 2, -1}[(ci+si)%3], timings[0], "background")
				add(cmd, stdouts[0], se, []int{126, 255, 127, 125}[(ci+si)%4], timings[0], "background") // whatever the non-zero status
				add(cmd, stdouts[0], se, 0, timings[0], "background")                                    // exit 0 with something on stderr is a success
			}
			tm := timings[1+ci%(len(timings)-1)]
			add(cmd, stdouts[0], stderrs[0], 0, tm, []string{"deadline", "cancel"}[ci%2])
		}
		for ti, tm := range timings[1:] {
			add(commands[ti%len(commands)], stdouts[0], stderrs[0], 0, tm, []string{"cancel", "deadline"}[ti%2])
		}
		for ci, cmd := range commands {
			add(cmd, stdouts[0], stderrs[3+ci%len(errCodes)], 1, timings[len(timings)-1], []string{"deadline", "cancel"}[ci%2]) // structured error printed, then the plugin hangs
		}
		add("get-plugin-metadata", stdouts[4], stderrs[0], 0, timings[0], "background") // 2 GiB stdout
		add("describe-key", stdouts[0], stderrs[2], 1, timings[0], "background")        // 2 GiB stderr
		add("verify-signature", stdouts[4], stderrs[0], 0, timings[0], "deadline")
	}

	run := func(ci int) {
		c := cases[ci]
		dir := filepath.Join(scratch, fmt.Sprintf("case-%d", ci))
		os.MkdirAll(dir, 0o755)
		defer os.RemoveAll(dir)
		exe := filepath.Join(dir, "notation-"+name)
		if err := os.Link(workerCopy, exe); err != nil {
			os.WriteFile(exe, wb, 0o755)
		}
		bj, _ := json.Marshal(map[string]behavior{"*": c.B})
		os.WriteFile(exe+".behavior.json", bj, 0o644)
		hs := hostSpec{Path: exe, Name: name, Command: c.Command}
		switch c.Ctx {
		case "deadline":
			hs.DeadlineMS = 300
		case "cancel":
			hs.CancelMS = 300
		}
		sj, _ := json.Marshal(hs)
		specPath := filepath.Join(dir, "host.json")
		os.WriteFile(specPath, sj, 0o644)
		var res hostResult
		for attempt := 0; ; attempt++ {
			cmd := exec.Command(workerSrc, "host", specPath)
			var hostErr bytes.Buffer
			cmd.Stderr = &hostErr
			outCh := make(chan []byte, 1)
			go func() { o, _ := cmd.Output(); outCh <- o }()
			var out []byte
			select {
			case out = <-outCh:
			case <-time.After(180 * time.Second):
				if cmd.Process != nil {
					cmd.Process.Kill()
				}
				r.Event("watchdog-fired")
				if c.Ctx != "background" {
					r.Violation(map[string]string{"kind": "no-bounded-return", "timing": c.Timing, "ctx": c.Ctx},
						fmt.Sprintf("%s: the call had not returned 180 s after start although its context ended after 300 ms", c.ID), map[string]any{"case": c})
				} else {
					r.Inconclusive("watchdog fired for " + c.ID)
				}
				return
			}
			if json.Unmarshal(out, &res) == nil {
				break
			}
			// the HOST process (harness) died or printed nothing - nothing was observed about the library: try again
			r.Event("host-child-without-result-retried")
			r.Sample("host child without result", map[string]any{"case": c.ID, "stdout": string(out), "stderr": hostErr.String(), "attempt": attempt})
			if attempt == 2 {
				r.Inconclusive(fmt.Sprintf("host child for %s produced no result three times: stdout %q stderr %q", c.ID, out, hostErr.String()))
				return
			}
		}
		key := c.ID
		if c.ReplyClass == "valid" && c.StderrKind == "empty" && c.B.Exit == 0 && !c.B.KillSelf && c.Timing == "immediate" {
			key = ""
		}
		r.Eval(key)
		if res.OK {
			r.Event("calls-succeeded")
		} else {
			r.Event("calls-failed:" + res.ErrType)
		}
		r.Sample(fmt.Sprintf("ok=%v type=%s", res.OK, res.ErrType), map[string]any{"case": c.ID, "result": res})
		wit := map[string]any{"case": c, "host_result": res}
		sig := func(kind string) map[string]string {
			return map[string]string{"kind": kind, "command": c.Command, "reply": c.ReplyClass, "stderr": c.StderrKind, "timing": c.Timing, "ctx": c.Ctx}
		}
		failed := c.B.Exit != 0 || c.B.KillSelf
		ctxEnds := c.Ctx != "background" && c.Timing != "immediate"
		// the plugin process itself is still running when the context ends (it is then killed: no successful exit);
		// with child-holds-exit-first the plugin has already exited successfully with a valid reply: success is legitimate, only the delay is judged
		killedByCtx := ctxEnds && c.Timing != "child-holds-exit-first"
		// 1. success only if exit 0 and a reply of the expected shape
		if res.OK {
			judgedNull := !(c.ReplyClass == "null" && c.Command != "get-plugin-metadata")
			if failed || (!c.ValidReply && judgedNull) || c.Big && c.B.StdoutFill > 0 || killedByCtx {
				r.Violation(sig("wrongful-success"), fmt.Sprintf("%s: the call succeeded although the scripted plugin %s", c.ID, describe(c, failed, killedByCtx)), wit)
			}
		} else if !failed && c.ValidReply && !ctxEnds && !c.Big {
			r.Violation(sig("control-failed"), fmt.Sprintf("%s: a well-behaved plugin call failed: %s %s", c.ID, res.ErrType, res.ErrMsg), wit)
		}
		// 2. error typing for failing processes
		if failed && !res.OK && c.Timing == "immediate" && !c.Big {
			r.Event("error-typing-checked")
			switch {
			case strings.HasPrefix(c.StderrKind, "structured:"):
				code := strings.TrimPrefix(c.StderrKind, "structured:")
				wantMsg := "scripted " + code + " message"
				if strings.Contains(c.B.Stderr, "100%") { // (the message is the plugin's text, whatever characters it holds)
					wantMsg += ", 100% for %s of %d%% done"
				}
				if res.ErrType != "request-error" || res.ErrCode != code || !strings.Contains(res.ErrMsg, wantMsg) {
					r.Violation(sig("structured-error-lost"), fmt.Sprintf("%s: the plugin printed the structured error %s, the call returned %s/%s %q", c.ID, code, res.ErrType, res.ErrCode, res.ErrMsg), wit)
				}
			case c.StderrKind == "empty":
				if res.ErrType != "executable-file" {
					r.Violation(sig("untyped-error"), fmt.Sprintf("%s: failing process without stderr must yield PluginExecutableFileError, got %s %q", c.ID, res.ErrType, res.ErrMsg), wit)
				}
			case c.StderrKind == "non-json":
				if res.ErrType != "malformed" {
					r.Violation(sig("untyped-error"), fmt.Sprintf("%s: failing process with non-JSON stderr must yield PluginMalformedError, got %s %q", c.ID, res.ErrType, res.ErrMsg), wit)
				}
			}
		}
		if !failed && !c.ValidReply && !res.OK && c.Timing == "immediate" && !c.Big && c.ReplyClass != "null" {
			if res.ErrType != "malformed" && !(strings.HasPrefix(c.ReplyClass, "wrong-name") && res.ErrType == "other") {
				r.Violation(sig("untyped-error"), fmt.Sprintf("%s: a malformed reply must yield PluginMalformedError, got %s %q", c.ID, res.ErrType, res.ErrMsg), wit)
			}
		}
		if c.Timing == "reports-error-then-hangs" && c.Ctx != "background" && strings.HasPrefix(c.StderrKind, "structured:") && !res.OK {
			r.Event("error-typing-checked")
			code := strings.TrimPrefix(c.StderrKind, "structured:")
			if res.ErrType != "request-error" || res.ErrCode != code {
				r.Violation(sig("structured-error-lost"), fmt.Sprintf("%s: the plugin printed the structured error %s before it was killed by the context; the call returned %s/%s %q", c.ID, code, res.ErrType, res.ErrCode, res.ErrMsg), wit)
			}
		}
		// a plugin that printed nothing and was killed because the context ended is a failing process like any other: typed
		if killedByCtx && !res.OK && c.StderrKind == "empty" && !c.Big && res.AfterCtxMS <= maxAfterCtxMS {
			r.Event("error-typing-checked")
			r.Event("error-typing-of-silent-plugins-killed-by-the-context")
			if res.ErrType != "executable-file" && res.ErrType != "malformed" {
				r.Violation(sig("untyped-error"), fmt.Sprintf("%s: a plugin that printed nothing and was killed when its context ended (%s) must yield a typed executable/malformed-plugin error, got %s %q", c.ID, c.Ctx, res.ErrType, res.ErrMsg), wit)
			}
		}
		// 3. bounded buffering
		if c.Big {
			r.Event("big-output-cases")
			grow := res.HWMAfterKB - res.HWMBeforeKB
			r.SetExtra(fmt.Sprintf("hwm_growth_kb_%d", ci), grow)
			if grow > 1024*1024 {
				r.Violation(sig("unbounded-buffering"), fmt.Sprintf("%s: host peak RSS grew by %d MiB while the plugin emitted 2 GiB", c.ID, grow/1024), wit)
			}
		}
		// 4. bounded return after the context ended
		if ctxEnds {
			r.Event("cancellation-cases")
			if res.AfterCtxMS > maxAfterCtxMS {
				r.Violation(sig("no-bounded-return"), fmt.Sprintf("%s: the call returned %d ms after its context had ended (bound %d ms)", c.ID, res.AfterCtxMS, maxAfterCtxMS), wit)
			}
			r.SetExtra("after_ctx_ms_"+c.Timing+"_"+c.Ctx, res.AfterCtxMS)
		}
	}
	var small, big []int
	for i, c := range cases {
		if c.Big {
			big = append(big, i)
		} else {
			small = append(small, i)
		}
	}
	lib.Parallel(len(small), 16, func(i int) { run(small[i]) }, r.PanicViolation("harness"))
	lib.Parallel(len(big), 3, func(i int) { run(big[i]) }, r.PanicViolation("harness"))
	concurrentCalls(r, scratch, workerCopy, wb)
	symlinkedExecutable(r, scratch, workerCopy, wb)
	shortCallBesideLongOnes(r, scratch, workerCopy, wb)
	oddExecutables(r, scratch, workerSrc, workerCopy, wb)
	jsonStderrThatIsNoError(r, scratch, workerSrc, workerCopy, wb)
	r.RequireAtLeast("calls-succeeded", 5)
	r.RequireAtLeast("error-typing-checked", 20)
	r.RequireAtLeast("big-output-cases", 2)
	r.RequireAtLeast("cancellation-cases", 8)
	killHolders(scratch)
	r.Finish()
}

// hostCall runs one plugin call in a fresh host process (the static worker) and returns what it observed.
func hostCall(r *lib.Run, workerSrc, dir string, hs hostSpec) (hostResult, bool) {
	sj, _ := json.Marshal(hs)
	specPath := filepath.Join(dir, fmt.Sprintf("host-%s-%d-%d.json", hs.Command, hs.DeadlineMS, hs.CancelMS))
	os.WriteFile(specPath, sj, 0o644)
	var res hostResult
	for attempt := 0; attempt < 3; attempt++ {
		cmd := exec.Command(workerSrc, "host", specPath)
		outCh := make(chan []byte, 1)
		go func() { o, _ := cmd.Output(); outCh <- o }()
		select {
		case out := <-outCh:
			if json.Unmarshal(out, &res) == nil {
				return res, true
			}
			r.Event("host-child-without-result-retried")
		case <-time.After(180 * time.Second):
			if cmd.Process != nil {
				cmd.Process.Kill()
			}
			r.Event("watchdog-fired")
			if hs.DeadlineMS+hs.CancelMS > 0 {
				r.Violation(map[string]string{"kind": "no-bounded-return", "timing": "odd-executable", "ctx": "ends"},
					fmt.Sprintf("%s on %s: the call had not returned 180 s after start although its context ended after 300 ms", hs.Command, hs.Path), nil)
			} else {
				r.Inconclusive("watchdog fired for " + hs.Path)
			}
			return res, false
		}
	}
	r.Inconclusive("host child produced no result three times for " + hs.Path)
	return res, false
}

// oddExecutables: the plugin file is not the usual well-formed binary. (a) Files that cannot be started at all (no
// execute bit, empty, garbage, an interpreter that does not exist, text without an interpreter line): a failing process
// that printed nothing - every command yields a TYPED error (executable-file or malformed), never a bare one and never
// a success. (b) Wrapper scripts, with and without an interpreter line, around a plugin whose descendant holds the pipes
// for 120 s: however the file gets started (or not), the call returns within the bound after its context ended.
func oddExecutables(r *lib.Run, scratch, workerSrc, workerCopy string, wb []byte) {
	commands := []string{"get-plugin-metadata", "describe-key", "generate-signature", "generate-envelope", "verify-signature"}
	type shapeT struct {
		name    string
		content []byte
		mode    os.FileMode
	}
	shapes := []shapeT{{"no-execute-bit", wb, 0o644}, {"no-execute-bit-for-anyone-but-group", wb, 0o010}, {"empty-file", nil, 0o755}, {"garbage", []byte("\x00\x01\x02 not an executable \xff\xfe"), 0o755},
		{"interpreter-does-not-exist", []byte("#!/nonexistent/interpreter\necho hi\n"), 0o755}, {"text-without-interpreter-line", []byte("exit 3\n"), 0o755}}
	type job struct {
		shape shapeT
		cmd   string
	}
	var jobs []job
	for si, sh := range shapes {
		for ci, c := range commands {
			if r.Quick() && (si+ci)%2 == 1 && sh.name != "no-execute-bit" {
				continue
			}
			jobs = append(jobs, job{sh, c})
		}
	}
	lib.Parallel(len(jobs), 8, func(i int) {
		j := jobs[i]
		dir := filepath.Join(scratch, fmt.Sprintf("odd-%d", i))
		os.MkdirAll(dir, 0o755)
		defer os.RemoveAll(dir)
		exe := filepath.Join(dir, "notation-scripted")
		os.WriteFile(exe, j.shape.content, 0o644)
		os.Chmod(exe, j.shape.mode)
		bj, _ := json.Marshal(map[string]behavior{"*": {Stdout: `{"keyId":"k","keySpec":"EC-256"}`}})
		os.WriteFile(exe+".behavior.json", bj, 0o644)
		// (the host runs as root, for whom the execute bit of ANY class suffices: the group-only shape may start)
		res, ok := hostCall(r, workerSrc, dir, hostSpec{Path: exe, Name: "scripted", Command: j.cmd})
		if !ok {
			return
		}
		r.Eval("odd-executable|" + j.shape.name + "|" + j.cmd)
		r.Event("plugin-files-that-cannot-be-started")
		sig := map[string]string{"kind": "untyped-error", "command": j.cmd, "reply": "none", "stderr": "empty", "timing": "cannot-start:" + j.shape.name, "ctx": "background"}
		wit := map[string]any{"shape": j.shape.name, "mode": fmt.Sprintf("%o", j.shape.mode), "host_result": res}
		if res.OK {
			if j.shape.name == "no-execute-bit-for-anyone-but-group" || j.shape.name == "text-without-interpreter-line" {
				return // started after all (root / a shell fallback): says nothing
			}
			sig["kind"] = "wrongful-success"
			r.Violation(sig, fmt.Sprintf("%s on a plugin file that cannot be started (%s) succeeded", j.cmd, j.shape.name), wit)
			return
		}
		r.Event("error-typing-checked")
		if res.ErrType != "executable-file" && res.ErrType != "malformed" {
			r.Violation(sig, fmt.Sprintf("%s on a plugin file that cannot be started (%s): a failing process that printed nothing must yield a typed executable/malformed-plugin error, got %s %q", j.cmd, j.shape.name, res.ErrType, res.ErrMsg), wit)
		}
	}, r.PanicViolation("harness"))

	// (b) wrapper scripts
	type wjob struct {
		shebang bool
		ctx     string
		cmd     string
		hold    bool
	}
	var wjobs []wjob
	for i, sb := range []bool{true, false} {
		for k, ctx := range []string{"deadline", "cancel"} {
			wjobs = append(wjobs, wjob{sb, ctx, commands[(2*i+k)%len(commands)], true})
		}
		wjobs = append(wjobs, wjob{sb, "background", "describe-key", false})
	}
	lib.Parallel(len(wjobs), 8, func(i int) {
		j := wjobs[i]
		dir := filepath.Join(scratch, fmt.Sprintf("wrap-%d", i))
		os.MkdirAll(dir, 0o755)
		defer os.RemoveAll(dir)
		exe := filepath.Join(dir, "notation-scripted")
		body := "exec \"$0.bin\" \"$@\"\n"
		if j.shebang {
			body = "#!/bin/sh\n" + body
		}
		os.WriteFile(exe, []byte(body), 0o755)
		if err := os.Link(workerCopy, exe+".bin"); err != nil {
			os.WriteFile(exe+".bin", wb, 0o755)
		}
		b := behavior{Stdout: `{"keyId":"k","keySpec":"EC-256"}`}
		if j.hold {
			b.Child, b.ChildSleepMS, b.SleepMS = "hold", 120000, 120000
		}
		bj, _ := json.Marshal(map[string]behavior{"*": b})
		os.WriteFile(exe+".bin.behavior.json", bj, 0o644)
		hs := hostSpec{Path: exe, Name: "scripted", Command: j.cmd}
		switch j.ctx {
		case "deadline":
			hs.DeadlineMS = 300
		case "cancel":
			hs.CancelMS = 300
		}
		res, ok := hostCall(r, workerSrc, dir, hs)
		for attempt := 0; ok && !res.OK && strings.Contains(res.ErrMsg, "text file busy") && attempt < 10; attempt++ {
			// the script was written by this multi-threaded process; a child forked at that moment may still hold it open
			// for writing (Go issue 22315) - an artefact of the harness, the call is simply made again
			r.Event("wrapper-script-etxtbsy-retried")
			time.Sleep(100 * time.Millisecond)
			res, ok = hostCall(r, workerSrc, dir, hs)
		}
		if !ok {
			return
		}
		r.Eval(fmt.Sprintf("wrapper-script|shebang=%v|%s|%s|hold=%v", j.shebang, j.ctx, j.cmd, j.hold))
		wit := map[string]any{"shebang": j.shebang, "ctx": j.ctx, "command": j.cmd, "host_result": res}
		if !j.hold {
			r.Event("wrapper-script-controls")
			if j.shebang && !res.OK {
				r.Violation(map[string]string{"kind": "control-failed", "timing": "wrapper-script"}, fmt.Sprintf("control: a #!/bin/sh wrapper around a well-behaved plugin failed: %s %s", res.ErrType, res.ErrMsg), wit)
			}
			if !res.OK && res.ErrType != "executable-file" && res.ErrType != "malformed" {
				r.Violation(map[string]string{"kind": "untyped-error", "timing": "wrapper-script"}, fmt.Sprintf("a script without interpreter line failed with the untyped error %s %q", res.ErrType, res.ErrMsg), wit)
			}
			return
		}
		r.Event("cancellation-cases")
		r.Event("wrapper-script-cancellation-cases")
		if res.AfterCtxMS > maxAfterCtxMS {
			r.Violation(map[string]string{"kind": "no-bounded-return", "timing": fmt.Sprintf("wrapper-script-shebang=%v", j.shebang), "ctx": j.ctx},
				fmt.Sprintf("%s through a wrapper script (interpreter line: %v) whose plugin's child holds the pipes: the call returned %d ms after its context had ended (bound %d ms)", j.cmd, j.shebang, res.AfterCtxMS, maxAfterCtxMS), wit)
		}
		r.SetExtra(fmt.Sprintf("after_ctx_ms_wrapper_shebang=%v_%s", j.shebang, j.ctx), res.AfterCtxMS)
	}, r.PanicViolation("harness"))
	killHolders(scratch)
}

// jsonStderrThatIsNoError: a failing plugin whose stderr IS JSON - but not the structured error of the contract (a JSON
// log line, an empty object, null, an array, a string, a number). It did not print a structured error, so the caller
// gets a typed executable/malformed-plugin error - not a "request error" with an empty code.
func jsonStderrThatIsNoError(r *lib.Run, scratch, workerSrc, workerCopy string, wb []byte) {
	commands := []string{"get-plugin-metadata", "describe-key", "generate-signature", "generate-envelope", "verify-signature"}
	texts := []string{`{"level":"error","msg":"key vault unreachable","ts":"2024-01-01T00:00:00Z"}`, `{}`, `null`, `[1,2,3]`, `"fatal: no such key"`, `42`, `{"error":"boom","code":500}`,
		`{"ErrorCode":null,"ErrorMessage":null}`} // (a text with only SOME of the three members of the contract is not judged: whether that is "a structured error" is not stated)
	type job struct {
		text, cmd string
		exit      int
	}
	var jobs []job
	for ti, t := range texts {
		for ci, c := range commands {
			if r.Quick() && (ti+ci)%2 == 1 {
				continue
			}
			jobs = append(jobs, job{t, c, []int{1, 2, 255}[(ti+ci)%3]})
		}
	}
	lib.Parallel(len(jobs), 16, func(i int) {
		j := jobs[i]
		dir := filepath.Join(scratch, fmt.Sprintf("jsonerr-%d", i))
		os.MkdirAll(dir, 0o755)
		defer os.RemoveAll(dir)
		exe := filepath.Join(dir, "notation-scripted")
		if err := os.Link(workerCopy, exe); err != nil {
			os.WriteFile(exe, wb, 0o755)
		}
		bj, _ := json.Marshal(map[string]behavior{"*": {Stderr: j.text, Exit: j.exit}})
		os.WriteFile(exe+".behavior.json", bj, 0o644)
		res, ok := hostCall(r, workerSrc, dir, hostSpec{Path: exe, Name: "scripted", Command: j.cmd})
		if !ok {
			return
		}
		r.Eval("json-stderr-no-error|" + j.text + "|" + j.cmd)
		r.Event("error-typing-checked")
		r.Event("failing-plugins-with-json-stderr-that-is-no-structured-error")
		sig := map[string]string{"kind": "untyped-error", "command": j.cmd, "reply": "empty", "stderr": "json-but-no-structured-error", "timing": "immediate", "ctx": "background"}
		wit := map[string]any{"stderr": j.text, "exit": j.exit, "host_result": res}
		if res.OK {
			sig["kind"] = "wrongful-success"
			r.Violation(sig, fmt.Sprintf("%s succeeded although the plugin exited with status %d", j.cmd, j.exit), wit)
		} else if res.ErrType != "malformed" && res.ErrType != "executable-file" {
			r.Violation(sig, fmt.Sprintf("%s: the failing plugin printed %s on stderr - JSON, but not a structured error - and the call returned %s/%q %q instead of a typed malformed-plugin error", j.cmd, j.text, res.ErrType, res.ErrCode, res.ErrMsg), wit)
		}
	}, r.PanicViolation("harness"))
}

func describe(c caseT, failed, ctxEnds bool) string {
	switch {
	case failed:
		return "exited unsuccessfully"
	case ctxEnds:
		return "was still running when the context ended"
	case c.Big:
		return "emitted 2 GiB on stdout"
	}
	return "replied with " + c.ReplyClass
}

// killHolders terminates scripted descendants that are still holding pipes (they sleep for 120 s).
func killHolders(scratch string) {
	ents, _ := os.ReadDir("/proc")
	for _, e := range ents {
		var pid int
		if _, err := fmt.Sscanf(e.Name(), "%d", &pid); err != nil {
			continue
		}
		b, err := os.ReadFile(filepath.Join("/proc", e.Name(), "cmdline"))
		if err != nil {
			continue
		}
		if strings.Contains(string(b), scratch) && strings.Contains(string(b), "__hold") {
			syscall.Kill(pid, syscall.SIGKILL)
		}
	}
}

// concurrentCalls: ten plugins called at once from one host process (this one), each reply stamped with its plugin's
// name and padded to a different length. Every call must return ITS process's reply - a success with exactly that
// plugin's key, or that plugin's own structured error; nothing of another call in flight.
func concurrentCalls(r *lib.Run, scratch, workerCopy string, wb []byte) {
	ctx := context.Background()
	const nOK, nFail = 8, 2
	rounds := r.N(15, 120)
	type plug struct {
		name  string
		p     *plugin.CLIPlugin
		fail  bool
		stamp byte
	}
	var plugs []plug
	for i := 0; i < nOK+nFail; i++ {
		nm := fmt.Sprintf("conc%d", i)
		dir := filepath.Join(scratch, "concurrent", nm)
		os.MkdirAll(dir, 0o755)
		exe := filepath.Join(dir, "notation-"+nm)
		if err := os.Link(workerCopy, exe); err != nil {
			os.WriteFile(exe, wb, 0o755)
		}
		// replies of a few MiB (a raw signature / an error message consisting of the plugin's stamp byte), so that decoding
		// one reply takes as long as another call needs to start its process
		stamp := bytes.Repeat([]byte{byte('A' + i)}, (2<<20)+i*4099)
		b := behavior{Stdout: fmt.Sprintf(`{"keyId":"%s-key","signature":%q,"signingAlgorithm":"ECDSA-SHA-256","certificateChain":[%q]}`, nm, base64.StdEncoding.EncodeToString(stamp), base64.StdEncoding.EncodeToString([]byte(nm)))}
		if i >= nOK {
			b = behavior{Exit: 1, Stderr: fmt.Sprintf(`{"errorCode":"VALIDATION_ERROR","errorMessage":"%s says no %s"}`, nm, stamp)}
		}
		bj, _ := json.Marshal(map[string]behavior{"*": b})
		os.WriteFile(exe+".behavior.json", bj, 0o644)
		p, err := plugin.NewCLIPlugin(ctx, nm, exe)
		if err != nil {
			panic(err)
		}
		plugs = append(plugs, plug{nm, p, i >= nOK, byte('A' + i)})
	}
	var wg sync.WaitGroup
	for _, pl := range plugs {
		wg.Add(1)
		go func(pl plug) {
			defer wg.Done()
			for k := 0; k < rounds; k++ {
				id := fmt.Sprintf("concurrent|%s|%d", pl.name, k)
				r.Eval(id)
				var resp *pf.GenerateSignatureResponse
				var err error
				func() {
					defer func() {
						if p := recover(); p != nil {
							err = fmt.Errorf("host panicked: %v", p)
							r.Violation(map[string]string{"kind": "concurrent-calls", "why": "panic"}, fmt.Sprintf("%s: the host panicked with %d plugin calls in flight: %v", id, len(plugs), p), string(debug.Stack()))
						}
					}()
					resp, err = pl.p.GenerateSignature(ctx, &pf.GenerateSignatureRequest{ContractVersion: "1.0", KeyID: pl.name + "-key", KeySpec: "EC-256", Hash: "SHA-256", Payload: []byte("p")})
				}()
				r.Event("concurrent-calls")
				switch {
				case pl.fail:
					var re proto.RequestError
					if err == nil || !errors.As(err, &re) || !strings.HasPrefix(re.Err.Error(), pl.name+" says no ") || strings.Trim(strings.TrimPrefix(re.Err.Error(), pl.name+" says no "), string(pl.stamp)) != "" {
						r.Violation(map[string]string{"kind": "concurrent-calls", "why": "foreign-or-lost-error"}, fmt.Sprintf("%s: the process exited 1 printing its structured error; with %d calls in flight the call returned resp-nil=%v err=%.200v", id, len(plugs), resp == nil, err), nil)
					}
				case err != nil || resp == nil || resp.KeyID != pl.name+"-key" || len(resp.Signature) < 2<<20 || len(bytes.Trim(resp.Signature, string(pl.stamp))) != 0 || len(resp.CertificateChain) != 1 || string(resp.CertificateChain[0]) != pl.name:
					what := fmt.Sprintf("err=%.200v", err)
					if resp != nil {
						what = fmt.Sprintf("keyId=%q, %d signature bytes of which %d are not this plugin's stamp, chain=%q", resp.KeyID, len(resp.Signature), len(bytes.Trim(resp.Signature, string(pl.stamp))), resp.CertificateChain)
					}
					r.Violation(map[string]string{"kind": "concurrent-calls", "why": "foreign-or-lost-reply"}, fmt.Sprintf("%s: the process exited 0 with its own reply; with %d calls in flight the call returned %s", id, len(plugs), what), nil)
				}
			}
		}(pl)
	}
	wg.Wait()
}

// symlinkedExecutable: the plugin "foo" is looked up at <dir>/foo/notation-foo. If that path is a symbolic link to
// another plugin's executable, the process answers with the OTHER plugin's name: the name a plugin reports must equal
// the name of the file it was started as, so the call fails - whatever the link points at is not "foo".
func symlinkedExecutable(r *lib.Run, scratch, workerCopy string, wb []byte) {
	ctx := context.Background()
	root := filepath.Join(scratch, "linked")
	bar := filepath.Join(root, "bar", "notation-bar")
	os.MkdirAll(filepath.Dir(bar), 0o755)
	if err := os.Link(workerCopy, bar); err != nil {
		os.WriteFile(bar, wb, 0o755)
	}
	meta := behavior{Stdout: metaJSON("bar", "", "1.0")}
	bj, _ := json.Marshal(map[string]behavior{"*": meta})
	os.WriteFile(bar+".behavior.json", bj, 0o644)
	for i, target := range []string{"../bar/notation-bar", bar} {
		foo := filepath.Join(root, fmt.Sprintf("foo%d", i), fmt.Sprintf("notation-foo%d", i))
		os.MkdirAll(filepath.Dir(foo), 0o755)
		if err := os.Symlink(target, foo); err != nil {
			continue
		}
		os.WriteFile(foo+".behavior.json", bj, 0o644) // (the scripted executable finds its script next to the path it was started as)
		r.Eval(fmt.Sprintf("symlinked-executable/%d", i))
		p, err := plugin.NewCLIPlugin(ctx, fmt.Sprintf("foo%d", i), foo)
		if err != nil {
			r.Event("symlinked-executable-refused-at-construction")
			continue
		}
		md, err := p.GetMetadata(ctx, &pf.GetMetadataRequest{})
		r.Event("symlinked-executable-cases")
		if err == nil {
			r.Violation(map[string]string{"kind": "wrongful-success", "why": "name-of-link-target"}, fmt.Sprintf("plugin foo%d (a symbolic link to notation-bar) answered with name %q and the call succeeded", i, md.Name), nil)
		}
	}
	// control: the real one works
	if p, err := plugin.NewCLIPlugin(ctx, "bar", bar); err == nil {
		if _, err := p.GetMetadata(ctx, &pf.GetMetadataRequest{}); err != nil {
			r.Violation(map[string]string{"kind": "control-failed"}, "control: the plugin bar itself does not answer: "+err.Error(), nil)
		}
	}
}

// shortCallBesideLongOnes: eight calls on a plugin that sleeps for a minute are in flight under contexts that live on;
// a ninth call with a 500 ms deadline (and a tenth that is cancelled after 500 ms) must still return within the bound
// after ITS context ended - wherever it is waiting, for its process or for anything else.
func shortCallBesideLongOnes(r *lib.Run, scratch, workerCopy string, wb []byte) {
	dir := filepath.Join(scratch, "busy", "slow")
	os.MkdirAll(dir, 0o755)
	exe := filepath.Join(dir, "notation-slow")
	if err := os.Link(workerCopy, exe); err != nil {
		os.WriteFile(exe, wb, 0o755)
	}
	bj, _ := json.Marshal(map[string]behavior{"*": {SleepMS: 60000, Stdout: `{"keyId":"k","keySpec":"EC-256"}`}})
	os.WriteFile(exe+".behavior.json", bj, 0o644)
	p, err := plugin.NewCLIPlugin(context.Background(), "slow", exe)
	if err != nil {
		panic(err)
	}
	longCtx, stopLong := context.WithCancel(context.Background())
	var wg sync.WaitGroup
	for i := 0; i < 8; i++ {
		wg.Add(1)
		go func() {
			defer wg.Done()
			p.DescribeKey(longCtx, &pf.DescribeKeyRequest{ContractVersion: "1.0", KeyID: "k"})
		}()
	}
	time.Sleep(300 * time.Millisecond) // let them start their processes
	for _, how := range []string{"deadline", "cancel"} {
		ctx, cancel := context.WithTimeout(context.Background(), 500*time.Millisecond)
		if how == "cancel" {
			ctx, cancel = context.WithCancel(context.Background())
			time.AfterFunc(500*time.Millisecond, cancel)
		}
		t0 := time.Now()
		done := make(chan error, 1)
		go func() {
			_, err := p.DescribeKey(ctx, &pf.DescribeKeyRequest{ContractVersion: "1.0", KeyID: "k"})
			done <- err
		}()
		r.Eval("short-call-beside-long-ones|" + how)
		r.Event("short-calls-beside-long-ones")
		select {
		case <-done:
			if d := time.Since(t0); d > 500*time.Millisecond+maxAfterCtxMS*time.Millisecond {
				r.Violation(map[string]string{"kind": "no-bounded-return", "timing": "beside-long-calls", "ctx": how}, fmt.Sprintf("a call whose context ended after 500 ms (%s) returned after %v while 8 other calls were in flight", how, d), nil)
			}
		case <-time.After(500*time.Millisecond + maxAfterCtxMS*time.Millisecond):
			r.Violation(map[string]string{"kind": "no-bounded-return", "timing": "beside-long-calls", "ctx": how}, fmt.Sprintf("a call whose context ended after 500 ms (%s) had not returned %d s later while 8 other calls were in flight under longer-lived contexts", how, maxAfterCtxMS/1000), nil)
		}
		cancel()
	}
	stopLong()
	wg.Wait()
}
