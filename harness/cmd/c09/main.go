// C09 — only well-formed trust policy documents are accepted.
//
// Ground truth by construction: documents are assembled from a TAGGED vocabulary
// (every level, override map, store, identity, scope, name, version carries its
// own valid/invalid tag; identities carry their attribute set), and the
// document-level rules of the statement are evaluated on the tags. Three
// generators: (1) grammar-valid base documents, (2) base documents with one or
// two rule-violating edits (one operator per rule of the statement), (3)
// randomly assembled documents. Each is offered to OCIDocument.Validate,
// BlobDocument.Validate and (sampled) verifier.NewVerifierWithOptions; accepted
// documents must yield levels that enforce integrity unless skip.
package main

import (
	"encoding/json"
	"fmt"
	"strings"

	"github.com/notaryproject/notation-go/verifharness/lib"
	"github.com/notaryproject/notation-go/verifier"
	"github.com/notaryproject/notation-go/verifier/trustpolicy"
)

type tagged struct {
	S     string
	Valid bool
	attrs map[string]string // x509 identities: attribute set (ST alias resolved)
	kind  string            // wild | x509 | other
}

var (
	levelsV = []tagged{{S: "strict", Valid: true}, {S: "permissive", Valid: true}, {S: "audit", Valid: true}, {S: "skip", Valid: true}, {S: ""}, {S: "Strict"}, {S: "custom"}, {S: "none"}, {S: "strict "}}
	vtV     = []tagged{{S: "", Valid: true}, {S: "always", Valid: true}, {S: "afterCertExpiry", Valid: true}, {S: "never"}, {S: "Always"}, {S: "aftercertexpiry"}}
	storesV = []tagged{{S: "ca:a", Valid: true}, {S: "ca:b.c", Valid: true}, {S: "signingAuthority:s_1", Valid: true}, {S: "tsa:t-1", Valid: true}, {S: "ca:A-1_b.crt", Valid: true},
		{S: "ca"}, {S: "ca:"}, {S: ":x"}, {S: "foo:x"}, {S: "ca:a/b"}, {S: "ca:.."}, {S: "ca:."}, {S: "ca:a b"}, {S: "CA:x"}, {S: "ca:a\\b"}, {S: "tsa:../x"}, {S: "signingauthority:x"}, {S: "ca:a:b"}, {S: ""},
		// white space at either end is part of the value (the name is handed to the trust store as written)
		{S: "ca:acme "}, {S: " ca:acme"}, {S: "ca:acme\n"}, {S: "\tca:acme"}, {S: "ca: acme"}, {S: "tsa:t-1 "}}
	idsV = []tagged{
		{S: "*", Valid: true, kind: "wild"},
		{S: "x509.subject:C=US,ST=WA,O=o1", Valid: true, kind: "x509", attrs: map[string]string{"C": "US", "ST": "WA", "O": "o1"}},
		{S: "x509.subject:C=US, S=WA, O=o1, CN=c", Valid: true, kind: "x509", attrs: map[string]string{"C": "US", "ST": "WA", "O": "o1", "CN": "c"}},
		{S: "x509.subject:O=o2,ST=WA,C=US", Valid: true, kind: "x509", attrs: map[string]string{"C": "US", "ST": "WA", "O": "o2"}},
		{S: "x509.subject:C=DE,ST=BY,O=o3,OU=u", Valid: true, kind: "x509", attrs: map[string]string{"C": "DE", "ST": "BY", "O": "o3", "OU": "u"}},
		{S: "x509.subject:C=DE,ST=BY,O=o3,OU=v,CN=x", Valid: true, kind: "x509", attrs: map[string]string{"C": "DE", "ST": "BY", "O": "o3", "OU": "v", "CN": "x"}},
		{S: "x509.subject:CN=q\\,r,O=o4,S=NY,C=US", Valid: true, kind: "x509", attrs: map[string]string{"C": "US", "ST": "NY", "O": "o4", "CN": "q,r"}},
		{S: "foo:bar", Valid: true, kind: "other"},
		{S: "did:example:123", Valid: true, kind: "other"},
		{S: "x509.subject:", kind: "x509"},
		{S: "x509.subject:C=US,ST=WA", kind: "x509"},
		{S: "x509.subject:C=US,O=o", kind: "x509"},
		{S: "x509.subject:ST=WA,O=o", kind: "x509"},
		{S: "x509.subject:C=US,ST=WA,O=o,C=DE", kind: "x509"},
		{S: "x509.subject:C=US+ST=WA,O=o", kind: "x509"},
		{S: "x509.subject:C=US,ST=WA,O=o,CN=a=#b", kind: "x509"},
		{S: "x509.subject:C=US,,O=o", kind: "x509"},
		{S: "x509.subject:C=US,ST=WA,S=OR,O=o", kind: "x509"},
		{S: "x509.subject:not a dn", kind: "x509"},
		// a mandatory attribute that is present with an EMPTY value does not "contain C, ST and O"
		{S: "x509.subject:C=US,ST=WA,O=", kind: "x509"},
		{S: "x509.subject:C=,ST=WA,O=o", kind: "x509"},
		{S: "x509.subject:C=US,S=,O=o,CN=x", kind: "x509"},
		{S: "x509.subject:C=US,ST=WA,O= ,CN=x", kind: "x509"},
		// syntax damage AFTER a complete C, ST, O front
		{S: "x509.subject:C=US,ST=WA,O=o,,CN=x", kind: "x509"},
		{S: "x509.subject:C=US,ST=WA,O=o,CN", kind: "x509"},
		{S: "x509.subject:C=US,ST=WA,O=o,CN=x\\", kind: "x509"},
		{S: "x509.subject:C=US,ST=WA,O=o,", kind: "x509"},
		// the same general identity as idsV[1] spelled with the alias S, and a more specific one spelled with ST (and the reverse spelling)
		{S: "x509.subject:C=US,S=WA,O=o1", Valid: true, kind: "x509", attrs: map[string]string{"C": "US", "ST": "WA", "O": "o1"}},
		{S: "x509.subject:C=US,ST=WA,O=o1,CN=release", Valid: true, kind: "x509", attrs: map[string]string{"C": "US", "ST": "WA", "O": "o1", "CN": "release"}},
		{S: "x509.subject:C=DE,S=BY,O=o3", Valid: true, kind: "x509", attrs: map[string]string{"C": "DE", "ST": "BY", "O": "o3"}},
		// colons inside the DN: the value of the identity is everything after the FIRST colon
		{S: "x509.subject:CN=urn:example:signer,C=US,ST=WA,O=o5", Valid: true, kind: "x509", attrs: map[string]string{"C": "US", "ST": "WA", "O": "o5", "CN": "urn:example:signer"}},
		{S: "x509.subject:C=US,ST=WA,O=o6:Unit-A", Valid: true, kind: "x509", attrs: map[string]string{"C": "US", "ST": "WA", "O": "o6:Unit-A"}},
		{S: "x509.subject:C=US,ST=WA,O=o6:Unit-B", Valid: true, kind: "x509", attrs: map[string]string{"C": "US", "ST": "WA", "O": "o6:Unit-B"}},
		{S: "x509.subject:C=US,ST=WA,O=o:,,,", kind: "x509"},
		// values given as RFC 4514 hex strings (#<BER>): not accepted in any attribute, decodable or not
		{S: "x509.subject:C=US,ST=WA,O=#0c0441636d65", kind: "x509"},
		{S: "x509.subject:C=#13025553,ST=WA,O=o", kind: "x509"},
		{S: "x509.subject:C=US,ST=WA,O=o,CN=#04024869", kind: "x509"},
		{S: "x509.subject:C=US,ST=WA,O=#zz", kind: "x509"},
		// identities that differ in letter case only are different identities (values are compared exactly): no overlap
		{S: "x509.subject:C=US,ST=WA,O=Acme", Valid: true, kind: "x509", attrs: map[string]string{"C": "US", "ST": "WA", "O": "Acme"}},
		{S: "x509.subject:C=US,ST=WA,O=ACME,CN=build", Valid: true, kind: "x509", attrs: map[string]string{"C": "US", "ST": "WA", "O": "ACME", "CN": "build"}},
		{S: "x509.subject:C=us,ST=WA,O=Acme,CN=build", Valid: true, kind: "x509", attrs: map[string]string{"C": "us", "ST": "WA", "O": "Acme", "CN": "build"}},
		{S: "x509.subject:C=US,ST=WA,O=o:x,CN=a+OU=b", kind: "x509"},
		{S: "x509.subject:C=US,ST=WA,O=o:x,C=DE", kind: "x509"},
		{S: "x509.subject:C=US,ST=WA:x", kind: "x509"},
		// attribute type names are what they are: lower-case spellings of the mandatory ones are other attributes
		{S: "x509.subject:c=US,st=WA,o=o", kind: "x509"},
		{S: "x509.subject:C=US,s=WA,O=o", kind: "x509"},
		{S: "x509.subject:C=US,ST=WA,o=o", kind: "x509"},
		{S: "x509.subject:C=US,ST=WA,O=o7,CN=a,cn=b", Valid: true, kind: "x509", attrs: map[string]string{"C": "US", "ST": "WA", "O": "o7", "CN": "a", "cn": "b"}},
	}
	scopesV = []tagged{{S: "*", Valid: true, kind: "wild"}, {S: "reg.io/a", Valid: true}, {S: "reg.io/a/b", Valid: true}, {S: "reg.io/ab", Valid: true}, {S: "localhost:5000/x", Valid: true}, {S: "r-1.example.com/a_b/c-d", Valid: true}, {S: "REG.io/a", Valid: true}, {S: "reg.io/b", Valid: true}, {S: "reg.io/c", Valid: true},
		{S: "reg.io"}, {S: "reg.io/A"}, {S: "reg.io/a:tag"}, {S: "https://reg.io/a"}, {S: "reg.io/a/"}, {S: "reg.io//a"}, {S: "reg.io/*"}, {S: ""}, {S: "reg.io/a@sha256:abc"}, {S: "/a"}, {S: "**"},
		// labels of the registry part joined by something other than a dot, or a host[:port] followed by something else
		{S: "registry_acme_io/app"}, {S: "user@registry.acme.io/app"}, {S: "registry.acme.io:port/app"}, {S: "registry.acme.io:80:80/app"}, {S: "registry acme/app"}, {S: "reg,io/a"}, {S: "reg#io/a"},
		{S: "reg.io:5000x/a"}, {S: "reg.io./a"}, {S: "reg.io-/a"}, {S: "reg.io /a"}}
	namesV    = []tagged{{S: "n1", Valid: true}, {S: "n2", Valid: true}, {S: "n 3", Valid: true}, {S: "ü", Valid: true}, {S: "n5", Valid: true}, {S: "N1", Valid: true}, {S: " ", Valid: true}, {S: "\t", Valid: true}, {S: ""}} // (a name made of white space is not the empty name)
	versionsV = []tagged{{S: "1.0", Valid: true}, {S: ""}, {S: "2.0"}, {S: "1"}, {S: "1.0.0"}, {S: "v1.0"}}
)

type ovr struct {
	M     map[trustpolicy.ValidationType]trustpolicy.ValidationAction
	Valid bool
}

var overridesV = []ovr{
	{nil, true}, {map[trustpolicy.ValidationType]trustpolicy.ValidationAction{}, true},
	{map[trustpolicy.ValidationType]trustpolicy.ValidationAction{"authenticity": "log"}, true},
	{map[trustpolicy.ValidationType]trustpolicy.ValidationAction{"revocation": "skip", "expiry": "enforce"}, true},
	{map[trustpolicy.ValidationType]trustpolicy.ValidationAction{"authenticTimestamp": "log", "revocation": "log"}, true},
	{map[trustpolicy.ValidationType]trustpolicy.ValidationAction{"authenticity": "enforce", "authenticTimestamp": "enforce", "expiry": "enforce", "revocation": "enforce"}, true},
	{map[trustpolicy.ValidationType]trustpolicy.ValidationAction{"integrity": "log"}, false},
	{map[trustpolicy.ValidationType]trustpolicy.ValidationAction{"integrity": "enforce"}, false},
	{map[trustpolicy.ValidationType]trustpolicy.ValidationAction{"integrity": "skip"}, false},
	{map[trustpolicy.ValidationType]trustpolicy.ValidationAction{"authenticity": "skip"}, false},
	{map[trustpolicy.ValidationType]trustpolicy.ValidationAction{"expiry": "skip"}, false},
	{map[trustpolicy.ValidationType]trustpolicy.ValidationAction{"authenticTimestamp": "skip"}, false},
	{map[trustpolicy.ValidationType]trustpolicy.ValidationAction{"bogus": "log"}, false},
	{map[trustpolicy.ValidationType]trustpolicy.ValidationAction{"Expiry": "log"}, false},
	{map[trustpolicy.ValidationType]trustpolicy.ValidationAction{"Integrity": "log"}, false},
	{map[trustpolicy.ValidationType]trustpolicy.ValidationAction{"INTEGRITY": "skip", "expiry": "log"}, false},
	{map[trustpolicy.ValidationType]trustpolicy.ValidationAction{"Revocation": "skip"}, false},
	{map[trustpolicy.ValidationType]trustpolicy.ValidationAction{"expiry": "Enforce"}, false},
	{map[trustpolicy.ValidationType]trustpolicy.ValidationAction{"revocation": ""}, false},
	{map[trustpolicy.ValidationType]trustpolicy.ValidationAction{"revocation": "audit"}, false},
	// one malformed entry among well-formed ones (the verdict must not depend on the order in which a map is walked)
	{map[trustpolicy.ValidationType]trustpolicy.ValidationAction{"expiry": "log", "bogus": "log"}, false},
	{map[trustpolicy.ValidationType]trustpolicy.ValidationAction{"authenticity": "log", "expiry": "Enforce"}, false},
	{map[trustpolicy.ValidationType]trustpolicy.ValidationAction{"revocation": "log", "Expiry": "log"}, false},
	{map[trustpolicy.ValidationType]trustpolicy.ValidationAction{"authenticTimestamp": "log", "revocation": "audit"}, false},
	{map[trustpolicy.ValidationType]trustpolicy.ValidationAction{"authenticity": "enforce", "authenticTimestamp": "enforce", "expiry": "enforce", "revocation": "enforce", "": "enforce"}, false},
	{map[trustpolicy.ValidationType]trustpolicy.ValidationAction{"authenticity": "log", "authenticTimestamp": "log", "expiry": "log", "revocation": "logg"}, false},
}

type stmt struct {
	Name   tagged
	Level  tagged
	Ov     ovr
	VT     tagged
	Stores []tagged
	IDs    []tagged
	Scopes []tagged
	Global bool
}

type docT struct {
	Version tagged
	St      []stmt
}

func (d docT) clone() docT {
	out := docT{Version: d.Version}
	for _, s := range d.St {
		c := s
		c.Stores = append([]tagged(nil), s.Stores...)
		c.IDs = append([]tagged(nil), s.IDs...)
		c.Scopes = append([]tagged(nil), s.Scopes...)
		out.St = append(out.St, c)
	}
	return out
}

func subsetAttrs(a, b map[string]string) bool {
	for k, v := range a {
		if w, ok := b[k]; !ok || w != v {
			return false
		}
	}
	return true
}

func (s stmt) coreValid() (bool, string) {
	if !s.Name.Valid {
		return false, "name"
	}
	if !s.Level.Valid {
		return false, "level"
	}
	if !s.Ov.Valid {
		return false, "override"
	}
	if s.Level.S == "skip" && len(s.Ov.M) > 0 {
		return false, "override-on-skip"
	}
	if !s.VT.Valid {
		return false, "verifyTimestamp"
	}
	if s.Level.S == "skip" {
		if len(s.Stores) > 0 || len(s.IDs) > 0 {
			return false, "skip-with-stores-or-identities"
		}
		return true, ""
	}
	if len(s.Stores) == 0 || len(s.IDs) == 0 {
		return false, "missing-stores-or-identities"
	}
	for _, st := range s.Stores {
		if !st.Valid {
			return false, "store"
		}
	}
	for i, id := range s.IDs {
		if !id.Valid {
			return false, "identity"
		}
		if id.kind == "wild" && len(s.IDs) > 1 {
			return false, "wildcard-identity-not-alone"
		}
		for j, jd := range s.IDs {
			if i != j && id.kind == "x509" && jd.kind == "x509" && subsetAttrs(id.attrs, jd.attrs) {
				return false, "identity-overlap"
			}
		}
	}
	return true, ""
}

// modelValid evaluates the statement's rules on the tags.
func modelValid(d docT, kind string) (bool, string) {
	if !d.Version.Valid {
		return false, "version"
	}
	if len(d.St) == 0 {
		return false, "zero-statements"
	}
	names := map[string]int{}
	scopeUse := map[string]int{}
	globals := 0
	for _, s := range d.St {
		if ok, w := s.coreValid(); !ok {
			return false, w
		}
		names[s.Name.S]++
		if kind == "oci" {
			if len(s.Scopes) == 0 {
				return false, "zero-scopes"
			}
			for _, sc := range s.Scopes {
				if !sc.Valid {
					return false, "scope"
				}
				if sc.kind == "wild" && len(s.Scopes) > 1 {
					return false, "wildcard-scope-not-alone"
				}
				scopeUse[sc.S]++
			}
		} else if s.Global {
			globals++
			if s.Level.S == "skip" {
				return false, "global-skip"
			}
		}
	}
	for _, c := range names {
		if c > 1 {
			return false, "duplicate-name"
		}
	}
	for _, c := range scopeUse {
		if c > 1 {
			return false, "scope-reused"
		}
	}
	if globals > 1 {
		return false, "two-globals"
	}
	return true, ""
}

func strs(ts []tagged) []string {
	if ts == nil {
		return nil
	}
	out := []string{}
	for _, t := range ts {
		out = append(out, t.S)
	}
	return out
}

func (d docT) oci() *trustpolicy.OCIDocument {
	doc := &trustpolicy.OCIDocument{Version: d.Version.S}
	for _, s := range d.St {
		doc.TrustPolicies = append(doc.TrustPolicies, trustpolicy.OCITrustPolicy{Name: s.Name.S, SignatureVerification: trustpolicy.SignatureVerification{VerificationLevel: s.Level.S, Override: s.Ov.M, VerifyTimestamp: trustpolicy.TimestampOption(s.VT.S)}, TrustStores: strs(s.Stores), TrustedIdentities: strs(s.IDs), RegistryScopes: strs(s.Scopes)})
	}
	return doc
}
func (d docT) blob() *trustpolicy.BlobDocument {
	doc := &trustpolicy.BlobDocument{Version: d.Version.S}
	for _, s := range d.St {
		doc.TrustPolicies = append(doc.TrustPolicies, trustpolicy.BlobTrustPolicy{Name: s.Name.S, SignatureVerification: trustpolicy.SignatureVerification{VerificationLevel: s.Level.S, Override: s.Ov.M, VerifyTimestamp: trustpolicy.TimestampOption(s.VT.S)}, TrustStores: strs(s.Stores), TrustedIdentities: strs(s.IDs), GlobalPolicy: s.Global})
	}
	return doc
}

func pick(rng *lib.Rand, v []tagged, pValid int) tagged {
	want := rng.Chance(pValid)
	for {
		x := v[rng.Intn(len(v))]
		if x.Valid == want {
			return x
		}
	}
}
func pickOv(rng *lib.Rand, pValid int) ovr {
	want := rng.Chance(pValid)
	for {
		x := overridesV[rng.Intn(len(overridesV))]
		if x.Valid == want {
			return x
		}
	}
}

// genStmt assembles a statement; pv is the per-element probability (percent) of drawing a valid element.
func genStmt(rng *lib.Rand, pv int) stmt {
	s := stmt{Name: pick(rng, namesV, pv), Level: pick(rng, levelsV, pv), VT: pick(rng, vtV, pv), Ov: pickOv(rng, pv)}
	if s.Level.S == "skip" && rng.Chance(pv) {
		s.Ov = overridesV[rng.Intn(2)]
		if !rng.Chance(pv) {
			s.Stores = append(s.Stores, pick(rng, storesV, 100))
		}
		if !rng.Chance(pv) {
			s.IDs = append(s.IDs, pick(rng, idsV, 100))
		}
	} else {
		for i, n := 0, rng.Intn(3); i <= n; i++ {
			if rng.Chance(97) || pv == 100 {
				s.Stores = append(s.Stores, pick(rng, storesV, pv))
			}
		}
		if rng.Intn(4) == 0 {
			s.IDs = []tagged{idsV[0]}
		} else if rng.Intn(12) == 0 {
			// two or three identities that would overlap if values were compared without regard to letter case
			var twins []tagged
			for _, t := range idsV {
				if t.Valid && t.kind == "x509" && strings.EqualFold(t.attrs["O"], "acme") {
					twins = append(twins, t)
				}
			}
			pm := rng.Perm(len(twins))
			for k := 0; k < 2+rng.Intn(len(twins)-1); k++ {
				s.IDs = append(s.IDs, twins[pm[k]])
			}
		} else {
			for i, n := 0, rng.Intn(3); i <= n; i++ {
				s.IDs = append(s.IDs, pick(rng, idsV[1:], pv))
			}
		}
		if !rng.Chance(pv) {
			s.IDs = append(s.IDs, idsV[0])
		}
		if !rng.Chance(pv) && rng.Bool() {
			s.IDs = nil
		}
	}
	if rng.Intn(5) == 0 {
		s.Scopes = []tagged{scopesV[0]}
		if !rng.Chance(pv) {
			s.Scopes = append(s.Scopes, pick(rng, scopesV[1:], 100))
		}
	} else {
		seen := map[string]bool{}
		for i, n := 0, rng.Intn(3); i <= n; i++ {
			sc := pick(rng, scopesV[1:], pv)
			if !seen[sc.S] {
				seen[sc.S] = true
				s.Scopes = append(s.Scopes, sc)
			}
		}
	}
	if !rng.Chance(pv) && rng.Bool() {
		s.Scopes = nil
	}
	s.Global = rng.Intn(4) == 0
	return s
}

// genValid draws documents until the model calls one valid for both kinds.
func genValid(rng *lib.Rand) docT {
	for {
		d := docT{Version: versionsV[0]}
		n := 1 + rng.Intn(4)
		for i := 0; i < n; i++ {
			d.St = append(d.St, genStmt(rng, 100))
		}
		a, _ := modelValid(d, "oci")
		b, _ := modelValid(d, "blob")
		if a && b {
			return d
		}
	}
}

// ---- edit operators: each violates one rule of the statement (kind = "" both, "oci" or "blob")
type operator struct {
	name string
	kind string
	f    func(d *docT, rng *lib.Rand) bool
}

func nonSkip(d *docT, rng *lib.Rand) *stmt {
	var idx []int
	for i := range d.St {
		if d.St[i].Level.S != "skip" && d.St[i].Level.Valid {
			idx = append(idx, i)
		}
	}
	if len(idx) == 0 {
		return nil
	}
	return &d.St[idx[rng.Intn(len(idx))]]
}
func anyStmt(d *docT, rng *lib.Rand) *stmt {
	if len(d.St) == 0 {
		return nil
	}
	return &d.St[rng.Intn(len(d.St))]
}
func invalidOf(v []tagged, rng *lib.Rand) tagged { return pick(rng, v, 0) }

func makeSkip(s *stmt) {
	s.Level = levelsV[3]
	s.Ov = overridesV[0]
	s.Stores, s.IDs = nil, nil
}

func ovWith(pred func(o ovr) bool, rng *lib.Rand) ovr {
	for {
		o := overridesV[rng.Intn(len(overridesV))]
		if pred(o) {
			return o
		}
	}
}

var operators = []operator{
	{"version-empty", "", func(d *docT, rng *lib.Rand) bool { d.Version = versionsV[1]; return true }},
	{"version-unsupported", "", func(d *docT, rng *lib.Rand) bool { d.Version = versionsV[2+rng.Intn(len(versionsV)-2)]; return true }},
	{"zero-statements", "", func(d *docT, rng *lib.Rand) bool { d.St = nil; return true }},
	{"duplicate-name", "", func(d *docT, rng *lib.Rand) bool {
		if len(d.St) == 0 {
			return false
		}
		c := genValid(rng).St[0]
		c.Name = d.St[rng.Intn(len(d.St))].Name
		c.Scopes = []tagged{{S: "dup.example/x" + fmt.Sprint(rng.Intn(1000)), Valid: true}}
		c.Global = false
		d.St = append(d.St, c)
		return true
	}},
	{"empty-name", "", func(d *docT, rng *lib.Rand) bool {
		if s := anyStmt(d, rng); s != nil {
			s.Name = namesV[len(namesV)-1]
			return true
		}
		return false
	}},
	{"unknown-level", "", func(d *docT, rng *lib.Rand) bool {
		if s := anyStmt(d, rng); s != nil {
			s.Level = invalidOf(levelsV, rng)
			return true
		}
		return false
	}},
	{"override-on-skip", "", func(d *docT, rng *lib.Rand) bool {
		if s := anyStmt(d, rng); s != nil {
			global := s.Global
			makeSkip(s)
			s.Global = global && false
			s.Ov = ovWith(func(o ovr) bool { return o.Valid && len(o.M) > 0 }, rng)
			return true
		}
		return false
	}},
	{"override-of-integrity", "", func(d *docT, rng *lib.Rand) bool {
		if s := nonSkip(d, rng); s != nil {
			s.Ov = ovWith(func(o ovr) bool { _, ok := o.M["integrity"]; return ok }, rng)
			return true
		}
		return false
	}},
	{"skip-for-non-revocation-type", "", func(d *docT, rng *lib.Rand) bool {
		if s := nonSkip(d, rng); s != nil {
			s.Ov = ovWith(func(o ovr) bool {
				for k, v := range o.M {
					if v == "skip" && k != "revocation" && k != "integrity" {
						return true
					}
				}
				return false
			}, rng)
			return true
		}
		return false
	}},
	{"unknown-override-key-or-action", "", func(d *docT, rng *lib.Rand) bool {
		if s := nonSkip(d, rng); s != nil {
			s.Ov = ovWith(func(o ovr) bool {
				if o.Valid {
					return false
				}
				for k, v := range o.M {
					if k == "integrity" || (v == "skip" && (k == "authenticity" || k == "expiry" || k == "authenticTimestamp")) {
						return false // those belong to other operators
					}
				}
				return true
			}, rng)
			return true
		}
		return false
	}},
	{"unknown-verifyTimestamp", "", func(d *docT, rng *lib.Rand) bool {
		if s := anyStmt(d, rng); s != nil {
			s.VT = invalidOf(vtV, rng)
			return true
		}
		return false
	}},
	{"no-trust-store", "", func(d *docT, rng *lib.Rand) bool {
		if s := nonSkip(d, rng); s != nil {
			if rng.Bool() {
				s.Stores = nil
			} else {
				s.Stores = []tagged{}
			}
			return true
		}
		return false
	}},
	{"no-identity", "", func(d *docT, rng *lib.Rand) bool {
		if s := nonSkip(d, rng); s != nil {
			s.IDs = nil
			return true
		}
		return false
	}},
	{"store-on-skip", "", func(d *docT, rng *lib.Rand) bool {
		if s := anyStmt(d, rng); s != nil {
			makeSkip(s)
			s.Global = false
			s.Stores = []tagged{pick(rng, storesV, 100)}
			return true
		}
		return false
	}},
	{"identity-on-skip", "", func(d *docT, rng *lib.Rand) bool {
		if s := anyStmt(d, rng); s != nil {
			makeSkip(s)
			s.Global = false
			s.IDs = []tagged{pick(rng, idsV, 100)}
			return true
		}
		return false
	}},
	{"malformed-store", "", func(d *docT, rng *lib.Rand) bool {
		if s := nonSkip(d, rng); s != nil {
			bad := invalidOf(storesV, rng)
			pos := rng.Intn(len(s.Stores) + 1)
			s.Stores = append(s.Stores[:pos], append([]tagged{bad}, s.Stores[pos:]...)...)
			return true
		}
		return false
	}},
	{"wildcard-identity-plus-other", "", func(d *docT, rng *lib.Rand) bool {
		if s := nonSkip(d, rng); s != nil {
			other := pick(rng, idsV[1:], 100)
			if rng.Bool() {
				s.IDs = []tagged{idsV[0], other}
			} else {
				s.IDs = []tagged{other, idsV[0]}
			}
			return true
		}
		return false
	}},
	{"bad-x509-identity", "", func(d *docT, rng *lib.Rand) bool {
		if s := nonSkip(d, rng); s != nil {
			bad := invalidOf(idsV, rng)
			if len(s.IDs) == 1 && s.IDs[0].kind == "wild" {
				s.IDs = []tagged{bad}
			} else {
				pos := rng.Intn(len(s.IDs) + 1)
				s.IDs = append(s.IDs[:pos], append([]tagged{bad}, s.IDs[pos:]...)...)
			}
			return true
		}
		return false
	}},
	{"overlapping-identities", "", func(d *docT, rng *lib.Rand) bool {
		if s := nonSkip(d, rng); s != nil {
			// idsV[1] (C,ST,O=o1) is contained in idsV[2] (C,S,O=o1,CN=c); idsV[4] in nothing, idsV[1] twice is a duplicate
			ix := func(s string) int {
				for i, t := range idsV {
					if t.S == s {
						return i
					}
				}
				panic("harness bug: no identity " + s)
			}
			gA, sA, gDE := ix("x509.subject:C=US,S=WA,O=o1"), ix("x509.subject:C=US,ST=WA,O=o1,CN=release"), ix("x509.subject:C=DE,S=BY,O=o3")
			pairs := [][2]int{{1, 2}, {2, 1}, {1, 1}, {3, 3}, {gA, sA}, {sA, gA}, {gDE, 4}, {5, gDE}, {gA, 1}}
			p := pairs[rng.Intn(len(pairs))]
			s.IDs = []tagged{idsV[p[0]], idsV[p[1]]}
			if rng.Bool() {
				s.IDs = append(s.IDs, idsV[7])
			}
			return true
		}
		return false
	}},
	{"invalid-scope", "oci", func(d *docT, rng *lib.Rand) bool {
		if s := anyStmt(d, rng); s != nil {
			bad := invalidOf(scopesV, rng)
			if len(s.Scopes) == 1 && s.Scopes[0].kind == "wild" {
				s.Scopes = []tagged{bad}
			} else {
				s.Scopes = append(s.Scopes, bad)
			}
			return true
		}
		return false
	}},
	{"zero-scopes", "oci", func(d *docT, rng *lib.Rand) bool {
		if s := anyStmt(d, rng); s != nil {
			s.Scopes = nil
			return true
		}
		return false
	}},
	{"wildcard-scope-plus-other", "oci", func(d *docT, rng *lib.Rand) bool {
		if s := anyStmt(d, rng); s != nil {
			s.Scopes = []tagged{scopesV[0], {S: "extra.example/r" + fmt.Sprint(rng.Intn(1000)), Valid: true}}
			if rng.Bool() {
				s.Scopes[0], s.Scopes[1] = s.Scopes[1], s.Scopes[0]
			}
			return true
		}
		return false
	}},
	{"scope-reused", "oci", func(d *docT, rng *lib.Rand) bool {
		if len(d.St) == 0 {
			return false
		}
		src := d.St[rng.Intn(len(d.St))]
		if len(src.Scopes) == 0 {
			return false
		}
		c := genValid(rng).St[0]
		c.Name = tagged{S: "reuser" + fmt.Sprint(rng.Intn(1000)), Valid: true}
		c.Scopes = []tagged{src.Scopes[rng.Intn(len(src.Scopes))]}
		c.Global = false
		d.St = append(d.St, c)
		return true
	}},
	{"two-globals", "blob", func(d *docT, rng *lib.Rand) bool {
		n := 0
		for i := range d.St {
			if d.St[i].Level.S != "skip" && n < 2 {
				d.St[i].Global = true
				n++
			}
		}
		for n < 2 {
			c := genValid(rng).St[0]
			if c.Level.S == "skip" {
				continue
			}
			c.Name = tagged{S: "g" + fmt.Sprint(rng.Intn(100000)), Valid: true}
			c.Scopes = []tagged{{S: "g.example/r" + fmt.Sprint(rng.Intn(100000)), Valid: true}}
			c.Global = true
			d.St = append(d.St, c)
			n++
		}
		return true
	}},
	{"global-skip", "blob", func(d *docT, rng *lib.Rand) bool {
		if s := anyStmt(d, rng); s != nil {
			for i := range d.St {
				d.St[i].Global = false
			}
			makeSkip(s)
			s.Global = true
			return true
		}
		return false
	}},
}

func main() {
	r := lib.Start("C09", "exploration")
	r.Rule = "grammar-valid base documents; each base x each of 25 rule-violating edit operators (x ordered pairs of operators); randomly assembled documents from the tagged vocabulary; each offered as OCI and as blob document; distinct by (JSON of the document, kind); non-trivial = every generated document (both accepted and rejected sides are needed)"
	r.Assumptions = []string{"ground truth is computed on the tags of the vocabulary (no regular expression or DN parser is re-implemented); the tags were cross-checked by hand against the statement",
		"identity strings outside the statement's vocabulary (no ':' separator, empty) are not used on the valid side"}
	nBase := r.N(150, 1500)
	nRandom := r.N(120000, 3000000)
	rngB := r.Rand("base")
	var bases []docT
	for i := 0; i < nBase; i++ {
		bases = append(bases, genValid(rngB))
	}

	check := func(d docT, origin string) {
		for _, kind := range []string{"oci", "blob"} {
			want, why := modelValid(d, kind)
			var err error
			var js string
			if kind == "oci" {
				doc := d.oci()
				js = jsonOf(doc)
				err = doc.Validate()
				if err == nil {
					for _, s := range doc.TrustPolicies {
						checkLevel(r, s.SignatureVerification, js)
					}
				}
			} else {
				doc := d.blob()
				js = jsonOf(doc)
				err = doc.Validate()
				if err == nil {
					for _, s := range doc.TrustPolicies {
						checkLevel(r, s.SignatureVerification, js)
					}
				}
			}
			r.Eval(kind + js)
			if err == nil {
				r.Event(kind + "-accepted")
			} else {
				r.Event(kind + "-rejected")
			}
			if !want {
				r.Event("model-invalid:" + why)
			}
			r.Sample(fmt.Sprintf("%s %s accepted=%v", origin, kind, err == nil), map[string]any{"document": json.RawMessage(js), "model_valid": want, "model_reason": why, "error": fmt.Sprint(err)})
			if want != (err == nil) {
				r.Violation(map[string]string{"kind": "validate", "doc": kind, "model_valid": fmt.Sprint(want), "why": why},
					fmt.Sprintf("%s document: model valid=%v (%s) but Validate returned %v", kind, want, why, err),
					map[string]any{"document": json.RawMessage(js), "origin": origin})
			}
		}
	}

	// 1. base documents
	for i, b := range bases {
		check(b, fmt.Sprintf("base-%d", i))
	}
	// 2. one and two edits
	lib.Parallel(len(bases), 16, func(bi int) {
		rng := r.Rand(fmt.Sprintf("edits-%d", bi))
		for oi, op := range operators {
			d := bases[bi].clone()
			if !op.f(&d, rng) {
				continue
			}
			for _, kind := range []string{"oci", "blob"} {
				if op.kind == "" || op.kind == kind {
					if ok, _ := modelValid(d, kind); ok {
						panic(fmt.Sprintf("harness bug: operator %s left the %s document valid: %s", op.name, kind, jsonOf(d)))
					}
				}
			}
			r.Event("edit:" + op.name)
			check(d, "edit:"+op.name)
			// ordered pairs
			for oj, op2 := range operators {
				if r.Quick() && (oi+oj+bi)%2 != 0 {
					continue
				}
				d2 := d.clone()
				if !op2.f(&d2, rng) {
					continue
				}
				r.Event("edit-pairs")
				check(d2, "edit:"+op.name+"+"+op2.name)
			}
		}
	}, r.PanicViolation("Validate"))
	// 3. random assembly
	lib.Parallel(nRandom, 16, func(i int) {
		rng := r.Rand(fmt.Sprintf("random-%d", i))
		pv := []int{100, 97, 90}[rng.Intn(3)]
		d := docT{Version: pick(rng, versionsV, pv)}
		n := rng.Intn(4)
		if rng.Chance(98) {
			n++
		}
		for k := 0; k < n; k++ {
			d.St = append(d.St, genStmt(rng, pv))
		}
		check(d, "random")
		// 4. validation is forced when a verifier is constructed (sampled)
		if i%20 == 0 {
			wo, _ := modelValid(d, "oci")
			wb, _ := modelValid(d, "blob")
			_, err := verifier.NewVerifierWithOptions(lib.NewMemTS(), verifier.VerifierOptions{OCITrustPolicy: d.oci(), BlobTrustPolicy: d.blob()})
			r.Event("verifier-constructions")
			if (err == nil) != (wo && wb) {
				r.Violation(map[string]string{"kind": "verifier-construction", "model_valid": fmt.Sprint(wo && wb)}, fmt.Sprintf("NewVerifierWithOptions err=%v, model valid oci=%v blob=%v", err, wo, wb), map[string]any{"oci": d.oci(), "blob": d.blob()})
			}
		}
	}, r.PanicViolation("Validate"))

	r.RequireAtLeast("oci-accepted", 1000)
	r.RequireAtLeast("blob-accepted", 1000)
	r.RequireAtLeast("oci-rejected", 1000)
	r.RequireAtLeast("blob-rejected", 1000)
	for _, op := range operators {
		r.RequireAtLeast("edit:"+op.name, 5)
	}
	r.Finish()
}

func checkLevel(r *lib.Run, sv trustpolicy.SignatureVerification, js string) {
	lvl, err := sv.GetVerificationLevel()
	r.Event("levels-checked")
	if err != nil || lvl == nil {
		r.Violation(map[string]string{"kind": "level-of-accepted-document"}, fmt.Sprintf("accepted document has a statement whose level cannot be derived: %v", err), map[string]any{"document": json.RawMessage(js)})
		return
	}
	if lvl.Name != "skip" && lvl.Enforcement[trustpolicy.TypeIntegrity] != trustpolicy.ActionEnforce {
		r.Violation(map[string]string{"kind": "integrity-not-enforced"}, fmt.Sprintf("accepted non-skip statement yields integrity action %q", lvl.Enforcement[trustpolicy.TypeIntegrity]), map[string]any{"document": json.RawMessage(js)})
	}
	if lvl.Name == "skip" && sv.VerificationLevel != "skip" {
		r.Violation(map[string]string{"kind": "integrity-not-enforced"}, "a non-skip statement yields the skip level", map[string]any{"document": json.RawMessage(js)})
	}
}

func jsonOf(v any) string {
	b, _ := json.Marshal(v)
	return string(b)
}
