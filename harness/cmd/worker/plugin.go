package main

import (
	"encoding/json"
	"fmt"
	"io"
	"os"
	"os/exec"
	"os/signal"
	"path/filepath"
	"strconv"
	"strings"
	"syscall"
	"time"
)

// Behavior scripts what the worker does when the library runs it as a plugin
// executable (`<path> <command>`, request on stdin). It is read from
// <path>.behavior.json: a map command -> Behavior, "*" = default.
type Behavior struct {
	Exit         int    `json:"exit"`
	KillSelf     bool   `json:"kill_self"`   // die by SIGKILL instead of exiting
	Stdout       string `json:"stdout"`      // literal reply
	StdoutFill   int64  `json:"stdout_fill"` // then this many filler bytes
	Stderr       string `json:"stderr"`      // literal stderr
	StderrFill   int64  `json:"stderr_fill"` // then this many filler bytes
	SleepMS      int    `json:"sleep_ms"`    // sleep before replying
	IgnoreTERM   bool   `json:"ignore_term"` // ignore SIGTERM/SIGINT
	Child        string `json:"child"`       // "hold": spawn a descendant that inherits stdout/stderr and sleeps; "hold2": via an intermediate process
	ChildSleepMS int    `json:"child_sleep_ms"`
	ExitFirst    bool   `json:"exit_first"`   // with Child: exit immediately after spawning (else sleep SleepMS first)
	StderrFirst  bool   `json:"stderr_first"` // print stderr BEFORE sleeping (a plugin that reports its error and then hangs)
}

var pluginCommands = map[string]bool{"get-plugin-metadata": true, "describe-key": true, "generate-signature": true, "generate-envelope": true, "verify-signature": true}

func fill(w io.Writer, n int64) {
	chunk := []byte(strings.Repeat("x", 1<<20))
	for n > 0 {
		c := int64(len(chunk))
		if n < c {
			c = n
		}
		if _, err := w.Write(chunk[:c]); err != nil {
			return
		}
		n -= c
	}
}

// pluginMode implements the scripted plugin / sentinel. It always leaves a marker <exe>.executed.
func pluginMode(cmd string) {
	exe := os.Args[0]
	if f, err := os.OpenFile(exe+".executed", os.O_CREATE|os.O_APPEND|os.O_WRONLY, 0o644); err == nil {
		fmt.Fprintf(f, "%s\n", cmd)
		f.Close()
	}
	io.Copy(io.Discard, io.LimitReader(os.Stdin, 1<<26))
	var b Behavior
	haveBehavior := false
	if raw, err := os.ReadFile(exe + ".behavior.json"); err == nil {
		var m map[string]Behavior
		if json.Unmarshal(raw, &m) == nil {
			if x, ok := m[cmd]; ok {
				b, haveBehavior = x, true
			} else if x, ok := m["*"]; ok {
				b, haveBehavior = x, true
			}
		}
	}
	if !haveBehavior {
		// sentinel default: valid metadata; the name to claim is in <exe>.name, else derived from the file name
		name := strings.TrimPrefix(filepath.Base(exe), "notation-")
		if raw, err := os.ReadFile(exe + ".name"); err == nil {
			name = string(raw)
		}
		if cmd == "get-plugin-metadata" {
			out, _ := json.Marshal(map[string]any{"name": name, "description": "sentinel", "version": "1.0.0", "url": "https://example.invalid",
				"supportedContractVersions": []string{"1.0"}, "capabilities": []string{"SIGNATURE_VERIFIER.TRUSTED_IDENTITY", "SIGNATURE_VERIFIER.REVOCATION_CHECK"}})
			os.Stdout.Write(out)
			os.Exit(0)
		}
		if cmd == "verify-signature" {
			os.Stdout.WriteString(`{"verificationResults":{"SIGNATURE_VERIFIER.TRUSTED_IDENTITY":{"success":true},"SIGNATURE_VERIFIER.REVOCATION_CHECK":{"success":true}},"processedAttributes":[]}`)
			os.Exit(0)
		}
		os.Stderr.WriteString(`{"errorCode":"ERROR","errorMessage":"sentinel does not sign"}`)
		os.Exit(1)
	}
	if b.IgnoreTERM {
		signal.Ignore(syscall.SIGTERM, syscall.SIGINT, syscall.SIGHUP)
	}
	if b.Child != "" {
		arg := "__hold"
		if b.Child == "hold2" {
			arg = "__hold2"
		}
		c := exec.Command(exe, arg, strconv.Itoa(b.ChildSleepMS))
		c.Stdout, c.Stderr = os.Stdout, os.Stderr // the descendant inherits the pipes
		c.Start()
	}
	if b.StderrFirst {
		os.Stderr.WriteString(b.Stderr)
		b.Stderr = ""
	}
	if b.SleepMS > 0 && !b.ExitFirst {
		time.Sleep(time.Duration(b.SleepMS) * time.Millisecond)
	}
	os.Stdout.WriteString(b.Stdout)
	if b.StdoutFill > 0 {
		fill(os.Stdout, b.StdoutFill)
	}
	os.Stderr.WriteString(b.Stderr)
	if b.StderrFill > 0 {
		fill(os.Stderr, b.StderrFill)
	}
	if b.KillSelf {
		syscall.Kill(os.Getpid(), syscall.SIGKILL)
		time.Sleep(time.Minute)
	}
	os.Exit(b.Exit)
}

func init() {
	extraCmds["__hold"] = func(args []string) {
		ms, _ := strconv.Atoi(args[0])
		signal.Ignore(syscall.SIGTERM, syscall.SIGINT, syscall.SIGHUP, syscall.SIGPIPE)
		time.Sleep(time.Duration(ms) * time.Millisecond)
	}
	extraCmds["__hold2"] = func(args []string) {
		c := exec.Command(os.Args[0], "__hold", args[0])
		c.Stdout, c.Stderr = os.Stdout, os.Stderr
		c.Start()
		// the intermediate process exits at once; the grandchild keeps the pipes
	}
}
