// worker is the static helper that the monitors run as a child process:
//
//	worker cache-run   <spec.json>        free-running Set/Get workload on a cache directory, history to a file (C14)
//	worker cache-set   <dir> <url> <der>  one Set (crash-point runs: killed by hook / strace / timer) (C14)
//	worker cache-get   <dir> <url>...     one Get per URL, result ids as JSON on stdout (C14)
//	worker cache-fifo  <dir> <url> <der> <fifo-dir>   one Set, pausing at every hook point on FIFOs (C14)
//	worker plugin ...  / sentinel ... / jail ...       see the respective files (C16, C17, C20)
package main

import (
	"context"
	"encoding/json"
	"fmt"
	"os"
	"os/signal"
	"path/filepath"
	"runtime"
	"strconv"
	"strings"
	"syscall"
	"time"

	corecrl "github.com/notaryproject/notation-core-go/revocation/crl"
	"github.com/notaryproject/notation-go/internal/file"
	"github.com/notaryproject/notation-go/verifharness/hist"
	"github.com/notaryproject/notation-go/verifier/crl"
)

func fatal(f string, a ...any) {
	fmt.Fprintf(os.Stderr, "worker: "+f+"\n", a...)
	os.Exit(70)
}

func cacheRun(specPath string) {
	raw, err := os.ReadFile(specPath)
	if err != nil {
		fatal("%v", err)
	}
	var sp hist.RunSpec
	if err := json.Unmarshal(raw, &sp); err != nil {
		fatal("%v", err)
	}
	events, err := hist.Run(sp)
	if err != nil {
		fatal("%v", err)
	}
	out, _ := json.Marshal(events)
	if err := os.WriteFile(sp.Out, out, 0o644); err != nil {
		fatal("%v", err)
	}
}

func loadBundle(dir string, id int64) *corecrl.Bundle {
	b, err := hist.LoadBundle(dir, id)
	if err != nil {
		fatal("bundle %d: %v", id, err)
	}
	return b
}

func cacheSet(args []string) {
	if len(args) < 3 {
		fatal("usage: cache-set <dir> <url> <bundle-dir> <id>")
	}
	id, _ := strconv.ParseInt(args[3], 10, 64)
	// all file-system syscalls of this Set are issued from one OS thread, so that strace's per-thread
	// `when=N` counter enumerates them in program order
	runtime.LockOSThread()
	// VERIF_KILL_POINT=<point>: SIGKILL self at that hook point (crash point between file-system steps)
	if kp := os.Getenv("VERIF_KILL_POINT"); kp != "" {
		file.VerifHook = func(point, path string) {
			if point == kp {
				syscall.Kill(os.Getpid(), syscall.SIGKILL)
				time.Sleep(time.Hour)
			}
		}
	}
	// VERIF_PAUSE_POINT=<point> VERIF_PAUSE_MARK=<file>: at that hook point write the mark file and wait to be killed
	// from outside (a process that is pid 1 of its own pid namespace cannot kill itself)
	if pp := os.Getenv("VERIF_PAUSE_POINT"); pp != "" {
		file.VerifHook = func(point, path string) {
			if point == pp {
				os.WriteFile(os.Getenv("VERIF_PAUSE_MARK"), []byte(path), 0o644)
				time.Sleep(time.Hour)
			}
		}
	}
	c, err := crl.NewFileCache(args[0])
	if err != nil {
		fatal("%v", err)
	}
	b := loadBundle(args[2], id)
	// VERIF_REMOVE_DIR=1: the cache directory is cleaned away after the cache value was created (cache directories may be
	// cleaned at any time; a long-running process keeps its FileCache)
	if os.Getenv("VERIF_REMOVE_DIR") != "" {
		os.RemoveAll(args[0])
	}
	// VERIF_FSIZE_LIMIT=<bytes>: writes beyond this file size fail with EFBIG after a PARTIAL write (fault inside the write step)
	if lim := os.Getenv("VERIF_FSIZE_LIMIT"); lim != "" {
		n, _ := strconv.ParseUint(lim, 10, 64)
		signal.Ignore(syscall.SIGXFSZ)
		if err := syscall.Setrlimit(syscall.RLIMIT_FSIZE, &syscall.Rlimit{Cur: n, Max: n}); err != nil {
			fatal("setrlimit: %v", err)
		}
	}
	if os.Getenv("VERIF_READY_FILE") != "" {
		os.WriteFile(os.Getenv("VERIF_READY_FILE"), []byte("ready"), 0o644)
	}
	if err := c.Set(context.Background(), args[1], b); err != nil {
		fmt.Fprintf(os.Stderr, "set failed: %v\n", err)
		os.Exit(3)
	}
}

func cacheGet(args []string) {
	if len(args) < 3 {
		fatal("usage: cache-get <dir> <bundle-dir> <url>...")
	}
	c, err := crl.NewFileCache(args[0])
	if err != nil {
		fatal("%v", err)
	}
	var out []hist.GetResult
	for _, u := range args[2:] {
		b, err := c.Get(context.Background(), u)
		var g hist.GetResult
		g.URL = u
		g.ID, g.Bytes, g.Err = hist.Classify(args[1], b, err)
		out = append(out, g)
	}
	json.NewEncoder(os.Stdout).Encode(out)
}

// cacheFifo performs one Set and, at every hook point, writes "<point>\n" to <fifo-dir>/arrived and then blocks
// reading one byte from <fifo-dir>/grant: the parent schedules the step boundaries of a writer PROCESS.
func cacheFifo(args []string) {
	if len(args) < 5 {
		fatal("usage: cache-fifo <dir> <url> <bundle-dir> <id> <fifo-dir>")
	}
	id, _ := strconv.ParseInt(args[3], 10, 64)
	arr, err := os.OpenFile(filepath.Join(args[4], "arrived"), os.O_WRONLY, 0)
	if err != nil {
		fatal("%v", err)
	}
	gr, err := os.OpenFile(filepath.Join(args[4], "grant"), os.O_RDONLY, 0)
	if err != nil {
		fatal("%v", err)
	}
	file.VerifHook = func(point, path string) {
		arr.Write([]byte(point + "\n"))
		var b [1]byte
		gr.Read(b[:])
	}
	c, err := crl.NewFileCache(args[0])
	if err != nil {
		fatal("%v", err)
	}
	b := loadBundle(args[2], id)
	err = c.Set(context.Background(), args[1], b)
	msg := "done\n"
	if err != nil {
		msg = "error " + strings.ReplaceAll(err.Error(), "\n", " ") + "\n"
	}
	arr.Write([]byte(msg))
}

func main() {
	if len(os.Args) < 2 {
		fatal("usage: worker <command> ...")
	}
	if pluginCommands[os.Args[1]] {
		pluginMode(os.Args[1])
		return
	}
	switch os.Args[1] {
	case "cache-run":
		cacheRun(os.Args[2])
	case "cache-set":
		cacheSet(os.Args[2:])
	case "cache-get":
		cacheGet(os.Args[2:])
	case "cache-fifo":
		cacheFifo(os.Args[2:])
	default:
		if !extra(os.Args[1], os.Args[2:]) {
			fatal("unknown command %q", os.Args[1])
		}
	}
}
