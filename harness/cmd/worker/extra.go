package main

// extra dispatches the non-cache commands (plugin, sentinel, jail); filled in by other files.
var extraCmds = map[string]func(args []string){}

func extra(cmd string, args []string) bool {
	f, ok := extraCmds[cmd]
	if !ok {
		return false
	}
	f(args)
	return true
}
