package main

import (
	"bufio"
	"context"
	"encoding/json"
	"errors"
	"fmt"
	"os"
	"strconv"
	"strings"
	"time"

	"github.com/notaryproject/notation-go/plugin"
	"github.com/notaryproject/notation-go/plugin/proto"
	pf "github.com/notaryproject/notation-plugin-framework-go/plugin"
)

// HostSpec: one call of a CLIPlugin method from a fresh host process.
type HostSpec struct {
	Path       string `json:"path"`
	Name       string `json:"name"`
	Command    string `json:"command"`
	DeadlineMS int    `json:"deadline_ms"` // context deadline (0 = none)
	CancelMS   int    `json:"cancel_ms"`   // explicit cancel after this delay (0 = none)
}

// HostResult is what the host process observed.
type HostResult struct {
	OK          bool   `json:"ok"`
	ErrType     string `json:"err_type,omitempty"` // executable-file | malformed | request-error | other
	ErrCode     string `json:"err_code,omitempty"`
	ErrMsg      string `json:"err_msg,omitempty"`
	DurMS       int64  `json:"dur_ms"`
	AfterCtxMS  int64  `json:"after_ctx_ms"` // time between context expiry/cancel and return (-1: context never ended)
	HWMBeforeKB int64  `json:"hwm_before_kb"`
	HWMAfterKB  int64  `json:"hwm_after_kb"`
	Resp        any    `json:"resp,omitempty"`
}

func vmHWM() int64 {
	f, err := os.Open("/proc/self/status")
	if err != nil {
		return -1
	}
	defer f.Close()
	sc := bufio.NewScanner(f)
	for sc.Scan() {
		if strings.HasPrefix(sc.Text(), "VmHWM:") {
			fs := strings.Fields(sc.Text())
			v, _ := strconv.ParseInt(fs[1], 10, 64)
			return v
		}
	}
	return -1
}

func classifyErr(err error, res *HostResult) {
	res.ErrMsg = err.Error()
	var ef *plugin.PluginExecutableFileError
	var mf *plugin.PluginMalformedError
	var re proto.RequestError
	switch {
	case errors.As(err, &re):
		res.ErrType, res.ErrCode = "request-error", string(re.Code)
		if re.Err != nil {
			res.ErrMsg = re.Err.Error()
		}
	case errors.As(err, &ef):
		res.ErrType = "executable-file"
	case errors.As(err, &mf):
		res.ErrType = "malformed"
	default:
		res.ErrType = "other"
	}
}

func hostCall(args []string) {
	raw, err := os.ReadFile(args[0])
	if err != nil {
		fatal("%v", err)
	}
	var sp HostSpec
	if err := json.Unmarshal(raw, &sp); err != nil {
		fatal("%v", err)
	}
	ctx := context.Background()
	var cancel context.CancelFunc = func() {}
	ended := time.Time{}
	switch {
	case sp.DeadlineMS > 0:
		ctx, cancel = context.WithTimeout(ctx, time.Duration(sp.DeadlineMS)*time.Millisecond)
		ended = time.Now().Add(time.Duration(sp.DeadlineMS) * time.Millisecond)
	case sp.CancelMS > 0:
		ctx, cancel = context.WithCancel(ctx)
		ended = time.Now().Add(time.Duration(sp.CancelMS) * time.Millisecond)
		go func() { time.Sleep(time.Duration(sp.CancelMS) * time.Millisecond); cancel() }()
	}
	defer cancel()
	var res HostResult
	res.HWMBeforeKB = vmHWM()
	p, err := plugin.NewCLIPlugin(ctx, sp.Name, sp.Path)
	if err != nil {
		res.ErrType, res.ErrMsg = "new-cli-plugin", err.Error()
		json.NewEncoder(os.Stdout).Encode(res)
		return
	}
	t0 := time.Now()
	var resp any
	switch sp.Command {
	case "get-plugin-metadata":
		resp, err = p.GetMetadata(ctx, &pf.GetMetadataRequest{})
	case "describe-key":
		resp, err = p.DescribeKey(ctx, &pf.DescribeKeyRequest{KeyID: "k"})
	case "generate-signature":
		resp, err = p.GenerateSignature(ctx, &pf.GenerateSignatureRequest{KeyID: "k", KeySpec: pf.KeySpecEC256, Hash: pf.HashAlgorithmSHA256, Payload: []byte("p")})
	case "generate-envelope":
		resp, err = p.GenerateEnvelope(ctx, &pf.GenerateEnvelopeRequest{KeyID: "k", PayloadType: "t", SignatureEnvelopeType: "application/jose+json", Payload: []byte("p")})
	case "verify-signature":
		resp, err = p.VerifySignature(ctx, &pf.VerifySignatureRequest{})
	default:
		fatal("unknown plugin command %q", sp.Command)
	}
	end := time.Now()
	res.DurMS = end.Sub(t0).Milliseconds()
	res.AfterCtxMS = -1
	if !ended.IsZero() && end.After(ended) {
		res.AfterCtxMS = end.Sub(ended).Milliseconds()
	}
	res.HWMAfterKB = vmHWM()
	if err != nil {
		classifyErr(err, &res)
	} else {
		res.OK = true
		b, _ := json.Marshal(resp)
		if len(b) < 4096 {
			res.Resp = json.RawMessage(b)
		} else {
			res.Resp = fmt.Sprintf("%d bytes", len(b))
		}
	}
	json.NewEncoder(os.Stdout).Encode(res)
}

func init() { extraCmds["host"] = hostCall }
