package main

import (
	"context"
	"crypto/x509"
	"encoding/json"
	"fmt"
	"github.com/opencontainers/go-digest"
	"os"
	"path/filepath"
	"runtime/debug"

	"github.com/notaryproject/notation-go"
	"github.com/notaryproject/notation-go/dir"
	"github.com/notaryproject/notation-go/plugin"
	"github.com/notaryproject/notation-go/verifharness/lib"
	"github.com/notaryproject/notation-go/verifier"
	"github.com/notaryproject/notation-go/verifier/trustpolicy"
	pf "github.com/notaryproject/notation-plugin-framework-go/plugin"
	ocispec "github.com/opencontainers/image-spec/specs-go/v1"
)

// JailSpec is one plugin-manager operation executed inside the chroot jail.
type JailSpec struct {
	Root      string `json:"root"` // plugin root directory (path inside the jail)
	Op        string `json:"op"`   // get | uninstall | install | list | verify
	Name      string `json:"name"`
	Path      string `json:"path"` // install source
	Overwrite bool   `json:"overwrite"`
	SigFile   string `json:"sig_file"`
	Format    string `json:"format"`
	Level     string `json:"level"`
	TrustFile string `json:"trust_file"` // DER of the certificate placed in ca:x
	DescJSON  string `json:"desc_json"`
	// verify-from-config: the verifier is built by the constructors that read the user's directories
	ConfigDir  string `json:"config_dir"`
	LibexecDir string `json:"libexec_dir"`
	CacheDir   string `json:"cache_dir"`
	Kind       string `json:"kind"` // oci | oci-default | blob
}

// JailResult is what the operation returned.
type JailResult struct {
	OK       bool     `json:"ok"`
	Err      string   `json:"err,omitempty"`
	Panic    string   `json:"panic,omitempty"`
	Names    []string `json:"names,omitempty"`
	Metadata any      `json:"metadata,omitempty"`
}

func jailOp(args []string) {
	raw, err := os.ReadFile(args[0])
	if err != nil {
		fatal("%v", err)
	}
	var sp JailSpec
	if err := json.Unmarshal(raw, &sp); err != nil {
		fatal("%v", err)
	}
	var res JailResult
	func() {
		defer func() {
			if p := recover(); p != nil {
				res.Panic = fmt.Sprintf("%v\n%s", p, debug.Stack())
			}
		}()
		ctx := context.Background()
		m := plugin.NewCLIManager(dir.NewSysFS(sp.Root))
		switch sp.Op {
		case "get":
			p, err := m.Get(ctx, sp.Name)
			if err != nil {
				res.Err = err.Error()
				return
			}
			md, err := p.GetMetadata(ctx, &pf.GetMetadataRequest{})
			if err != nil {
				res.Err = "metadata: " + err.Error()
				return
			}
			res.OK, res.Metadata = true, md
		case "uninstall":
			if err := m.Uninstall(ctx, sp.Name); err != nil {
				res.Err = err.Error()
				return
			}
			res.OK = true
		case "install":
			_, md, err := m.Install(ctx, plugin.CLIInstallOptions{PluginPath: sp.Path, Overwrite: sp.Overwrite})
			if err != nil {
				res.Err = err.Error()
				return
			}
			res.OK, res.Metadata = true, md
		case "list":
			names, err := m.List(ctx)
			if err != nil {
				res.Err = err.Error()
				return
			}
			res.OK, res.Names = true, names
		case "verify":
			sig, err := os.ReadFile(sp.SigFile)
			if err != nil {
				fatal("%v", err)
			}
			der, err := os.ReadFile(sp.TrustFile)
			if err != nil {
				fatal("%v", err)
			}
			cert, err := x509.ParseCertificate(der)
			if err != nil {
				fatal("%v", err)
			}
			var desc ocispec.Descriptor
			json.Unmarshal([]byte(sp.DescJSON), &desc)
			doc := lib.OCIPolicy(trustpolicy.SignatureVerification{VerificationLevel: sp.Level}, []string{"ca:x"}, []string{"*"})
			v, err := verifier.NewVerifierWithOptions(lib.NewMemTS().Put("ca:x", cert), verifier.VerifierOptions{OCITrustPolicy: doc, PluginManager: m,
				RevocationCodeSigningValidator: lib.OKRev{}, RevocationTimestampingValidator: lib.OKRev{}})
			if err != nil {
				fatal("%v", err)
			}
			_, verr := v.Verify(ctx, desc, sig, notation.VerifierVerifyOptions{ArtifactReference: "r.io/a@" + desc.Digest.String(), SignatureMediaType: sp.Format})
			if verr != nil {
				res.Err = verr.Error()
				return
			}
			res.OK = true
		case "verify-from-config":
			sig, err := os.ReadFile(sp.SigFile)
			if err != nil {
				fatal("%v", err)
			}
			der, err := os.ReadFile(sp.TrustFile)
			if err != nil {
				fatal("%v", err)
			}
			var desc ocispec.Descriptor
			json.Unmarshal([]byte(sp.DescJSON), &desc)
			dir.UserConfigDir, dir.UserLibexecDir, dir.UserCacheDir = sp.ConfigDir, sp.LibexecDir, sp.CacheDir
			sv := trustpolicy.SignatureVerification{VerificationLevel: sp.Level, Override: map[trustpolicy.ValidationType]trustpolicy.ValidationAction{trustpolicy.TypeRevocation: trustpolicy.ActionSkip}}
			os.MkdirAll(filepath.Join(sp.ConfigDir, "truststore", "x509", "ca", "x"), 0o755)
			os.WriteFile(filepath.Join(sp.ConfigDir, "truststore", "x509", "ca", "x", "anchor.crt"), der, 0o644)
			od, _ := json.Marshal(lib.OCIPolicy(sv, []string{"ca:x"}, []string{"*"}))
			bd, _ := json.Marshal(lib.BlobPolicy(sv, []string{"ca:x"}, []string{"*"}))
			os.WriteFile(filepath.Join(sp.ConfigDir, dir.PathOCITrustPolicy), od, 0o600)
			os.WriteFile(filepath.Join(sp.ConfigDir, dir.PathBlobTrustPolicy), bd, 0o600)
			var verr error
			switch sp.Kind {
			case "blob":
				v, err := verifier.NewBlobVerifierFromConfig()
				if err != nil {
					res.Err = "constructor: " + err.Error()
					return
				}
				_, verr = v.VerifyBlob(ctx, func(digest.Algorithm) (ocispec.Descriptor, error) { return desc, nil }, sig, notation.BlobVerifierVerifyOptions{SignatureMediaType: sp.Format})
			case "oci-default":
				v, err := verifier.NewFromConfig()
				if err != nil {
					res.Err = "constructor: " + err.Error()
					return
				}
				_, verr = v.Verify(ctx, desc, sig, notation.VerifierVerifyOptions{ArtifactReference: "r.io/a@" + desc.Digest.String(), SignatureMediaType: sp.Format})
			default:
				v, err := verifier.NewOCIVerifierFromConfig()
				if err != nil {
					res.Err = "constructor: " + err.Error()
					return
				}
				_, verr = v.Verify(ctx, desc, sig, notation.VerifierVerifyOptions{ArtifactReference: "r.io/a@" + desc.Digest.String(), SignatureMediaType: sp.Format})
			}
			if verr != nil {
				res.Err = verr.Error()
				return
			}
			res.OK = true
		default:
			fatal("unknown jail op %q", sp.Op)
		}
	}()
	json.NewEncoder(os.Stdout).Encode(res)
}

func init() { extraCmds["jail"] = jailOp }
