// C06 — expiry and certificate validity are judged against the right clock.
//
// The product of {scheme} x {format} x {per-certificate validity windows placed
// before / around / after now} x {signing time} x {expiry} x {tsa store listed}
// x {verifyTimestamp} x {countersignature state} is executed against
// verifier.Verify. Envelopes come from the hand-written builders (so signing
// times outside certificate windows are constructible), countersignatures from
// an in-process RFC 3161 test TSA. All instants are at least 5 days away from
// now (window edges relative to a token are tested with second resolution far
// from now), so expected verdicts depend only on the sign of the offsets.
package main

import (
	"context"
	"crypto/rand"
	"crypto/x509"
	"encoding/base64"
	"encoding/hex"
	"errors"
	"fmt"
	"math/big"
	"net/http"
	"net/http/httptest"
	"os"
	"strings"
	"sync"
	"sync/atomic"
	"time"

	"github.com/notaryproject/notation-core-go/revocation"
	"github.com/notaryproject/notation-core-go/revocation/result"
	"github.com/notaryproject/notation-go"
	"github.com/notaryproject/notation-go/plugin"
	"github.com/notaryproject/notation-go/verifharness/lib"
	"github.com/notaryproject/notation-go/verifier"
	"github.com/notaryproject/notation-go/verifier/trustpolicy"
	pf "github.com/notaryproject/notation-plugin-framework-go/plugin"
	ocispec "github.com/opencontainers/image-spec/specs-go/v1"
)

const day = 24 * time.Hour

type window struct{ nb, na time.Duration } // relative to now

var (
	wValid   = window{-100 * day, 100 * day}
	wExpired = window{-100 * day, -10 * day}
	wNotYet  = window{10 * day, 100 * day}
	wWide    = window{-3000 * day, 3000 * day}
)

type chainKind struct {
	name              string
	leaf, inter, root window
}

var chainKinds = []chainKind{
	{"all-valid-now", wValid, wValid, wWide}, {"leaf-expired", wExpired, wValid, wWide}, {"issuer-expired", wValid, wExpired, wWide},
	{"leaf-not-yet-valid", wNotYet, wValid, wWide}, {"issuer-not-yet-valid", wValid, wNotYet, wWide}, {"all-expired", wExpired, wExpired, wWide},
	// only the trust anchor's own window is off (a re-issued or retired root): "every certificate of the chain" includes it
	{"root-expired", wValid, wValid, wExpired}, {"root-not-yet-valid", wValid, wValid, wNotYet},
	// the leaf has run out; its issuer was re-issued and is valid today, from a day on that lies INSIDE the leaf's window:
	// a time stamped before that day lies inside the leaf's window and outside the issuer's
	{"leaf-expired-issuer-reissued-later", wExpired, window{-50 * day, 100 * day}, wWide},
	{"leaf-expired-root-reissued-later", wExpired, wValid, window{-40 * day, 3000 * day}},
}

var tsRevGotSigningTime int32

type tsRev struct {
	status string // ok revoked unknown err
	mu     sync.Mutex
	calls  int
}

func (t *tsRev) ValidateContext(ctx context.Context, o revocation.ValidateContextOptions) ([]*result.CertRevocationResult, error) {
	if !o.AuthenticSigningTime.IsZero() {
		// "unrevoked TSA" is judged as of the verification: handing the validator a signing time lets it excuse a
		// revocation whose invalidity date lies after that time - and the only time on offer is the one the TSA itself wrote
		atomic.AddInt32(&tsRevGotSigningTime, 1)
	}
	t.mu.Lock()
	t.calls++
	t.mu.Unlock()
	if t.status == "err" {
		return nil, errors.New("timestamping revocation validator down")
	}
	out := make([]*result.CertRevocationResult, len(o.CertChain))
	for i := range out {
		out[i] = &result.CertRevocationResult{Result: result.ResultOK}
	}
	switch t.status {
	case "revoked":
		out[0].Result = result.ResultRevoked
	case "unknown":
		out[len(out)-1].Result = result.ResultUnknown
	}
	return out, nil
}

type caseT struct {
	Format, Scheme string
	Chain          int
	SignOff        time.Duration
	Expiry         string // none past future
	TSAListed      bool
	VT             string
	Token          string
	Level          int // -1: default alternation (all-log / strict); else index into the 24 enforcement maps
}

func main() {
	time.Local = time.FixedZone("UTC+13", 13*3600) // the process does not live in UTC
	r := lib.Start("C06", "exploration")
	r.Rule = "product of scheme {notary.x509, signingAuthority} x format x 10 chain window placements (leaf / issuer / trust anchor each valid around now, expired, not yet valid) x signing time (inside / before all windows; signing authority also after) x expiry {none, past, future} x tsa store listed x verifyTimestamp {unset, always, afterCertExpiry} x countersignature {absent, good, wrong message, untrusted TSA, TSA root only in a ca store, EKU missing / extra / non-critical, key usage without digitalSignature, TSA certificate that is a CA, tsa store unloadable / empty, TSA revoked / unknown / validator error, gen-time before / inside / after the windows, accuracy straddling the lower / upper window edge, accuracy just inside}; quick = x509/JWS full + the other three combinations on a covering subset, thorough = full; distinct by the tuple; non-trivial = anything but (valid chain, no expiry, no tsa store)"
	r.Assumptions = []string{"all generated instants are >= 5 days away from now; the boundary 'expiry == now' is unreachable without a clock hook",
		"window edges relative to a countersignature are exercised with second resolution at instants far from now",
		"one-directional clauses ('passes only if') are judged in that direction; expiry is judged in both directions as stated"}
	ctx := context.Background()
	now := time.Now()
	root := lib.Mint(nil, lib.CertSpec{CN: "c06-root", Kind: "ca", KeyIdx: 7, NotBefore: now.Add(-3000 * day), NotAfter: now.Add(3000 * day)})
	tsaRoot := lib.Mint(nil, lib.CertSpec{CN: "c06-tsa-root", Kind: "ca", KeyIdx: 6, NotBefore: now.Add(-3000 * day), NotAfter: now.Add(3000 * day)})
	otherTSARoot := lib.Mint(nil, lib.CertSpec{CN: "c06-other-tsa-root", Kind: "ca", KeyIdx: 5, NotBefore: now.Add(-3000 * day), NotAfter: now.Add(3000 * day)})
	tsaLeaf := map[string]*lib.Ent{}
	for _, k := range []string{"tsa", "tsa-noncrit", "tsa-extra", "tsa-none", "tsa-keyusage", "tsa-ca"} {
		tsaLeaf[k] = lib.Mint(tsaRoot, lib.CertSpec{CN: "c06-" + k, Kind: k, KeyIdx: 2, NotBefore: now.Add(-2900 * day), NotAfter: now.Add(2900 * day)})
	}
	// a TSA certificate issued by an intermediate CA whose own extended key usage is restricted to code signing
	csOnlyCA := lib.Mint(tsaRoot, lib.CertSpec{CN: "c06-ca-for-code-signing-only", Kind: "ca-codesigning-only", KeyIdx: 3, PathLen: 1, NotBefore: now.Add(-2900 * day), NotAfter: now.Add(2900 * day)})
	tsaUnderCSCA := lib.Mint(csOnlyCA, lib.CertSpec{CN: "c06-tsa-under-cs-ca", Kind: "tsa", KeyIdx: 2, NotBefore: now.Add(-2800 * day), NotAfter: now.Add(2800 * day)})
	// a TSA certificate issued only 50 days ago: fine today, but it did not exist when an older time was stamped
	tsaLate := lib.Mint(tsaRoot, lib.CertSpec{CN: "c06-tsa-late", Kind: "tsa", KeyIdx: 2, NotBefore: now.Add(-50 * day), NotAfter: now.Add(2900 * day)})
	untrustedTSA := lib.Mint(otherTSARoot, lib.CertSpec{CN: "c06-untrusted-tsa", Kind: "tsa", KeyIdx: 3, NotBefore: now.Add(-2900 * day), NotAfter: now.Add(2900 * day)})
	// signing chains per window placement: root (always valid) -> issuer -> leaf
	type chainT struct {
		leaf  *lib.Ent
		certs []*x509.Certificate
		root  *lib.Ent
	}
	chains := make([]chainT, len(chainKinds))
	for i, ck := range chainKinds {
		rt := root
		if ck.root != wWide {
			rt = lib.Mint(nil, lib.CertSpec{CN: "c06-root-" + ck.name, Kind: "ca", KeyIdx: 7, NotBefore: now.Add(ck.root.nb), NotAfter: now.Add(ck.root.na)})
		}
		iss := lib.Mint(rt, lib.CertSpec{CN: "c06-issuer-" + ck.name, Kind: "ca", KeyIdx: 4, PathLen: 1, NotBefore: now.Add(ck.inter.nb), NotAfter: now.Add(ck.inter.na)})
		lf := lib.Mint(iss, lib.CertSpec{CN: "c06-leaf-" + ck.name, Kind: "codesign", KeyIdx: 0, NotBefore: now.Add(ck.leaf.nb), NotAfter: now.Add(ck.leaf.na)})
		chains[i] = chainT{lf, lf.Chain(), rt}
	}
	desc := lib.Desc(ocispec.MediaTypeImageManifest, []byte("c06"))
	payload := lib.Payload(desc)

	// self-signed certificates that stamp tokens themselves and sit in the tsa store as their own anchor: a CA certificate, and
	// one whose key usage does not include signing
	tsaSelfCA := lib.Mint(nil, lib.CertSpec{CN: "c06-self-signed-tsa-ca", Kind: "tsa-ca", KeyIdx: 3, NotBefore: now.Add(-2900 * day), NotAfter: now.Add(2900 * day)})
	tsaSelfKU := lib.Mint(nil, lib.CertSpec{CN: "c06-self-signed-tsa-keyusage", Kind: "tsa-keyusage", KeyIdx: 3, NotBefore: now.Add(-2900 * day), NotAfter: now.Add(2900 * day)})
	// a TSA certificate that was valid for years and ran out five days ago (tokens stamped before that remain good - unless the TSA is revoked)
	tsaRanOut := lib.Mint(tsaRoot, lib.CertSpec{CN: "c06-tsa-ran-out", Kind: "tsa", KeyIdx: 2, NotBefore: now.Add(-2900 * day), NotAfter: now.Add(-5 * day)})
	tokens := []string{"absent", "good", "tsa-revoked-and-its-certificate-has-since-run-out", "wrong-message", "wrong-message-base64url-text-of-the-signature", "wrong-message-hex-text-of-the-signature", "wrong-message-signed-payload", "tsa-self-signed-ca-certificate-as-its-own-anchor", "tsa-self-signed-without-signing-key-usage-as-its-own-anchor", "untrusted-tsa", "tsa-root-in-ca-store-only", "eku-missing", "eku-extra", "eku-non-critical", "tsa-key-usage-without-signing", "tsa-certificate-is-a-ca", "tsa-store-unloadable", "tsa-store-empty", "tsa-certificate-younger-than-the-stamped-time", "tsa-issued-by-a-ca-restricted-to-code-signing", "tsa-revoked", "tsa-unknown", "tsa-validator-error",
		"gen-before-windows", "gen-after-windows", "accuracy-straddles-lower-edge", "accuracy-straddles-upper-edge", "accuracy-just-inside-upper-edge", "garbage"}
	var cases []caseT
	combos := [][2]string{{lib.MediaJWS, "notary.x509"}, {lib.MediaCOSE, "notary.x509"}, {lib.MediaJWS, "notary.x509.signingAuthority"}, {lib.MediaCOSE, "notary.x509.signingAuthority"}}
	for ci, fs := range combos {
		full := r.Thorough() || ci == 0
		signOffs := []time.Duration{-20 * day}
		if fs[1] != "notary.x509" {
			signOffs = []time.Duration{-20 * day, -200 * day, 5 * day}
		} else if full {
			signOffs = []time.Duration{-20 * day, -200 * day}
		}
		k := 0
		for ch := range chainKinds {
			for _, so := range signOffs {
				for _, ex := range []string{"none", "past", "future"} {
					for _, tl := range []bool{false, true} {
						for _, vt := range []string{"", "always", "afterCertExpiry"} {
							toks := tokens
							if !tl && !full {
								toks = []string{"absent", "good"}
							}
							for _, tk := range toks {
								k++
								if !full && k%4 != ci {
									continue
								}
								if fs[1] != "notary.x509" && tk != "absent" && tk != "good" && k%5 != 0 {
									continue // countersignatures are irrelevant for signing-authority signatures; thinned
								}
								cases = append(cases, caseT{fs[0], fs[1], ch, so, ex, tl, vt, tk, -1})
								if r.Thorough() {
									for rep := 0; rep < 3; rep++ {
										cases = append(cases, caseT{fs[0], fs[1], ch, so, ex, tl, vt, tk, (k*5 + rep*7) % 24})
									}
								}
							}
						}
					}
				}
			}
		}
	}
	// pre-signed envelopes
	type ek struct {
		f, s string
		ch   int
		so   time.Duration
		ex   string
		plug bool
	}
	envs := map[ek][]byte{}
	var emu sync.Mutex
	envelope := func(c caseT, plug bool) []byte {
		k := ek{c.Format, c.Scheme, c.Chain, c.SignOff, c.Expiry, plug}
		emu.Lock()
		defer emu.Unlock()
		if b, ok := envs[k]; ok {
			return b
		}
		st := now.Add(c.SignOff)
		var exp time.Time
		switch c.Expiry {
		case "past":
			exp = now.Add(-10 * day)
			if !exp.After(st) {
				exp = st.Add(time.Hour)
				if exp.After(now.Add(-5 * day)) {
					exp = now.Add(-5 * day) // still in the past (signing time in the future: expiry before signing time is representable by the hand builder)
				}
			}
		case "future":
			exp = now.Add(50 * day)
		}
		var ext []lib.ExtAttr
		if plug {
			ext = []lib.ExtAttr{{Key: lib.HdrPlugin, Value: "plug", Critical: true}}
		}
		raw := lib.HandSign(lib.HandSpec{Format: c.Format, Scheme: c.Scheme, Payload: payload, Signer: chains[c.Chain].leaf, SigningTime: st, Expiry: exp, Ext: ext})
		if _, err := lib.RefVerify(c.Format, raw); err != nil {
			raw = nil // the reference refuses this envelope: integrity fails, the case says nothing about C06
		}
		envs[k] = raw
		return raw
	}

	lib.Parallel(len(cases), 16, func(ci int) {
		c := cases[ci]
		// every fifth case: the signature names a verification plugin that owns trusted-identity verification (and approves):
		// expiry and the authentic timestamp stay the library's business
		withPlugin := ci%5 == 2
		raw := envelope(c, withPlugin)
		if withPlugin {
			r.Event("cases-whose-signature-names-an-identity-plugin")
		}
		if raw == nil {
			r.Event("skipped-reference-rejects-envelope")
			return
		}
		ck := chainKinds[c.Chain]
		// intersection of the windows of the chain
		lo, hi := ck.leaf.nb, ck.leaf.na
		for _, w := range []window{ck.inter, ck.root} {
			if w.nb > lo {
				lo = w.nb
			}
			if w.na < hi {
				hi = w.na
			}
		}
		// ---- countersignature
		sigVal, alg := lib.SigValue(c.Format, raw)
		tsa := &lib.TSA{Key: tsaLeaf["tsa"].Key, Chain: tsaLeaf["tsa"].Chain()}
		spec := lib.TokenSpec{Message: sigVal, Hash: alg.Hash(), GenTime: now.Add((lo + hi) / 2), AccuracyS: 1}
		if lo > hi {
			spec.GenTime = now.Add(-50 * day)
		}
		tokenOK := true // the token itself is acceptable (right message, trusted and well-purposed TSA, not revoked)
		rangeInside := lo <= hi
		tsRevStatus := "ok"
		tsaInTSAStore := tsaRoot.Cert
		attach := true
		switch c.Token {
		case "absent":
			attach, tokenOK = false, false
		case "good":
		case "wrong-message":
			spec.Message, tokenOK = []byte("another message"), false
		case "wrong-message-base64url-text-of-the-signature": // the countersignature is over the signature VALUE, not over a text form of it
			spec.Message, tokenOK = []byte(base64.RawURLEncoding.EncodeToString(sigVal)), false
		case "wrong-message-hex-text-of-the-signature":
			spec.Message, tokenOK = []byte(hex.EncodeToString(sigVal)), false
		case "wrong-message-signed-payload":
			spec.Message, tokenOK = payload, false
		case "tsa-self-signed-ca-certificate-as-its-own-anchor":
			tsa, tsaInTSAStore, tokenOK = &lib.TSA{Key: tsaSelfCA.Key, Chain: tsaSelfCA.Chain()}, tsaSelfCA.Cert, false
		case "tsa-self-signed-without-signing-key-usage-as-its-own-anchor":
			tsa, tsaInTSAStore, tokenOK = &lib.TSA{Key: tsaSelfKU.Key, Chain: tsaSelfKU.Chain()}, tsaSelfKU.Cert, false
		case "untrusted-tsa":
			tsa, tokenOK = &lib.TSA{Key: untrustedTSA.Key, Chain: untrustedTSA.Chain()}, false
		case "tsa-root-in-ca-store-only":
			tsaInTSAStore, tokenOK = otherTSARoot.Cert, false
		case "eku-missing":
			tsa, tokenOK = &lib.TSA{Key: tsaLeaf["tsa-none"].Key, Chain: tsaLeaf["tsa-none"].Chain()}, false
		case "eku-extra":
			tsa, tokenOK = &lib.TSA{Key: tsaLeaf["tsa-extra"].Key, Chain: tsaLeaf["tsa-extra"].Chain()}, false
		case "eku-non-critical":
			tsa, tokenOK = &lib.TSA{Key: tsaLeaf["tsa-noncrit"].Key, Chain: tsaLeaf["tsa-noncrit"].Chain()}, false
		case "tsa-key-usage-without-signing":
			tsa, tokenOK = &lib.TSA{Key: tsaLeaf["tsa-keyusage"].Key, Chain: tsaLeaf["tsa-keyusage"].Chain()}, false
		case "tsa-certificate-is-a-ca":
			tsa, tokenOK = &lib.TSA{Key: tsaLeaf["tsa-ca"].Key, Chain: tsaLeaf["tsa-ca"].Chain()}, false
		case "tsa-issued-by-a-ca-restricted-to-code-signing":
			tsa, tokenOK = &lib.TSA{Key: tsaUnderCSCA.Key, Chain: tsaUnderCSCA.Chain()}, false
		case "tsa-certificate-younger-than-the-stamped-time":
			// the TSA's chain is judged at the time the token states, not at the time of verification
			tsa = &lib.TSA{Key: tsaLate.Key, Chain: tsaLate.Chain()}
			spec.NoSigningTimeAttr = true // (with the optional CMS attribute present the CMS layer would notice on its own)
			if lo <= hi {
				spec.GenTime = now.Add(lo).Add(day)
			}
			tokenOK = !spec.GenTime.Before(now.Add(-50 * day))
		case "tsa-store-unloadable", "tsa-store-empty": // a perfectly good token, but the listed tsa store delivers nothing to chain it to
			tokenOK = false
		case "tsa-revoked":
			tsRevStatus, tokenOK = "revoked", false
		case "tsa-revoked-and-its-certificate-has-since-run-out":
			tsa = &lib.TSA{Key: tsaRanOut.Key, Chain: tsaRanOut.Chain()}
			spec.NoSigningTimeAttr = true
			if lo <= -6*day && -6*day <= hi {
				spec.GenTime = now.Add(-6 * day) // stamped while the TSA certificate was still valid
			}
			tsRevStatus, tokenOK = "revoked", false
		case "tsa-unknown":
			tsRevStatus, tokenOK = "unknown", false
		case "tsa-validator-error":
			tsRevStatus, tokenOK = "err", false
		case "gen-before-windows":
			spec.GenTime, rangeInside = now.Add(lo-5*day), false
		case "gen-after-windows":
			spec.GenTime, rangeInside = now.Add(hi+5*day), false
		case "accuracy-straddles-lower-edge":
			spec.GenTime, spec.AccuracyS, rangeInside = now.Add(lo).Add(10*time.Second), 30, false
		case "accuracy-straddles-upper-edge":
			spec.GenTime, spec.AccuracyS, rangeInside = now.Add(hi).Add(-10*time.Second), 30, false
		case "accuracy-just-inside-upper-edge":
			spec.GenTime, spec.AccuracyS = now.Add(hi).Add(-90*time.Second), 30
			rangeInside = lo <= hi && hi-lo > 5*time.Minute
		}
		sig := raw
		if attach {
			if c.Token == "garbage" {
				sig, tokenOK = lib.AttachToken(c.Format, raw, []byte("this is not a timestamp token")), false
			} else {
				sig = lib.AttachToken(c.Format, raw, tsa.Token(spec))
			}
			if _, err := lib.RefVerify(c.Format, sig); err != nil {
				panic(fmt.Sprintf("harness bug: attaching a token broke the envelope: %v", err))
			}
		}
		// ---- policy
		storeType := "ca"
		if c.Scheme != "notary.x509" {
			storeType = "signingAuthority"
		}
		stores := []string{storeType + ":x"}
		ts := lib.NewMemTS().Put(storeType+":x", chains[c.Chain].root.Cert, tsaRoot.Cert)
		if c.TSAListed {
			stores = append(stores, "tsa:t")
			switch c.Token {
			case "tsa-store-unloadable":
			case "tsa-store-empty":
				ts.Stores["tsa:t"] = []*x509.Certificate{}
			default:
				ts.Put("tsa:t", tsaInTSAStore)
			}
			switch ci % 3 { // where the tsa store stands in the list does not matter
			case 1:
				stores = []string{"tsa:t", storeType + ":x"}
			case 2:
				otherType := map[string]string{"ca": "signingAuthority", "signingAuthority": "ca"}[storeType]
				stores = []string{storeType + ":x", "tsa:t", otherType + ":o"}
				ts.Put(otherType+":o", otherTSARoot.Cert)
			}
		}
		L := lib.LevelMap{Auth: "log", TS: "log", Exp: "log", Rev: "log"}
		if ci%3 == 0 {
			L = lib.LevelMap{Auth: "enforce", TS: "enforce", Exp: "enforce", Rev: "enforce"}
		}
		if c.Level >= 0 {
			L = lib.AllLevelMaps()[c.Level]
		} else if ci%4 == 1 {
			L = lib.AllLevelMaps()[(ci/4)%24] // a customised level: every validation type has its own action
		}
		if strings.HasPrefix(c.Token, "tsa-") && ci%2 == 1 {
			L.Rev = "skip" // skipping revocation of the SIGNING chain must not skip the check that the TSA is unrevoked
		}
		strict := !(L.Auth == "log" && L.TS == "log" && L.Exp == "log") // evaluation may stop early: missing results are not judged
		sv := L.SV(ci)
		sv.VerifyTimestamp = trustpolicy.TimestampOption(c.VT)
		trv := &tsRev{status: tsRevStatus}
		var v notation.Verifier
		var err error
		var pm plugin.Manager
		if withPlugin {
			pm = lib.ScriptedManager{P: &lib.ScriptedPlugin{Caps: []pf.Capability{pf.CapabilityTrustedIdentityVerifier}}}
		}
		if (ci/3)%2 == 1 { // the deprecated constructor must hand the same validators on
			v, err = verifier.NewWithOptions(lib.OCIPolicy(sv, stores, []string{"*"}), ts, pm, verifier.VerifierOptions{RevocationCodeSigningValidator: lib.OKRev{}, RevocationTimestampingValidator: trv})
		} else {
			v, err = verifier.NewVerifierWithOptions(ts, verifier.VerifierOptions{OCITrustPolicy: lib.OCIPolicy(sv, stores, []string{"*"}), PluginManager: pm, RevocationCodeSigningValidator: lib.OKRev{}, RevocationTimestampingValidator: trv})
		}
		if err != nil {
			panic(err)
		}
		out, verr := v.Verify(ctx, desc, sig, notation.VerifierVerifyOptions{ArtifactReference: "r.io/a@" + desc.Digest.String(), SignatureMediaType: c.Format})
		id := fmt.Sprintf("%s|%s|%s|sign=%v|expiry=%s|tsa-store=%v|vt=%q|token=%s|%s", c.Format, c.Scheme, ck.name, c.SignOff, c.Expiry, c.TSAListed, c.VT, c.Token, L)
		key := id
		if ck.name == "all-valid-now" && c.Expiry == "none" && !c.TSAListed && c.Token == "absent" {
			key = ""
		}
		r.Eval(key)
		if out == nil {
			r.Violation(map[string]string{"kind": "nil-outcome"}, id+": nil outcome", nil)
			return
		}
		res := map[trustpolicy.ValidationType]*notation.ValidationResult{}
		for _, x := range out.VerificationResults {
			res[x.Type] = x
		}
		wit := map[string]any{"case": id, "verify_error": fmt.Sprint(verr), "chain_windows_days": map[string][2]float64{"leaf": {ck.leaf.nb.Hours() / 24, ck.leaf.na.Hours() / 24}, "issuer": {ck.inter.nb.Hours() / 24, ck.inter.na.Hours() / 24}, "root": {ck.root.nb.Hours() / 24, ck.root.na.Hours() / 24}}}
		sigm := func(kind string) map[string]string {
			return map[string]string{"kind": kind, "scheme": c.Scheme, "token": c.Token, "vt": c.VT, "chain": ck.name, "tsa_store": fmt.Sprint(c.TSAListed)}
		}
		// ---- expiry (both directions)
		if e := res[trustpolicy.TypeExpiry]; e != nil {
			r.Event("expiry-results")
			wantFail := c.Expiry == "past"
			if (e.Error != nil) != wantFail {
				r.Violation(sigm("expiry"), fmt.Sprintf("%s: expiry validation failed=%v, expiry is %s", id, e.Error != nil, c.Expiry), wit)
			}
			if string(e.Action) != L.Exp {
				r.Violation(sigm("expiry-action"), fmt.Sprintf("%s: the expiry result carries action %q, the level assigns %q to expiry", id, e.Action, L.Exp), wit)
			}
			if wantFail && L.Exp == "enforce" && verr == nil {
				r.Violation(sigm("expired-accepted"), id+": the signature has expired, expiry is enforced, and Verify succeeded", wit)
			}
		} else if !strict {
			r.Violation(sigm("expiry-result-missing"), id+": no expiry result under an all-log level", wit)
		}
		// ---- authentic timestamp
		at := res[trustpolicy.TypeAuthenticTimestamp]
		if at == nil {
			if !strict {
				r.Violation(sigm("timestamp-result-missing"), id+": no authenticTimestamp result under an all-log level", wit)
			}
			return
		}
		pass := at.Error == nil
		wit["authentic_timestamp_error"] = fmt.Sprint(at.Error)
		if os.Getenv("VERIF_DEBUG_TOKEN") != "" && c.Token == os.Getenv("VERIF_DEBUG_TOKEN") {
			fmt.Printf("DEBUG %s pass=%v err=%v tokenOK=%v rangeInside=%v\n", id, pass, at.Error, tokenOK, rangeInside)
		}
		inWin := func(off time.Duration, w window) bool { return off >= w.nb && off <= w.na }
		var mayPass bool
		branch := ""
		switch {
		case c.Scheme != "notary.x509":
			branch = "signing-authority: authentic signing time inside every window"
			mayPass = inWin(c.SignOff, ck.leaf) && inWin(c.SignOff, ck.inter) && inWin(c.SignOff, ck.root)
		default:
			chainExpiredNow := ck.leaf.na < 0 || ck.inter.na < 0 || ck.root.na < 0
			applies := c.TSAListed && (c.VT != "afterCertExpiry" || chainExpiredNow)
			if !applies {
				branch = "no timestamping: every certificate valid now"
				mayPass = inWin(0, ck.leaf) && inWin(0, ck.inter) && inWin(0, ck.root)
			} else {
				branch = "timestamping applies: acceptable token whose range lies inside every window"
				mayPass = tokenOK && rangeInside
				if mayPass {
					r.Event("timestamp-branch-good-token")
				}
			}
		}
		wit["model_branch"], wit["model_may_pass"] = branch, mayPass
		if pass {
			r.Event("timestamp-pass")
		} else {
			r.Event("timestamp-fail")
		}
		switch {
		case pass && !mayPass:
			r.Violation(sigm("timestamp-pass-against-clock"), fmt.Sprintf("%s: authenticTimestamp passed; the statement requires: %s", id, branch), wit)
		case !pass && mayPass:
			r.Event("completeness:model-pass-library-fail")
			r.Sample("model pass, library fail", wit)
		}
		r.Sample(fmt.Sprintf("timestamp pass=%v", pass), id)
		if verr == nil && ((!pass && L.TS == "enforce") || (L.Exp == "enforce" && res[trustpolicy.TypeExpiry] != nil && res[trustpolicy.TypeExpiry].Error != nil)) {
			r.Violation(sigm("strict-accepts-failure"), id+": strict verification succeeded although expiry/authenticTimestamp failed", wit)
		}
	}, r.PanicViolation("verifier.Verify"))
	if n := atomic.LoadInt32(&tsRevGotSigningTime); n > 0 {
		r.Violation(map[string]string{"kind": "tsa-revocation-with-signing-time"}, fmt.Sprintf("the timestamping revocation validator was handed an authentic signing time in %d calls (the revocation status of the TSA is judged as of the verification)", n), nil)
	}
	longLivedVerifier(r, root, desc, payload)
	r.RequireAtLeast("timestamp-pass", 200)
	r.RequireAtLeast("timestamp-fail", 1000)
	r.RequireAtLeast("timestamp-branch-good-token", 50)
	r.RequireAtLeast("expiry-results", 1000)
	defaultTimestampingValidator(r)
	r.Finish()
}

// longLivedVerifier: the clock is the moment of EACH verification. A verifier is used once, then a signature whose expiry
// (and a leaf certificate whose notAfter) lies 2-3 s in the future is minted; the harness waits until both instants are
// more than one second in the past and verifies through the SAME verifier and through a fresh one. Sound for every
// schedule: the verifications happen strictly after the instants, however long the machine takes.
func longLivedVerifier(r *lib.Run, root *lib.Ent, desc ocispec.Descriptor, payload []byte) {
	ctx := context.Background()
	for _, format := range lib.Formats {
		now := time.Now()
		iss := lib.Mint(root, lib.CertSpec{CN: "c06-ll-issuer", Kind: "ca", KeyIdx: 4, PathLen: 1})
		okLeaf := lib.Mint(iss, lib.CertSpec{CN: "c06-ll-ok", Kind: "codesign", KeyIdx: 0})
		shortLeaf := lib.Mint(iss, lib.CertSpec{CN: "c06-ll-short", Kind: "codesign", KeyIdx: 1, NotBefore: now.Add(-time.Hour), NotAfter: now.Add(3 * time.Second).Truncate(time.Second)})
		mk := func() interface {
			Verify(context.Context, ocispec.Descriptor, []byte, notation.VerifierVerifyOptions) (*notation.VerificationOutcome, error)
		} {
			L := lib.LevelMap{Auth: "log", TS: "log", Exp: "log", Rev: "log"}
			v, err := verifier.NewVerifierWithOptions(lib.NewMemTS().Put("ca:x", root.Cert), verifier.VerifierOptions{OCITrustPolicy: lib.OCIPolicy(L.SV(0), []string{"ca:x"}, []string{"*"}), RevocationCodeSigningValidator: lib.OKRev{}, RevocationTimestampingValidator: lib.OKRev{}})
			if err != nil {
				panic(err)
			}
			return v
		}
		long := mk()
		opts := notation.VerifierVerifyOptions{ArtifactReference: "r.io/a@" + desc.Digest.String(), SignatureMediaType: format}
		first := lib.MustCoreSign(lib.SignSpec{Format: format, Payload: payload, Signer: okLeaf, SigningTime: now.Add(-time.Minute)})
		if _, err := long.Verify(ctx, desc, first, opts); err != nil {
			r.Inconclusive("long-lived verifier scenario: first verification failed: " + err.Error())
			return
		}
		expiry := time.Now().Add(2 * time.Second).Truncate(time.Second)
		expiring, err1 := lib.CoreSign(lib.SignSpec{Format: format, Payload: payload, Signer: okLeaf, SigningTime: time.Now().Add(-time.Second), Expiry: expiry})
		shortLived, err2 := lib.CoreSign(lib.SignSpec{Format: format, Payload: payload, Signer: shortLeaf, SigningTime: time.Now().Add(-time.Second)})
		if err1 != nil || err2 != nil {
			r.Inconclusive(fmt.Sprintf("long-lived verifier scenario: cannot sign: %v %v", err1, err2))
			return
		}
		// (a) the TSA is revoked BETWEEN two verifications on one verifier: "issued by an unrevoked TSA" is judged each time
		{
			tsaRoot := lib.Mint(nil, lib.CertSpec{CN: "c06-ll-tsa-root", Kind: "ca", KeyIdx: 6})
			tsaLeaf := lib.Mint(tsaRoot, lib.CertSpec{CN: "c06-ll-tsa", Kind: "tsa", KeyIdx: 2})
			raw := lib.MustCoreSign(lib.SignSpec{Format: format, Payload: payload, Signer: okLeaf, SigningTime: now.Add(-time.Minute)})
			sigVal, alg := lib.SigValue(format, raw)
			stamped := lib.AttachToken(format, raw, (&lib.TSA{Key: tsaLeaf.Key, Chain: tsaLeaf.Chain()}).Token(lib.TokenSpec{Message: sigVal, Hash: alg.Hash(), GenTime: now.Add(-30 * time.Second), AccuracyS: 1}))
			trv := &tsRev{status: "ok"}
			sv := lib.LevelMap{Auth: "log", TS: "log", Exp: "log", Rev: "log"}.SV(0)
			sv.VerifyTimestamp = trustpolicy.OptionAlways
			tv, err := verifier.NewVerifierWithOptions(lib.NewMemTS().Put("ca:x", root.Cert).Put("tsa:t", tsaRoot.Cert), verifier.VerifierOptions{OCITrustPolicy: lib.OCIPolicy(sv, []string{"ca:x", "tsa:t"}, []string{"*"}), RevocationCodeSigningValidator: lib.OKRev{}, RevocationTimestampingValidator: trv})
			if err != nil {
				panic(err)
			}
			tsPassed := func() (bool, bool) {
				out, _ := tv.Verify(ctx, desc, stamped, opts)
				if out == nil {
					return false, false
				}
				for _, res := range out.VerificationResults {
					if res.Type == trustpolicy.TypeAuthenticTimestamp {
						return res.Error == nil, true
					}
				}
				return false, false
			}
			if p1, ok1 := tsPassed(); ok1 && p1 {
				trv.status = "revoked"
				p2, ok2 := tsPassed()
				r.Eval("long-lived|" + format + "|tsa-revoked-between-two-verifications")
				r.Event("tsa-revoked-between-two-verifications")
				if ok2 && p2 {
					r.Violation(map[string]string{"kind": "revoked-tsa-accepted", "verifier": "long-lived"}, format+": one verifier verified a countersigned signature twice; before the second time the TSA was revoked, and authenticTimestamp still passed", nil)
				}
			} else {
				r.Event("completeness:good-countersignature-rejected-on-a-long-lived-verifier")
			}
		}
		// (b) a signing certificate that becomes valid two minutes from now is not valid at the moment of verification (no grace)
		{
			soonLeaf := lib.Mint(iss, lib.CertSpec{CN: "c06-ll-soon", Kind: "codesign", KeyIdx: 3, NotBefore: time.Now().Add(2 * time.Minute).Truncate(time.Second), NotAfter: now.Add(240 * time.Hour)})
			soon := lib.HandSign(lib.HandSpec{Format: format, Scheme: "notary.x509", Payload: payload, Signer: soonLeaf, SigningTime: time.Now()})
			if _, err := lib.RefVerify(format, soon); err == nil {
				out, _ := mk().Verify(ctx, desc, soon, opts)
				stillNotValid := time.Now().Before(soonLeaf.Cert.NotBefore) // (judged only if the certificate was still not valid when Verify returned)
				r.Eval("not-yet-valid-by-two-minutes|" + format)
				if out != nil && stillNotValid {
					r.Event("certificates-valid-from-two-minutes-ahead")
					for _, res := range out.VerificationResults {
						if res.Type == trustpolicy.TypeAuthenticTimestamp && res.Error == nil {
							r.Violation(map[string]string{"kind": "timestamp-pass-against-clock", "chain": "leaf-valid-from-two-minutes-ahead", "scheme": "notary.x509", "token": "absent", "vt": "", "tsa_store": "false"}, format+": authenticTimestamp passed for a signing certificate whose validity starts two minutes after the moment of verification", nil)
						}
					}
				}
			}
		}
		deadline := shortLeaf.Cert.NotAfter
		if expiry.After(deadline) {
			deadline = expiry
		}
		// two looks: 120 ms after the later of the two instants (any moment after an instant is after it, however late the
		// scheduler makes us: sound - and inside the very second that follows them, if the machine is not overloaded),
		// and again more than a second after
		for _, after := range []time.Duration{120 * time.Millisecond, 1200 * time.Millisecond} {
			time.Sleep(time.Until(deadline.Add(after)))
			for name, v := range map[string]interface {
				Verify(context.Context, ocispec.Descriptor, []byte, notation.VerifierVerifyOptions) (*notation.VerificationOutcome, error)
			}{"long-lived": long, "fresh": mk()} {
				for what, sig := range map[string][]byte{"expiry": expiring, "leaf-notAfter": shortLived} {
					out, _ := v.Verify(ctx, desc, sig, opts)
					r.Eval("long-lived|" + format + "|" + name + "|" + what)
					r.Event("long-lived-verifier-observations")
					if out == nil {
						continue
					}
					for _, res := range out.VerificationResults {
						if what == "expiry" && res.Type == trustpolicy.TypeExpiry && res.Error == nil {
							r.Violation(map[string]string{"kind": "stale-clock", "what": "expiry", "verifier": name}, fmt.Sprintf("%s: a %s verifier passed the expiry validation %.1f s after the signature expired (%v)", format, name, time.Since(expiry).Seconds(), expiry), nil)
						}
						if what == "leaf-notAfter" && res.Type == trustpolicy.TypeAuthenticTimestamp && res.Error == nil {
							r.Violation(map[string]string{"kind": "stale-clock", "what": "certificate-validity", "verifier": name}, fmt.Sprintf("%s: a %s verifier passed authenticTimestamp %.1f s after the leaf certificate expired (%v)", format, name, time.Since(shortLeaf.Cert.NotAfter).Seconds(), shortLeaf.Cert.NotAfter), nil)
						}
					}
				}
			}
		}
	}
}

// defaultTimestampingValidator: the caller configures revocation checking for the SIGNING chain only (a validator of
// its own, or the deprecated client) and leaves the timestamping validator to the library. "Issued by an unrevoked TSA"
// still holds: the TSA certificate names a CRL distribution point (a loopback server), and the CRL published there lists
// it as revoked - or, as control, lists nothing.
func defaultTimestampingValidator(r *lib.Run) {
	ctx := context.Background()
	now := time.Now()
	var mu sync.Mutex
	crls := map[string][]byte{}
	srv := httptest.NewServer(http.HandlerFunc(func(w http.ResponseWriter, q *http.Request) {
		mu.Lock()
		b, ok := crls[q.URL.Path]
		mu.Unlock()
		if !ok {
			http.NotFound(w, q)
			return
		}
		w.Header().Set("Content-Type", "application/pkix-crl")
		w.Write(b)
	}))
	defer srv.Close()
	root := lib.Mint(nil, lib.CertSpec{CN: "c06-dv-root", Kind: "ca", KeyIdx: 7})
	leaf := lib.Mint(root, lib.CertSpec{CN: "c06-dv-leaf", Kind: "codesign", KeyIdx: 0})
	desc := lib.Desc(ocispec.MediaTypeImageManifest, []byte("c06 default validator"))
	n := 0
	for _, how := range []string{"validator", "deprecated-client", "neither"} {
		for _, revoked := range []bool{false, true} {
			for _, format := range lib.Formats {
				n++
				path := fmt.Sprintf("/tsa-%d.crl", n)
				tsaRoot := lib.Mint(nil, lib.CertSpec{CN: fmt.Sprintf("c06-dv-tsa-root-%d", n), Kind: "ca", KeyIdx: 6, CRLSign: true})
				tsaLeaf := lib.Mint(tsaRoot, lib.CertSpec{CN: fmt.Sprintf("c06-dv-tsa-%d", n), Kind: "tsa", KeyIdx: 2, CRLURL: srv.URL + path})
				tmpl := &x509.RevocationList{Number: big.NewInt(int64(n)), ThisUpdate: now.Add(-time.Hour), NextUpdate: now.Add(24 * time.Hour)}
				if revoked {
					tmpl.RevokedCertificateEntries = []x509.RevocationListEntry{{SerialNumber: tsaLeaf.Cert.SerialNumber, RevocationTime: now.Add(-48 * time.Hour)}}
				}
				der, err := x509.CreateRevocationList(rand.Reader, tmpl, tsaRoot.Cert, tsaRoot.Key)
				if err != nil {
					r.Inconclusive("default timestamping validator: cannot mint the CRL: " + err.Error())
					return
				}
				mu.Lock()
				crls[path] = der
				mu.Unlock()
				raw := lib.MustCoreSign(lib.SignSpec{Format: format, Payload: lib.Payload(desc), Signer: leaf, SigningTime: now.Add(-time.Minute)})
				sigVal, alg := lib.SigValue(format, raw)
				stamped := lib.AttachToken(format, raw, (&lib.TSA{Key: tsaLeaf.Key, Chain: tsaLeaf.Chain()}).Token(lib.TokenSpec{Message: sigVal, Hash: alg.Hash(), GenTime: now.Add(-30 * time.Second), AccuracyS: 1}))
				sv := trustpolicy.SignatureVerification{VerificationLevel: "strict", VerifyTimestamp: trustpolicy.OptionAlways}
				vo := verifier.VerifierOptions{OCITrustPolicy: lib.OCIPolicy(sv, []string{"ca:x", "tsa:t"}, []string{"*"})}
				switch how {
				case "validator":
					vo.RevocationCodeSigningValidator = lib.OKRev{}
				case "deprecated-client":
					vo.RevocationClient = okClient{}
				}
				if how == "neither" && !revoked {
					continue // (the default code-signing validator would be asked about a signing chain without revocation information: not this phase's subject)
				}
				v, err := verifier.NewVerifierWithOptions(lib.NewMemTS().Put("ca:x", root.Cert).Put("tsa:t", tsaRoot.Cert), vo)
				if err != nil {
					r.Inconclusive("default timestamping validator: verifier construction failed: " + err.Error())
					return
				}
				var verr error
				panicked := func() (p bool) {
					defer func() {
						if pv := recover(); pv != nil {
							p = true
							r.Violation(map[string]string{"kind": "panic", "verifier": "default-timestamping-validator", "configured": how}, fmt.Sprintf("%s: verification panicked: %v", format, pv), nil)
						}
					}()
					_, verr = v.Verify(ctx, desc, stamped, notation.VerifierVerifyOptions{ArtifactReference: "r.io/a@" + desc.Digest.String(), SignatureMediaType: format})
					return false
				}()
				if panicked {
					continue
				}
				r.Eval(fmt.Sprintf("default-timestamping-validator|%s|%v|%s", how, revoked, format))
				wit := map[string]any{"revocation_configured_by": how, "tsa_revoked_in_its_crl": revoked, "format": format, "error": fmt.Sprint(verr)}
				if !revoked {
					r.Event("default-timestamping-validator-controls")
					if verr != nil {
						r.Event("completeness:unrevoked-tsa-under-the-default-validator-rejected")
						r.Sample("default validator control rejected", wit)
					} else {
						r.Event("default-timestamping-validator-controls-passed")
					}
					continue
				}
				r.Event("revoked-tsa-under-the-default-timestamping-validator")
				if verr == nil {
					r.Violation(map[string]string{"kind": "revoked-tsa-accepted", "verifier": "default-timestamping-validator", "configured": how},
						fmt.Sprintf("%s: the TSA certificate is listed as revoked in the CRL its distribution point serves; the caller configured revocation by %q only, the library's own timestamping validator was to check the TSA - and the signature verified under strict", format, how), wit)
				}
			}
		}
	}
}

// okClient: the deprecated revocation client interface, answering OK for every certificate.
type okClient struct{}

func (okClient) Validate(certChain []*x509.Certificate, signingTime time.Time) ([]*result.CertRevocationResult, error) {
	out := make([]*result.CertRevocationResult, len(certChain))
	for i := range out {
		out[i] = &result.CertRevocationResult{Result: result.ResultOK, ServerResults: []*result.ServerResult{{Result: result.ResultOK}}}
	}
	return out, nil
}
