// C15 — the CRL cache returns only fresh, byte-faithful bundles for the exact URL.
//
// Sequential Set/Get histories over hostile URL sets are executed against the
// real crl.FileCache on a real file system; a register-map model decides every
// Get. A file-system snapshot monitor (decoy tree next to the root, TMPDIR
// pointed at a watched decoy), an inotify monitor (transient activity outside the
// root) and the temp-created hook (where WriteFile puts its temporary file)
// watch for any read or write outside the cache root. Stored entries are then
// corrupted in many ways and every Get is compared with a reference decoding
// of the file's bytes.
package main

import (
	"bytes"
	"context"
	"crypto/x509"
	"encoding/base64"
	"encoding/hex"
	"encoding/json"
	"encoding/pem"
	"errors"
	"fmt"
	"os"
	"os/exec"
	"path/filepath"
	"strings"
	"sync"
	"time"

	corecrl "github.com/notaryproject/notation-core-go/revocation/crl"
	"github.com/notaryproject/notation-go/internal/file"
	"github.com/notaryproject/notation-go/verifharness/lib"
	"github.com/notaryproject/notation-go/verifier/crl"
)

var urls = []string{
	"http://a.example/crl", "http://a.example/crl/", "http://A.example/crl", "HTTP://a.example/crl", "http://a.example:80/crl",
	"http://a.example/crl?x=1", "http://a.example/crl?x=2", "http://a.example/crl?", "http://a.example/crl#frag", "http://a.example/crl%2Fx", "http://a.example/crl/x",
	"http://a.example/cr1", "http://a.example/crl ", " http://a.example/crl", "http://a.example/crl\n", "http://а.example/crl", "http://a.example//crl",
	"http://a.example/./crl", "http://a.example/x/../crl", "http://a.example/CRL", "http://a.example/crl%2fx", "http://user@a.example/crl", "ldap://a.example/crl",
	"../../etc/passwd", "../decoy/planted", "/abs/path", "", "a\x00b", "..", ".", "notation-123456", strings.Repeat("x", 70000), strings.Repeat("../", 30) + "tmp/x",
	// very long URLs that agree on their first 3 000 / 69 999 characters and differ only at the very end
	"http://crl.example/" + strings.Repeat("p", 3000) + "/a.crl", "http://crl.example/" + strings.Repeat("p", 3000) + "/b.crl", strings.Repeat("x", 69999) + "y",
	// percent-escapes that differ in their hex digits only, a bare percent sign, and what a formatting routine would make of them
	"http://a.example/crl%20C", "http://a.example/crl%21C", "http://a.example/%41.crl", "http://a.example/%42.crl", "http://a.example/100%", "http://a.example/100%%",
	"http://a.example/crl%!C(MISSING)", "http://a.example/%s.crl", "http://a.example/%d.crl", "http://a.example/%v.crl",
}

// Two distinct 128-byte strings with the same MD5 value (the published Wang/Yu pair), bare and with a common suffix:
// distinct URLs, so distinct entries, whatever became of a digest that was once thought to tell strings apart.
var md5A, md5B = unhex("d131dd02c5e6eec4693d9a0698aff95c2fcab58712467eab4004583eb8fb7f89" + "55ad340609f4b30283e488832571415a085125e8f7cdc99fd91dbdf280373c5b" +
	"d8823e3156348f5bae6dacd436c919c6dd53e2b487da03fd02396306d248cda0" + "e99f33420f577ee8ce54b67080a80d1ec69821bcb6a8839396f9652b6ff72a70"),
	unhex("d131dd02c5e6eec4693d9a0698aff95c2fcab50712467eab4004583eb8fb7f89" + "55ad340609f4b30283e4888325f1415a085125e8f7cdc99fd91dbd7280373c5b" +
		"d8823e3156348f5bae6dacd436c919c6dd53e23487da03fd02396306d248cda0" + "e99f33420f577ee8ce54b67080280d1ec69821bcb6a8839396f965ab6ff72a70")

func unhex(s string) string {
	b, err := hex.DecodeString(s)
	if err != nil {
		panic(err)
	}
	return string(b)
}

// near pairs: two distinct URLs that a careless key derivation would most plausibly merge; a sequence that draws one
// draws its partner too
var nearPairs = [][2]string{
	{md5A, md5B}, {md5A + "http://crl.example.com/ca.crl", md5B + "http://crl.example.com/ca.crl"},
	{"http://crl.example/" + strings.Repeat("p", 3000) + "/a.crl", "http://crl.example/" + strings.Repeat("p", 3000) + "/b.crl"},
	{"http://a.example/%41.crl", "http://a.example/%42.crl"}, {"http://a.example/crl", "http://a.example/crl/"}, {"http://a.example/crl", "http://A.example/crl"},
	{"http://a.example/crl%2Fx", "http://a.example/crl%2fx"}, {"http://a.example/crl", "http://a.example/crl?"}, {strings.Repeat("x", 70000), strings.Repeat("x", 69999) + "y"},
}

type entryModel struct {
	base, delta []byte
	fresh       bool
}

var (
	rootsMu sync.Mutex
	roots   = map[string]bool{}
	hookBad []string
	hookHit int64
)

func main() {
	r := lib.Start("C15", "exploration")
	r.Rule = "PRNG sequences of 5-40 Set/Get over a 36-URL alphabet (near-identical strings: case, port, query, fragment, escaping, trailing blank/slash, confusable; traversal, absolute, NUL, 70 kB, empty) with base and delta next-update independently in {-10y,-1h,-3min,-30s,+1h,+2h,+24h,+10y}; then corruption of stored entry files (every truncation class, >=200 single-bit flips, swapped/missing/null fields, foreign JSON, trailing bytes, directory in place of the file); distinct by (sequence id, operation index); non-trivial = Get operations and corruption probes"
	r.Rule += "; plus entries over 32 MiB, reads moments after next-update, CRLs without next-update, bare CRL files in place of an entry, percent-escape URL pairs, failed stores keeping the previous entry, and goroutines with their own URLs on one cache value"
	r.Assumptions = []string{"all next-update instants are >= 1 hour from now", "POSIX file system; inotify available",
		"for corrupted files only the direction 'a returned bundle is byte-faithful to what the file encodes' and 'a file that is not valid JSON / has no parseable base CRL / has an unparseable non-null delta yields an error' are judged"}
	// scratch must not live in the monitored TMPDIR decoy
	scratch := lib.TempDir("c15")
	r.OnExit(func() { os.RemoveAll(scratch) })
	os.Setenv("VERIF_SCRATCH", scratch)
	tmpDecoy := filepath.Join(scratch, "TMPDIR-decoy")
	os.MkdirAll(tmpDecoy, 0o755)
	os.Setenv("TMPDIR", tmpDecoy)
	tmpWatch, terr := lib.NewInotify(tmpDecoy)
	if terr != nil {
		r.Inconclusive("inotify unavailable: " + terr.Error())
	}
	file.VerifHook = func(point, path string) {
		if point != "temp-created" {
			return
		}
		rootsMu.Lock()
		hookHit++
		if !roots[filepath.Dir(path)] {
			hookBad = append(hookBad, path)
		}
		rootsMu.Unlock()
	}
	ctx := context.Background()
	now := time.Now()
	// (an instant that lies 30 s / 3 min in the past when the CRL is minted lies further in the past at every later Get:
	// "expired" is schedule-independent; fresh ones keep an hour of margin)
	offs := []time.Duration{-10 * 365 * 24 * time.Hour, -time.Hour, time.Hour, 10 * 365 * 24 * time.Hour, -30 * time.Second, -3 * time.Minute, 24 * time.Hour, 2 * time.Hour}
	// a pool of CRLs per offset (minting is not the code under test)
	type crlT struct {
		rl    *x509.RevocationList
		fresh bool
	}
	var pool []crlT
	for k := 0; k < 160; k++ {
		o := offs[k%len(offs)]
		pool = append(pool, crlT{lib.MintCRL(int64(k+1), now.Add(o), (k%7)*300), o > 0})
	}
	// next-update instants far outside the range a 64-bit nanosecond count can hold (1678..2262): expired centuries ago, or
	// "never" as RFC 5280 spells it (99991231235959Z)
	for k, y := range []int{2, 1000, 1500, 1601, 1677, 1899, 2263, 2300, 5000, 9999} {
		t := time.Date(y, 12, 31, 23, 59, 59, 0, time.UTC)
		for j := 0; j < 2; j++ {
			pool = append(pool, crlT{lib.MintCRL(int64(500+2*k+j), t, j*900), y > 2100})
		}
	}

	nSeq := r.N(2000, 100000)
	lib.Parallel(nSeq, 16, func(si int) {
		rng := r.Rand(fmt.Sprintf("seq-%d", si))
		base := lib.TempDir("c15seq")
		defer os.RemoveAll(base)
		parent := filepath.Join(base, "x")
		rootDir := filepath.Join(parent, "cache")
		decoy := filepath.Join(base, "decoy")
		os.MkdirAll(decoy, 0o755)
		os.MkdirAll(parent, 0o755)
		os.WriteFile(filepath.Join(decoy, "planted"), []byte("decoy content"), 0o644)
		os.WriteFile(filepath.Join(base, "etc-passwd"), []byte("decoy"), 0o644)
		rootsMu.Lock()
		roots[rootDir] = true
		rootsMu.Unlock()
		c, err := crl.NewFileCache(rootDir)
		if err != nil {
			panic(err)
		}
		before := lib.Snapshot(base)
		in, ierr := lib.NewInotify(decoy, base, parent)
		if ierr != nil {
			r.Inconclusive("inotify unavailable: " + ierr.Error())
			return
		}
		defer in.Close()
		model := map[string]*entryModel{}
		nops := 5 + rng.Intn(36)
		// few URLs per sequence so that overwrites and cross-talk happen
		var my []string
		for k := 0; k < 2+rng.Intn(5); k++ {
			my = append(my, urls[rng.Intn(len(urls))])
		}
		if si%3 == 0 {
			np := nearPairs[(si/3)%len(nearPairs)]
			my = append(my[:1], np[0], np[1])
			r.Event("sequences-over-a-near-pair")
		}
		var trace []string
		for op := 0; op < nops; op++ {
			u := my[rng.Intn(len(my))]
			us := fmt.Sprintf("%.40q", u)
			if rng.Intn(5) < 2 {
				b := pool[rng.Intn(len(pool))]
				bundle := &corecrl.Bundle{BaseCRL: b.rl}
				m := &entryModel{base: b.rl.Raw, fresh: b.fresh}
				d := "-"
				if rng.Bool() {
					dl := pool[rng.Intn(len(pool))]
					bundle.DeltaCRL = dl.rl
					m.delta = dl.rl.Raw
					m.fresh = m.fresh && dl.fresh
					d = fmt.Sprint(dl.rl.Number)
				}
				trace = append(trace, fmt.Sprintf("Set(%s, base#%v fresh=%v, delta#%s)", us, b.rl.Number, b.fresh, d))
				if err := c.Set(ctx, u, bundle); err != nil {
					// the property does not promise that every URL can be stored: a refused Set leaves the model unchanged
					r.Event("set-refused")
					trace = append(trace, fmt.Sprintf("  -> Set refused: %v", err))
					continue
				}
				r.Event("set")
				model[u] = m
				continue
			}
			got, gerr := c.Get(ctx, u)
			m := model[u]
			r.Eval(fmt.Sprintf("%d/%d", si, op))
			wit := map[string]any{"trace": append(append([]string(nil), trace...), fmt.Sprintf("Get(%s) -> bundle=%v err=%v", us, got != nil, gerr))}
			switch {
			case m == nil || !m.fresh:
				why := "never-stored"
				if m != nil {
					why = "expired"
				}
				r.Event("get-expect-miss-" + why)
				if !errors.Is(gerr, corecrl.ErrCacheMiss) || got != nil {
					r.Violation(map[string]string{"kind": "expected-miss", "why": why}, fmt.Sprintf("Get(%s): expected a cache miss (%s), got bundle=%v err=%v", us, why, got != nil, gerr), wit)
				}
			default:
				r.Event("get-expect-hit")
				ok := gerr == nil && got != nil && got.BaseCRL != nil && bytes.Equal(got.BaseCRL.Raw, m.base) &&
					(m.delta == nil) == (got.DeltaCRL == nil) && (m.delta == nil || bytes.Equal(got.DeltaCRL.Raw, m.delta))
				if !ok {
					r.Violation(map[string]string{"kind": "expected-bundle"}, fmt.Sprintf("Get(%s): expected exactly the bundle last stored under this URL, got bundle=%v err=%v", us, got != nil, gerr), wit)
				}
			}
		}
		r.Sample("sequence", trace)
		// ---- outside-the-root monitors
		for _, ev := range in.Drain() {
			if ev.Dir == parent && (ev.Name == "cache" || ev.Name == "") {
				continue // the root itself being opened/listed is activity inside the root
			}
			if ev.Dir == base && (ev.Name == "x" || ev.Name == "") && ev.Mask&(0x100|0x200|0x2|0x8|0x40|0x80) == 0 {
				continue // path walk through the parent directory (open/access/close-nowrite of the directory itself)
			}
			r.Violation(map[string]string{"kind": "activity-outside-root"}, "inotify saw activity outside the cache root: "+ev.String(), map[string]any{"trace": trace})
		}
		after := lib.Snapshot(base)
		for _, d := range lib.DiffSnap(before, after) {
			if strings.Contains(d, " x/cache/") {
				rel := strings.SplitN(strings.SplitN(d, " x/cache/", 2)[1], " ", 2)[0]
				if strings.Contains(rel, "/") {
					r.Violation(map[string]string{"kind": "nested-cache-file"}, "a cache file is not a direct child of the root: "+d, map[string]any{"trace": trace})
				}
				continue
			}
			r.Violation(map[string]string{"kind": "file-outside-root"}, "file-system change outside the cache root: "+d, map[string]any{"trace": trace})
		}
		r.Event("sequences")
	}, r.PanicViolation("crl.FileCache"))

	if tmpWatch != nil {
		evs := tmpWatch.Drain()
		if len(evs) > 0 {
			r.Violation(map[string]string{"kind": "default-tempdir-used"}, fmt.Sprintf("inotify saw %d events in the default temporary directory (TMPDIR), e.g. %s", len(evs), evs[0]), nil)
		}
		r.Extra["tmpdir_decoy_events"] = len(evs)
	}
	if ents, _ := os.ReadDir(tmpDecoy); len(ents) > 0 {
		r.Violation(map[string]string{"kind": "default-tempdir-used"}, fmt.Sprintf("%d files appeared in the default temporary directory", len(ents)), nil)
	}
	rootsMu.Lock()
	for _, p := range hookBad {
		r.Violation(map[string]string{"kind": "temp-file-outside-root"}, "WriteFile created its temporary file outside the cache root: "+p, nil)
	}
	r.Extra["hook_hits_temp_created"] = hookHit
	if hookHit == 0 {
		r.Extra["hook_note"] = "temp-created hook never fired (WriteFile rewritten?); the hook-path monitor observed nothing, verdict rests on inotify + snapshots"
	}
	rootsMu.Unlock()

	// ---- corruption probes
	nCor := r.N(40, 1500)
	lib.Parallel(nCor, 16, func(ci int) {
		rng := r.Rand(fmt.Sprintf("cor-%d", ci))
		base := lib.TempDir("c15cor")
		defer os.RemoveAll(base)
		rootsMu.Lock()
		roots[base] = true
		rootsMu.Unlock()
		c, _ := crl.NewFileCache(base)
		u := urls[rng.Intn(5)]
		b := lib.MintCRL(int64(100000+ci*2), now.Add(10*365*24*time.Hour), rng.Intn(3)*200)
		d := lib.MintCRL(int64(100001+ci*2), now.Add(10*365*24*time.Hour), rng.Intn(3)*100)
		bundle := &corecrl.Bundle{BaseCRL: b}
		if ci%2 == 0 {
			bundle.DeltaCRL = d
		}
		if err := c.Set(ctx, u, bundle); err != nil {
			panic(err)
		}
		ents, _ := os.ReadDir(base)
		if len(ents) != 1 {
			r.Violation(map[string]string{"kind": "entry-file-count"}, fmt.Sprintf("one Set left %d files", len(ents)), nil)
			return
		}
		path := filepath.Join(base, ents[0].Name())
		orig, _ := os.ReadFile(path)
		b64 := func(x []byte) string { return base64.StdEncoding.EncodeToString(x) }
		var variants [][]byte
		// truncation classes
		for _, n := range []int{0, 1, 2, 10, len(orig) / 4, len(orig) / 2, len(orig) - 2, len(orig) - 1} {
			if n >= 0 && n < len(orig) {
				variants = append(variants, orig[:n])
			}
		}
		for k := 0; k < 12; k++ {
			variants = append(variants, orig[:rng.Intn(len(orig))])
		}
		// bit flips
		for k := 0; k < 220; k++ {
			v := append([]byte(nil), orig...)
			v[rng.Intn(len(v))] ^= 1 << uint(rng.Intn(8))
			variants = append(variants, v)
		}
		// structural
		structural := []string{
			fmt.Sprintf(`{"baseCRL":%q,"deltaCRL":%q}`, b64(d.Raw), b64(b.Raw)), // swapped (both parse: well-formed)
			fmt.Sprintf(`{"deltaCRL":%q}`, b64(d.Raw)),
			`{"baseCRL":null}`, `{"baseCRL":null,"deltaCRL":null}`, `{}`, `null`, `[]`, `[1,2,3]`, `"string"`, `42`, `true`,
			fmt.Sprintf(`{"baseCRL":%q,"deltaCRL":""}`, b64(b.Raw)),
			fmt.Sprintf(`{"baseCRL":%q,"deltaCRL":"AAAA"}`, b64(b.Raw)),
			fmt.Sprintf(`{"baseCRL":%q,"deltaCRL":null}`, b64(b.Raw)),
			fmt.Sprintf(`{"baseCRL":"AAAA","deltaCRL":%q}`, b64(d.Raw)),
			fmt.Sprintf(`{"baseCRL":"%s!"}`, b64(b.Raw)),
			fmt.Sprintf(`{"baseCRL":[%d]}`, 1),
			fmt.Sprintf(`{"baseCRL":{"x":%q}}`, b64(b.Raw)),
			`{"name":"foreign","version":1}`, `{"trustPolicies":[]}`,
			string(orig) + "trailing", string(orig) + string(orig), "garbage" + string(orig), string(orig) + "\n",
			fmt.Sprintf(`{"baseCRL":%q}`, b64(b.Raw[:len(b.Raw)-3])),
			fmt.Sprintf(`{"baseCRL":%q}`, b64(append(append([]byte(nil), b.Raw...), 0, 0))),
			// a bare CRL (DER, DER followed by junk, PEM) where the entry should be: a CRL file is not a cache entry
			string(b.Raw), string(b.Raw) + "junk", string(pem.EncodeToMemory(&pem.Block{Type: "X509 CRL", Bytes: b.Raw})), b64(b.Raw),
		}
		for _, s := range structural {
			variants = append(variants, []byte(s))
		}
		for vi, v := range variants {
			if err := os.WriteFile(path, v, 0o644); err != nil {
				panic(err)
			}
			got, gerr := c.Get(ctx, u)
			r.Eval(fmt.Sprintf("cor/%d/%d", ci, vi))
			judge(r, v, got, gerr, fmt.Sprintf("corruption %d/%d", ci, vi))
		}
		// a directory in place of the entry file
		os.Remove(path)
		os.Mkdir(path, 0o755)
		got, gerr := c.Get(ctx, u)
		r.Event("corrupt-directory-in-place")
		if got != nil || gerr == nil {
			r.Violation(map[string]string{"kind": "corrupt-entry-returned-bundle", "why": "directory"}, "a directory in place of the entry file produced a bundle", nil)
		}
	}, r.PanicViolation("crl.FileCache.Get on corrupted entry"))

	largeEntries(r)
	expiredUnderContention(r)
	failedStoreKeepsPrevious(r)
	justExpired(r)
	distinctURLsAtOnce(r)
	r.RequireAtLeast("get-expect-hit", 1000)
	r.RequireAtLeast("get-expect-miss-expired", 1000)
	r.RequireAtLeast("get-expect-miss-never-stored", 1000)
	r.RequireAtLeast("corrupt-must-error", 1000)
	r.RequireAtLeast("corrupt-bundle-faithful", 50)
	r.Finish()
}

// refDecode is the reference decoding of an entry file: which base/delta DER the file encodes (if any).
type refT struct {
	mustError bool
	why       string
	bases     [][]byte // candidate base DER (keys matching baseCRL case-insensitively)
	deltas    [][]byte
	deltaNull bool
}

func refDecode(v []byte) refT {
	var out refT
	if !json.Valid(v) {
		return refT{mustError: true, why: "not-json"}
	}
	var obj map[string]json.RawMessage
	if err := json.Unmarshal(v, &obj); err != nil || obj == nil {
		if strings.TrimSpace(string(v)) == "null" {
			return refT{mustError: true, why: "null-document"}
		}
		return refT{mustError: true, why: "not-an-object"}
	}
	baseParses, deltaPresent, deltaParses := false, false, true
	for k, raw := range obj {
		switch {
		case strings.EqualFold(k, "baseCRL"):
			var b []byte
			if json.Unmarshal(raw, &b) == nil && b != nil {
				out.bases = append(out.bases, b)
				if _, err := x509.ParseRevocationList(b); err == nil {
					baseParses = true
				}
			}
		case strings.EqualFold(k, "deltaCRL"):
			if strings.TrimSpace(string(raw)) == "null" {
				out.deltaNull = true
				continue
			}
			deltaPresent = true
			var b []byte
			if json.Unmarshal(raw, &b) == nil && b != nil {
				out.deltas = append(out.deltas, b)
				if _, err := x509.ParseRevocationList(b); err != nil {
					deltaParses = false
				}
			} else {
				deltaParses = false
			}
		}
	}
	if !baseParses {
		return refT{mustError: true, why: "no-parseable-base", bases: out.bases}
	}
	if deltaPresent && !deltaParses && len(obj) == 2 && len(out.deltas) <= 1 {
		out.mustError, out.why = true, "unparseable-delta"
	}
	return out
}

func judge(r *lib.Run, v []byte, got *corecrl.Bundle, gerr error, id string) {
	ref := refDecode(v)
	wit := map[string]any{"file_prefix": fmt.Sprintf("%.120q", v), "file_len": len(v), "err": fmt.Sprint(gerr), "case": id}
	if len(v) < 8192 {
		wit["file_base64"] = base64.StdEncoding.EncodeToString(v)
	}
	if ref.mustError {
		r.Event("corrupt-must-error")
		if got != nil || gerr == nil {
			r.Violation(map[string]string{"kind": "corrupt-entry-returned-bundle", "why": ref.why}, "a stored file that is not a well-formed entry ("+ref.why+") produced a bundle instead of an error", wit)
		}
		return
	}
	if got == nil {
		r.Event("corrupt-wellformed-refused")
		return
	}
	r.Event("corrupt-bundle-faithful")
	okBase := false
	// the CRL a field encodes is what the reference parser reads from its bytes (crypto/x509 tolerates bytes after the DER element)
	enc := func(b []byte) []byte {
		if rl, err := x509.ParseRevocationList(b); err == nil {
			return rl.Raw
		}
		return nil
	}
	for _, b := range ref.bases {
		if e := enc(b); got.BaseCRL != nil && e != nil && bytes.Equal(got.BaseCRL.Raw, e) {
			okBase = true
		}
	}
	okDelta := got.DeltaCRL == nil
	for _, b := range ref.deltas {
		if e := enc(b); got.DeltaCRL != nil && e != nil && bytes.Equal(got.DeltaCRL.Raw, e) {
			okDelta = true
		}
	}
	if got.DeltaCRL == nil && len(ref.deltas) > 0 {
		okDelta = false // a delta the file encodes was dropped silently
	}
	if !okBase || !okDelta {
		r.Violation(map[string]string{"kind": "unfaithful-bundle"}, fmt.Sprintf("Get returned a bundle that is not byte-faithful to the stored file (base ok=%v delta ok=%v)", okBase, okDelta), wit)
	}
}

// largeEntries: a CRL may legitimately be tens of MiB (the fetcher of notation-core-go accepts up to 32 MiB per CRL), and
// an entry file holds base64 of base AND delta. Whatever Set accepted, Get must give back byte for byte.
func largeEntries(r *lib.Run) {
	ctx := context.Background()
	far := time.Now().Add(10 * 365 * 24 * time.Hour)
	type sz struct{ base, delta int }
	sizes := []sz{{20 << 20, 6 << 20}}
	if r.Thorough() {
		sizes = append(sizes, sz{31 << 20, 0}, sz{12 << 20, 12<<20 + 4096}, sz{31 << 20, 31 << 20})
	}
	for i, s := range sizes {
		base := lib.TempDir("c15big")
		c, err := crl.NewFileCache(base)
		if err != nil {
			panic(err)
		}
		b := &corecrl.Bundle{BaseCRL: lib.MintBigCRL(int64(900000+2*i), far, s.base, byte(i))}
		if s.delta > 0 {
			b.DeltaCRL = lib.MintBigCRL(int64(900001+2*i), far, s.delta, byte(i+100))
		}
		u := fmt.Sprintf("http://big.example/%d.crl", i)
		id := fmt.Sprintf("large entry base=%d MiB delta=%d MiB", s.base>>20, s.delta>>20)
		r.Eval(id)
		if err := c.Set(ctx, u, b); err != nil {
			r.Event("large-entry-set-refused") // refusing to store is not a breach of what Get promises
			os.RemoveAll(base)
			continue
		}
		got, gerr := c.Get(ctx, u)
		switch {
		case gerr != nil || got == nil:
			r.Violation(map[string]string{"kind": "large-entry-lost"}, fmt.Sprintf("%s: Set succeeded, the following Get returned %v", id, gerr), nil)
		case !bytes.Equal(got.BaseCRL.Raw, b.BaseCRL.Raw) || (b.DeltaCRL == nil) != (got.DeltaCRL == nil) || (b.DeltaCRL != nil && !bytes.Equal(got.DeltaCRL.Raw, b.DeltaCRL.Raw)):
			r.Violation(map[string]string{"kind": "large-entry-unfaithful"}, id+": Get returned other bytes than were stored", nil)
		default:
			r.Event("large-entry-round-trips")
		}
		os.RemoveAll(base)
	}
}

// expiredUnderContention: an expired entry is a miss for EVERY reader, also when several read it at once, and reading
// it never costs a bundle stored meanwhile: once a Set of a fresh bundle has returned (and all readers that overlapped
// it are done), the next Get returns that bundle.
func expiredUnderContention(r *lib.Run) {
	ctx := context.Background()
	now := time.Now()
	expired := &corecrl.Bundle{BaseCRL: lib.MintCRL(910001, now.Add(-48*time.Hour), 300<<10)}
	fresh := &corecrl.Bundle{BaseCRL: lib.MintCRL(910002, now.Add(10*365*24*time.Hour), 300<<10)}
	rounds := r.N(40, 600)
	lib.Parallel(rounds, 4, func(k int) {
		base := lib.TempDir("c15exp")
		defer os.RemoveAll(base)
		c, err := crl.NewFileCache(base)
		if err != nil {
			panic(err)
		}
		u := fmt.Sprintf("http://expired.example/%d.crl", k)
		if err := c.Set(ctx, u, expired); err != nil {
			panic(err)
		}
		const readers = 8
		errs := make([]error, readers)
		gots := make([]*corecrl.Bundle, readers)
		var wg sync.WaitGroup
		start := make(chan struct{})
		for g := 0; g < readers; g++ {
			wg.Add(1)
			go func(g int) {
				defer wg.Done()
				defer func() {
					if p := recover(); p != nil {
						r.Violation(map[string]string{"kind": "panic", "phase": "expired-under-contention"}, fmt.Sprintf("the cache panicked under concurrent use: %v", p), nil)
					}
				}()
				<-start
				gots[g], errs[g] = c.Get(ctx, u)
			}(g)
		}
		close(start)
		wg.Wait()
		r.Eval(fmt.Sprintf("expired-contention/%d", k))
		for g := range errs {
			if gots[g] != nil || !errors.Is(errs[g], corecrl.ErrCacheMiss) {
				r.Violation(map[string]string{"kind": "expired-not-a-miss"}, fmt.Sprintf("round %d: reader %d of %d reading one expired entry at once got (bundle=%v, err=%v), expected a cache miss", k, g, readers, gots[g] != nil, errs[g]), nil)
			}
		}
		r.Event("expired-concurrent-reads")
		// readers of the expired entry overlapping a Set of a fresh one
		if err := c.Set(ctx, u, expired); err != nil {
			panic(err)
		}
		start2 := make(chan struct{})
		var wg2 sync.WaitGroup
		for g := 0; g < 4; g++ {
			wg2.Add(1)
			go func(g int) {
				defer wg2.Done()
				defer func() {
					if p := recover(); p != nil {
						r.Violation(map[string]string{"kind": "panic", "phase": "expired-under-contention"}, fmt.Sprintf("the cache panicked under concurrent use: %v", p), nil)
					}
				}()
				<-start2
				for j := 0; j < 3; j++ {
					c.Get(ctx, u)
				}
			}(g)
		}
		wg2.Add(1)
		var serr error
		go func() {
			defer wg2.Done()
			defer func() {
				if p := recover(); p != nil {
					r.Violation(map[string]string{"kind": "panic", "phase": "expired-under-contention"}, fmt.Sprintf("the cache panicked under concurrent use: %v", p), nil)
				}
			}()
			<-start2
			serr = c.Set(ctx, u, fresh)
		}()
		close(start2)
		wg2.Wait()
		if serr != nil {
			r.Event("contended-set-refused")
			return
		}
		got, gerr := c.Get(ctx, u)
		if gerr != nil || got == nil || !bytes.Equal(got.BaseCRL.Raw, fresh.BaseCRL.Raw) {
			r.Violation(map[string]string{"kind": "stored-bundle-lost"}, fmt.Sprintf("round %d: a fresh bundle was stored (Set returned nil) while readers were reading the expired entry; afterwards Get returned err=%v", k, gerr), nil)
		}
		r.Event("set-overlapping-expired-reads")
	}, r.PanicViolation("expired entry under contention"))
}

// distinctURLsAtOnce: goroutines that share ONE cache value, each the only writer and reader of its own URL. Whatever the
// others do, a URL's reads yield what was last stored under it (state shared between calls shows as another URL's bundle,
// a miss, or a crash).
func distinctURLsAtOnce(r *lib.Run) {
	ctx := context.Background()
	base := lib.TempDir("c15many")
	defer os.RemoveAll(base)
	c, err := crl.NewFileCache(base)
	if err != nil {
		panic(err)
	}
	far := time.Now().Add(10 * 365 * 24 * time.Hour)
	const G = 8
	rounds := r.N(250, 3000)
	bundles := make([][2]*corecrl.Bundle, G)
	for g := range bundles {
		bundles[g] = [2]*corecrl.Bundle{{BaseCRL: lib.MintCRL(int64(930000+2*g), far, 300)}, {BaseCRL: lib.MintCRL(int64(930001+2*g), far, 500)}}
	}
	var wg sync.WaitGroup
	for g := 0; g < G; g++ {
		wg.Add(1)
		go func(g int) {
			defer wg.Done()
			defer func() {
				if p := recover(); p != nil {
					r.Violation(map[string]string{"kind": "panic", "phase": "distinct-urls-at-once"}, fmt.Sprintf("goroutine %d: the cache panicked: %v", g, p), nil)
				}
			}()
			u := fmt.Sprintf("http://many.example/%d/own.crl", g)
			for k := 0; k < rounds; k++ {
				b := bundles[g][k%2]
				if err := c.Set(ctx, u, b); err != nil {
					r.Violation(map[string]string{"kind": "set-failed", "phase": "distinct-urls-at-once"}, fmt.Sprintf("goroutine %d round %d: Set failed: %v", g, k, err), nil)
					return
				}
				got, err := c.Get(ctx, u)
				r.Event("own-url-round-trips-beside-other-urls")
				if err != nil || got == nil || !bytes.Equal(got.BaseCRL.Raw, b.BaseCRL.Raw) {
					n := int64(-1)
					if got != nil && got.BaseCRL != nil && got.BaseCRL.Number != nil {
						n = got.BaseCRL.Number.Int64()
					}
					r.Violation(map[string]string{"kind": "expected-bundle", "phase": "distinct-urls-at-once"}, fmt.Sprintf("goroutine %d (only user of %s) stored CRL %d and read back CRL %d (err=%v) while %d other goroutines used their own URLs on the same cache value", g, u, b.BaseCRL.Number, n, err, G-1), nil)
					return
				}
			}
		}(g)
	}
	wg.Wait()
	r.Eval("distinct-urls-at-once")
}

// justExpired: entries whose next-update instant T (a whole second, as X.509 times are) lies two seconds ahead are stored,
// read once before T (fresh: returned) and once shortly AFTER T (the process sleeps until T + 120 ms by its own clock - the
// clock the library reads): "afterwards the result is a cache miss" has no grace period, not even the rest of that second.
// Only a read that starts after T is judged, and any such read must be a miss however late it runs, so a stalled machine
// cannot raise an alarm (it can only make the read land later than intended).
func justExpired(r *lib.Run) {
	ctx := context.Background()
	base := lib.TempDir("c15just")
	defer os.RemoveAll(base)
	c, err := crl.NewFileCache(base)
	if err != nil {
		panic(err)
	}
	far := time.Now().Add(10 * 365 * 24 * time.Hour)
	T := time.Now().Truncate(time.Second).Add(2 * time.Second)
	cases := map[string]*corecrl.Bundle{
		"http://just.example/base-expires.crl":  {BaseCRL: lib.MintCRL(920001, T, 2000)},
		"http://just.example/delta-expires.crl": {BaseCRL: lib.MintCRL(920002, far, 2000), DeltaCRL: lib.MintCRL(920003, T, 2000)},
		"http://just.example/both-expire.crl":   {BaseCRL: lib.MintCRL(920004, T, 2000), DeltaCRL: lib.MintCRL(920005, T, 2000)},
	}
	for u, b := range cases {
		if err := c.Set(ctx, u, b); err != nil {
			panic(err)
		}
		if got, err := c.Get(ctx, u); time.Now().Before(T) && (err != nil || got == nil) {
			r.Violation(map[string]string{"kind": "fresh-entry-not-returned"}, fmt.Sprintf("%s: read before the next-update instant returned err=%v", u, err), nil)
		}
	}
	// a CRL that states NO next-update can never be shown to be "not past its next-update": as base or as delta it keeps the
	// bundle from being returned (however fresh the other CRL is)
	for u, b := range map[string]*corecrl.Bundle{
		"http://just.example/delta-without-next-update.crl":     {BaseCRL: lib.MintCRL(920011, far, 2000), DeltaCRL: lib.MintCRL(920012, time.Time{}, 2000)},
		"http://just.example/base-without-next-update.crl":      {BaseCRL: lib.MintCRL(920013, time.Time{}, 2000), DeltaCRL: lib.MintCRL(920014, far, 2000)},
		"http://just.example/only-base-without-next-update.crl": {BaseCRL: lib.MintCRL(920015, time.Time{}, 2000)},
	} {
		if !b.BaseCRL.NextUpdate.IsZero() && (b.DeltaCRL == nil || !b.DeltaCRL.NextUpdate.IsZero()) {
			panic("harness bug: the minted CRL states a next-update")
		}
		if err := c.Set(ctx, u, b); err != nil {
			r.Event("set-refuses-a-crl-without-next-update")
			continue
		}
		got, err := c.Get(ctx, u)
		r.Eval("no-next-update|" + u)
		r.Event("reads-of-bundles-with-a-crl-that-states-no-next-update")
		if got != nil || err == nil {
			r.Violation(map[string]string{"kind": "bundle-without-next-update-returned"}, fmt.Sprintf("%s: Get returned a bundle (err=%v) although one of its CRLs states no next-update", u, err), nil)
		}
	}
	time.Sleep(time.Until(T.Add(120 * time.Millisecond)))
	for u := range cases {
		started := time.Now()
		got, err := c.Get(ctx, u)
		r.Eval("just-expired|" + u)
		if !started.After(T) {
			r.Inconclusive("the clock stepped backwards during the just-expired probe")
			continue
		}
		r.Event("reads-within-moments-after-next-update")
		if got != nil || !errors.Is(err, corecrl.ErrCacheMiss) {
			r.Violation(map[string]string{"kind": "expired-not-a-miss", "how_long_ago": "moments"}, fmt.Sprintf("%s: a read that started %v after the next-update instant returned (bundle=%v, err=%v), expected a cache miss", u, started.Sub(T), got != nil, err), nil)
		}
	}
}

// failedStoreKeepsPrevious: "last stored" means last SUCCESSFULLY stored. A store that fails part-way (here: a writer
// process whose file-size limit makes write(2) fail with EFBIG after a partial write) must leave the bundle stored
// before it in place, byte for byte.
func failedStoreKeepsPrevious(r *lib.Run) {
	worker := filepath.Join(os.Getenv("VERIF_BIN"), "worker")
	if _, err := os.Stat(worker); err != nil {
		r.Event("worker-missing")
		return
	}
	ctx := context.Background()
	far := time.Now().Add(10 * 365 * 24 * time.Hour)
	bdir := lib.TempDir("c15fb")
	r.OnExit(func() { os.RemoveAll(bdir) })
	n := r.N(6, 60)
	for k := 0; k < n; k++ {
		base := lib.TempDir("c15fs")
		c, err := crl.NewFileCache(base)
		if err != nil {
			panic(err)
		}
		u := fmt.Sprintf("http://failed-store.example/%d.crl", k)
		first := &corecrl.Bundle{BaseCRL: lib.MintCRL(int64(920000+2*k), far, 2000+k*300)}
		second := lib.MintCRL(int64(920001+2*k), far, 40000)
		os.WriteFile(filepath.Join(bdir, fmt.Sprintf("%d.der", 920001+2*k)), second.Raw, 0o644)
		if err := c.Set(ctx, u, first); err != nil {
			panic(err)
		}
		cmd := exec.Command(worker, "cache-set", base, u, bdir, fmt.Sprint(920001+2*k))
		cmd.Env = append(os.Environ(), fmt.Sprintf("VERIF_FSIZE_LIMIT=%d", 16+k*997))
		out, werr := cmd.CombinedOutput()
		r.Eval(fmt.Sprintf("failed-store/%d", k))
		got, gerr := c.Get(ctx, u)
		switch {
		case werr == nil:
			r.Event("limited-store-succeeded") // the limit did not bite: says nothing
		case !strings.Contains(string(out), "set failed"):
			r.Event("limited-store-failed-outside-set")
		case gerr != nil || got == nil || !bytes.Equal(got.BaseCRL.Raw, first.BaseCRL.Raw):
			r.Violation(map[string]string{"kind": "failed-store-lost-previous"}, fmt.Sprintf("a store that failed (%s) cost the bundle stored before it: Get now returns err=%v", strings.TrimSpace(string(out)), gerr), nil)
		default:
			r.Event("failed-stores-kept-previous")
		}
		os.RemoveAll(base)
	}
	r.RequireAtLeast("failed-stores-kept-previous", 3)
}
