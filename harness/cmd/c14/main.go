// C14 — a CRL cache entry is only ever absent or complete.
//
// Four runtime monitors over the real crl.FileCache / internal/file.WriteFile
// (DESIGN.md section 3 C14 and appendix B), all sharing one history format with
// CLOCK_MONOTONIC timestamps and unique bundle ids:
//  1. free-running in-process stress under the race detector (hook sleeps widen windows),
//  2. free-running cross-process stress (static worker processes on one directory),
//  3. deterministic exploration of ALL interleavings of the four file-system step
//     boundaries of two writers (and sampled for three), reading at every boundary
//     from a persistent cache value, a fresh one and a separate reader process,
//  4. crash points: the writer process is killed by the hook at each boundary, by
//     strace at the n-th file-system syscall, and by a timer inside large writes.
//
// Oracles: complete-or-absent, provenance, freshness, per-URL atomic register
// (porcupine), exact expected value at step boundaries, post-crash state.
package main

import (
	"bytes"
	"context"
	"crypto/sha256"
	"encoding/hex"
	"encoding/json"
	"fmt"
	"os"
	"os/exec"
	"path/filepath"
	"runtime"
	"sort"
	"strconv"
	"strings"
	"sync"
	"syscall"
	"time"

	corecrl "github.com/notaryproject/notation-core-go/revocation/crl"
	"github.com/notaryproject/notation-go/internal/file"
	"github.com/notaryproject/notation-go/verifharness/hist"
	"github.com/notaryproject/notation-go/verifharness/lib"
	"github.com/notaryproject/notation-go/verifier/crl"
)

var (
	r         *lib.Run
	scratch   string
	bundleDir string
	idMu      sync.Mutex
	nextID    int64 = 1
	workerBin string
	altFS     string // a scratch directory on ANOTHER file system than the default temporary directory ("" if the machine has none)
	points    = []string{"temp-created", "content-written", "temp-closed", "returned"}
	ctx       = context.Background()
)

// mint creates a bundle with a fresh unique id (CRL number) and about pad bytes, and registers it on disk.
func mint(pad int, delta bool) int64 {
	idMu.Lock()
	id := nextID
	nextID++
	idMu.Unlock()
	far := time.Now().Add(20 * 365 * 24 * time.Hour)
	rl := lib.MintCRL(id, far, pad)
	if err := os.WriteFile(filepath.Join(bundleDir, fmt.Sprintf("%d.der", id)), rl.Raw, 0o644); err != nil {
		panic(err)
	}
	if delta {
		d := lib.MintCRL(id+1_000_000_000, far, pad/4)
		os.WriteFile(filepath.Join(bundleDir, fmt.Sprintf("%d.delta.der", id)), d.Raw, 0o644)
	}
	return id
}

// mintMany mints n bundles in parallel (minting is not the code under test) with sizes/delta drawn from rng.
func mintMany(n int, rng *lib.Rand) []int64 {
	pads := make([]int, n)
	deltas := make([]bool, n)
	for i := range pads {
		pads[i], deltas[i] = sizeFor(rng), rng.Intn(4) == 0
	}
	ids := make([]int64, n)
	lib.Parallel(n, 16, func(i int) { ids[i] = mint(pads[i], deltas[i]) }, nil)
	return ids
}

func bundle(id int64) *corecrl.Bundle {
	b, err := hist.LoadBundle(bundleDir, id)
	if err != nil {
		panic(err)
	}
	return b
}

func cacheName(url string) string {
	h := sha256.Sum256([]byte(url))
	return hex.EncodeToString(h[:])
}

func goid() int64 {
	var buf [64]byte
	n := runtime.Stack(buf[:], false)
	f := bytes.Fields(buf[:n])
	id, _ := strconv.ParseInt(string(f[1]), 10, 64)
	return id
}

func report(findings []hist.Finding, where string, extra map[string]any) {
	for _, f := range findings {
		w := map[string]any{"where": where, "operations": f.Ops}
		for k, v := range extra {
			w[k] = v
		}
		r.Violation(map[string]string{"kind": f.Kind, "monitor": where}, f.What, w)
	}
}

func addStats(prefix string, st hist.Stats) {
	r.EventN(prefix+"-sets", int64(st.Sets))
	r.EventN(prefix+"-gets", int64(st.Gets))
	r.EventN(prefix+"-hits", int64(st.Hits))
	r.EventN(prefix+"-misses", int64(st.Misses))
	r.EventN(prefix+"-set-errors", int64(st.SetErrors))
	r.EventN("freshness-obligations", st.FreshnessObligations)
	r.EventN("porcupine-ok", int64(st.PorcupineOK))
	r.EventN("porcupine-illegal", int64(st.PorcupineIllegal))
	r.EventN("porcupine-partitions-left-to-the-specialised-monitors", int64(st.PorcupineSkipped))
	r.EventN("porcupine-unknown", int64(st.PorcupineUnknown))
	if st.PorcupineUnknown > 0 {
		r.Inconclusive(fmt.Sprintf("%s: porcupine timed out on %d URL partitions", prefix, st.PorcupineUnknown))
	}
}

func sizeFor(rng *lib.Rand) int {
	switch rng.Intn(36) {
	case 0:
		return 64*1024 + rng.Intn(r.N(192, 1024)*1024)
	case 1, 2, 3:
		return 16*1024 + rng.Intn(48*1024)
	default:
		return 600 + rng.Intn(7*1024)
	}
}

// ---------------------------------------------------------------- monitor 1

func stressInProcess() {
	n := r.N(18, 240)
	for h := 0; h < n; h++ {
		rng := r.Rand(fmt.Sprintf("stress-%d", h))
		dir := filepath.Join(scratch, fmt.Sprintf("inproc-%d", h))
		if altFS != "" && h%6 == 5 {
			dir = filepath.Join(altFS, fmt.Sprintf("inproc-%d", h))
			r.Event("histories-on-another-file-system")
		}
		k := 1 + h%3
		var urls []string
		for i := 0; i < k; i++ {
			urls = append(urls, fmt.Sprintf("http://crl.example/%d/%d.crl", h, i))
		}
		if k >= 2 && h%2 == 1 {
			urls[1] = fmt.Sprintf("http://crl.example/%d/0.CRL", h) // differs from urls[0] in letter case only: still another URL
		}
		if k >= 2 && h%8 == 5 {
			// percent-escapes that differ in their digits only
			urls[0] = fmt.Sprintf("http://crl.example/%d/Issuing%%20CA%%201.crl", h)
			urls[1] = fmt.Sprintf("http://crl.example/%d/Issuing%%20CA%%202.crl", h)
			r.Event("histories-over-urls-that-differ-in-escape-digits-only")
		}
		if k >= 2 && h%4 == 2 {
			// distribution points that differ in the query string only (one servlet publishing the CRLs of several issuers),
			// and one that differs in the user-info part only: other URLs
			urls[0] = fmt.Sprintf("http://crl.example/%d/certdist?cmd=crl&issuer=CN%%3DIssuing+CA+A", h)
			urls[1] = fmt.Sprintf("http://crl.example/%d/certdist?cmd=crl&issuer=CN%%3DIssuing+CA+B", h)
			if k >= 3 {
				urls[2] = fmt.Sprintf("http://mirror@crl.example/%d/certdist?cmd=crl&issuer=CN%%3DIssuing+CA+A", h)
			}
			r.Event("histories-over-urls-that-differ-in-query-or-user-info-only")
		}
		writers, setsEach := 3, r.N(40, 50)
		sp := hist.RunSpec{Dir: dir, Proc: 0, URLs: urls, BundleDir: bundleDir, Readers: 5, ReadsEach: r.N(110, 140),
			SleepMaxUS: []int{0, 60, 200}[h%3], Seed: rng.U64(), SharedCache: h%2 == 0}
		tm := time.Now()
		all := mintMany(writers*setsEach, rng)
		for w := 0; w < writers; w++ {
			sp.WriterIDs = append(sp.WriterIDs, all[w*setsEach:(w+1)*setsEach])
		}
		dm := time.Since(tm)
		tm = time.Now()
		events, err := hist.Run(sp)
		if h < 3 {
			fmt.Printf("C14: history %d: mint %v run %v\n", h, dm, time.Since(tm))
		}
		if err != nil {
			panic(err)
		}
		t0 := time.Now()
		findings, st := hist.Check(events, 60*time.Second)
		if d := time.Since(t0); d > 2*time.Second {
			fmt.Printf("C14: history %d: checkers took %v\n", h, d)
		}
		report(findings, "in-process-stress", map[string]any{"history": h, "urls": urls, "sleep_max_us": sp.SleepMaxUS, "shared_cache_value": sp.SharedCache})
		addStats("inproc", st)
		r.Eval(fmt.Sprintf("inproc-history-%d", h))
		r.Event("histories-in-process")
		if h == 0 && len(events) > 6 {
			r.Sample("history excerpt (in-process)", events[:6])
		}
		checkLeftovers(dir, urls, "in-process-stress")
		os.RemoveAll(dir)
	}
}

// checkLeftovers: after a quiescent point the directory holds exactly the entries of the stored URLs (no temp file left by a completed Set).
func checkLeftovers(dir string, urls []string, where string) {
	ents, _ := os.ReadDir(dir)
	want := map[string]bool{}
	for _, u := range urls {
		want[cacheName(u)] = true
	}
	for _, e := range ents {
		if !want[e.Name()] {
			r.Event("leftover-files-after-completed-writes")
			r.Extra["leftover_note"] = "files other than entries were present after all writers returned: " + e.Name()
		}
	}
}

// hammer: a long free-running history without hook sleeps and with small bundles of DIFFERENT sizes, to reach windows
// inside the reader (e.g. between a stat and an open); only the online monitors and freshness apply (too long for porcupine).
func hammer() {
	n := r.N(1, 6)
	for h := 0; h < n; h++ {
		rng := r.Rand(fmt.Sprintf("hammer-%d", h))
		dir := filepath.Join(scratch, fmt.Sprintf("hammer-%d", h))
		urls := []string{fmt.Sprintf("http://crl.example/hammer/%d.crl", h)}
		writers, setsEach := 4, r.N(500, 4000)
		ids := make([]int64, writers*setsEach)
		pads := make([]int, len(ids))
		for i := range pads {
			pads[i] = []int{300, 2500, 9000, 30000}[rng.Intn(4)]
		}
		lib.Parallel(len(ids), 16, func(i int) { ids[i] = mint(pads[i], false) }, nil)
		sp := hist.RunSpec{Dir: dir, Proc: 0, URLs: urls, BundleDir: bundleDir, Readers: 8, ReadsEach: r.N(2500, 20000), Seed: rng.U64(), SharedCache: h%2 == 0}
		for w := 0; w < writers; w++ {
			sp.WriterIDs = append(sp.WriterIDs, ids[w*setsEach:(w+1)*setsEach])
		}
		events, err := hist.Run(sp)
		if err != nil {
			panic(err)
		}
		hist.MaxPorcupineOps = 5000
		findings, st := hist.Check(events, 60*time.Second)
		hist.MaxPorcupineOps = 0
		report(findings, "hammer", map[string]any{"history": h})
		addStats("hammer", st)
		r.Eval(fmt.Sprintf("hammer-history-%d", h))
		r.Event("histories-hammer")
		os.RemoveAll(dir)
	}
}

// largeEntries: the same free-running history with bundles whose entry file exceeds 32 MiB (a 20 MiB base plus a 6 MiB
// delta CRL, base64 in JSON): "complete" does not depend on the size of what a writer stored.
func largeEntries() {
	far := time.Now().Add(20 * 365 * 24 * time.Hour)
	n := 4
	ids := make([]int64, n)
	lib.Parallel(n, 4, func(i int) {
		idMu.Lock()
		id := nextID
		nextID++
		idMu.Unlock()
		os.WriteFile(filepath.Join(bundleDir, fmt.Sprintf("%d.der", id)), lib.MintBigCRL(id, far, 20<<20+i*4099, byte(i)).Raw, 0o644)
		os.WriteFile(filepath.Join(bundleDir, fmt.Sprintf("%d.delta.der", id)), lib.MintBigCRL(id+1_000_000_000, far, 6<<20+i*4099, byte(i+50)).Raw, 0o644)
		ids[i] = id
	}, nil)
	dir := filepath.Join(scratch, "large")
	os.MkdirAll(dir, 0o755)
	// two (uninstrumented) worker processes, each one writer and two readers, started together
	start := hist.MonoNow() + int64(150*time.Millisecond)
	var cmds []*exec.Cmd
	var outs []string
	for p := 0; p < 2; p++ {
		sp := hist.RunSpec{Dir: dir, Proc: p + 1, URLs: []string{"http://crl.example/large.crl"}, BundleDir: bundleDir, Readers: 2, ReadsEach: r.N(10, 30), ReadGapUS: 60000, OutlastWriters: true,
			Seed: r.Rand(fmt.Sprintf("large-%d", p)).U64(), SharedCache: p == 0, StartAt: start, Out: filepath.Join(scratch, fmt.Sprintf("large-%d.hist", p)), WriterIDs: [][]int64{ids[2*p : 2*p+2]}}
		specPath := filepath.Join(scratch, fmt.Sprintf("large-%d.spec", p))
		b, _ := json.Marshal(sp)
		os.WriteFile(specPath, b, 0o644)
		cmd := exec.Command(workerBin, "cache-run", specPath)
		cmd.Stderr = os.Stderr
		if err := cmd.Start(); err != nil {
			panic(err)
		}
		cmds = append(cmds, cmd)
		outs = append(outs, sp.Out)
	}
	var events []hist.Event
	for i, c := range cmds {
		if err := waitTimeout(c, 5*time.Minute); err != nil {
			r.Inconclusive(fmt.Sprintf("large-entry worker %d failed: %v", i, err))
			continue
		}
		var ev []hist.Event
		b, _ := os.ReadFile(outs[i])
		json.Unmarshal(b, &ev)
		events = append(events, ev...)
	}
	findings, st := hist.Check(events, 60*time.Second)
	report(findings, "large-entries", nil)
	addStats("large", st)
	r.Eval("large-entries-history")
	// a bundle whose base AND delta CRL are each just below what a fetcher accepts (25 MiB of DER each), stored over the
	// smaller entry of the same URL: once Set has returned nil, a read does not yield the older bundle
	{
		idMu.Lock()
		big := nextID
		nextID++
		idMu.Unlock()
		os.WriteFile(filepath.Join(bundleDir, fmt.Sprintf("%d.der", big)), lib.MintBigCRL(big, far, 25<<20, 7).Raw, 0o644)
		os.WriteFile(filepath.Join(bundleDir, fmt.Sprintf("%d.delta.der", big)), lib.MintBigCRL(big+1_000_000_000, far, 25<<20, 8).Raw, 0o644)
		url := "http://crl.example/large-both.crl"
		small := mint(2000, true)
		c, _ := crl.NewFileCache(dir)
		if err := c.Set(ctx, url, bundle(small)); err != nil {
			panic(err)
		}
		serr := c.Set(ctx, url, bundle(big))
		g := inprocGet(dir, url)
		r.Eval("large-base-and-delta-over-an-older-entry")
		r.Event("large-base-and-delta-stores")
		if serr == nil && g.ID != big {
			r.Violation(map[string]string{"kind": "completed-set-not-visible", "monitor": "large-entries"},
				fmt.Sprintf("Set(%d: base 25 MiB + delta 25 MiB) over the entry %d returned nil, a read started afterwards yields %d (err=%q)", big, small, g.ID, g.Err), map[string]any{"read": g})
		} else if g.ID != big && g.ID != small || (g.ID > 0 && !g.Bytes) {
			r.Violation(map[string]string{"kind": "read-after-failed-set", "monitor": "large-entries"},
				fmt.Sprintf("Set(%d) failed with %v; a read yields %d (bytes ok=%v err=%q), admitted: %d or %d", big, serr, g.ID, g.Bytes, g.Err, small, big), map[string]any{"read": g})
		}
		os.Remove(filepath.Join(bundleDir, fmt.Sprintf("%d.der", big)))
		os.Remove(filepath.Join(bundleDir, fmt.Sprintf("%d.delta.der", big)))
	}
	os.RemoveAll(dir)
	for _, id := range ids {
		os.Remove(filepath.Join(bundleDir, fmt.Sprintf("%d.der", id)))
		os.Remove(filepath.Join(bundleDir, fmt.Sprintf("%d.delta.der", id)))
	}
}

// sameBundleAgain: writers store bundles they have stored before (A, B, A): two cache values over one directory, and one
// value alone. A read that starts after the last write returned yields that write's bundle, whatever was stored earlier.
func sameBundleAgain() {
	for k := 0; k < 6; k++ {
		dir := filepath.Join(scratch, fmt.Sprintf("again-%d", k))
		url := fmt.Sprintf("http://crl.example/again/%d.crl", k)
		w1, _ := crl.NewFileCache(dir)
		w2 := w1
		if k%2 == 0 {
			w2, _ = crl.NewFileCache(dir)
		}
		a, b := mint(900+k, k%3 == 0), mint(1100+k, k%3 == 1)
		seq := []struct {
			w  *crl.FileCache
			id int64
		}{{w1, a}, {w2, b}, {w1, a}, {w1, a}, {w2, b}, {w2, a}}
		for i, st := range seq {
			if err := st.w.Set(ctx, url, bundle(st.id)); err != nil {
				r.Inconclusive(fmt.Sprintf("same-bundle-again: Set failed: %v", err))
				break
			}
			g := inprocGet(dir, url)
			r.Eval(fmt.Sprintf("same-bundle-again|%d|%d", k, i))
			r.Event("stores-of-a-bundle-stored-before")
			if g.ID != st.id || !g.Bytes {
				r.Violation(map[string]string{"kind": "completed-set-not-visible", "monitor": "same-bundle-again"},
					fmt.Sprintf("write #%d of the sequence A,B,A,A,B,A (two cache values: %v) stored bundle %d and returned nil; a read started afterwards yields %d (err=%q)", i+1, k%2 == 0, st.id, g.ID, g.Err), map[string]any{"sequence_ids": []int64{a, b, a, a, b, a}})
				break
			}
		}
		os.RemoveAll(dir)
	}
}

// storesUnderDoneContext: a Set whose context is already cancelled (or expires at once) returns - with nil or with an
// error, that is its business - and THEN another Set for the same URL stores a newer bundle and returns nil. Whatever
// the first call did or still does, a read started after the second write returned must not yield the first bundle:
// nothing of a call that has returned may land later.
func storesUnderDoneContext() {
	n := r.N(6, 60)
	big := make([]int64, n)
	small := make([]int64, n)
	lib.Parallel(n, 8, func(i int) { big[i], small[i] = mint(3<<20, false), mint(900, false) }, nil)
	dir := filepath.Join(scratch, "done-ctx")
	c, err := crl.NewFileCache(dir)
	if err != nil {
		panic(err)
	}
	for i := 0; i < n; i++ {
		u := fmt.Sprintf("http://crl.example/done-ctx/%d.crl", i)
		dctx, cancel := context.WithCancel(ctx)
		if i%2 == 0 {
			cancel()
		} else {
			var c2 context.CancelFunc
			dctx, c2 = context.WithTimeout(ctx, time.Millisecond)
			defer c2()
		}
		err1 := c.Set(dctx, u, bundle(big[i]))
		cancel()
		if err2 := c.Set(ctx, u, bundle(small[i])); err2 != nil {
			r.Violation(map[string]string{"kind": "set-error", "monitor": "done-context"}, fmt.Sprintf("a plain Set after a Set under a done context failed: %v", err2), nil)
			continue
		}
		r.Eval(fmt.Sprintf("done-ctx|%d", i))
		r.Event("stores-under-a-done-context")
		for poll := 0; poll < 8; poll++ { // reads over ~400 ms after the second write returned
			b, gerr := c.Get(ctx, u)
			id, ok, es := hist.Classify(bundleDir, b, gerr)
			if id != small[i] || !ok {
				r.Violation(map[string]string{"kind": "stale-read", "monitor": "done-context"},
					fmt.Sprintf("Set(done context, bundle %d) returned (%v), then Set(bundle %d) returned nil; a read started %d ms later yields %d (bytes ok=%v %s)", big[i], err1, small[i], poll*50, id, ok, es), nil)
				break
			}
			time.Sleep(50 * time.Millisecond)
		}
	}
	os.RemoveAll(dir)
}

// ---------------------------------------------------------------- monitor 2

func stressCrossProcess() {
	n := r.N(3, 24)
	for h := 0; h < n; h++ {
		rng := r.Rand(fmt.Sprintf("xproc-%d", h))
		dir := filepath.Join(scratch, fmt.Sprintf("xproc-%d", h))
		if altFS != "" && h%3 == 2 {
			dir = filepath.Join(altFS, fmt.Sprintf("xproc-%d", h))
			r.Event("histories-on-another-file-system")
		}
		os.MkdirAll(dir, 0o755)
		urls := []string{fmt.Sprintf("http://crl.example/x/%d/a.crl", h)}
		if h%2 == 1 {
			urls = append(urls, fmt.Sprintf("http://crl.example/x/%d/b.crl", h))
		}
		procs := 4
		if r.Thorough() && h%3 == 0 {
			procs = 8
		}
		start := hist.MonoNow() + int64(150*time.Millisecond)
		var cmds []*exec.Cmd
		var outs []string
		for p := 0; p < procs; p++ {
			sp := hist.RunSpec{Dir: dir, Proc: p + 1, URLs: urls, BundleDir: bundleDir, Readers: 3, ReadsEach: r.N(150, 250), SleepMaxUS: []int{0, 100}[h%2],
				Seed: rng.U64(), SharedCache: p%2 == 0, StartAt: start, Out: filepath.Join(scratch, fmt.Sprintf("xproc-%d-%d.hist", h, p))}
			per := r.N(35, 60)
			all := mintMany(2*per, rng)
			sp.WriterIDs = [][]int64{all[:per], all[per:]}
			specPath := filepath.Join(scratch, fmt.Sprintf("xproc-%d-%d.spec", h, p))
			b, _ := json.Marshal(sp)
			os.WriteFile(specPath, b, 0o644)
			bin := workerBin
			if p == 0 && os.Getenv("VERIF_RACE") != "" {
				if rb := filepath.Join(filepath.Dir(workerBin), "worker-race"); fileExists(rb) {
					bin = rb // one of the processes runs race-instrumented
				}
			}
			cmd := exec.Command(bin, "cache-run", specPath)
			cmd.Stderr = os.Stderr
			if err := cmd.Start(); err != nil {
				panic(err)
			}
			cmds = append(cmds, cmd)
			outs = append(outs, sp.Out)
		}
		var events []hist.Event
		for i, c := range cmds {
			if err := waitTimeout(c, 5*time.Minute); err != nil {
				r.Inconclusive(fmt.Sprintf("cross-process worker %d failed: %v", i, err))
				continue
			}
			var ev []hist.Event
			b, _ := os.ReadFile(outs[i])
			json.Unmarshal(b, &ev)
			events = append(events, ev...)
		}
		findings, st := hist.Check(events, 60*time.Second)
		report(findings, "cross-process-stress", map[string]any{"history": h, "processes": procs, "urls": urls})
		addStats("xproc", st)
		r.Eval(fmt.Sprintf("xproc-history-%d", h))
		r.Event("histories-cross-process")
		os.RemoveAll(dir)
	}
}

func fileExists(p string) bool { _, err := os.Stat(p); return err == nil }

func waitTimeout(c *exec.Cmd, d time.Duration) error {
	done := make(chan error, 1)
	go func() { done <- c.Wait() }()
	select {
	case err := <-done:
		return err
	case <-time.After(d):
		c.Process.Kill()
		return fmt.Errorf("watchdog: process did not finish within %v", d)
	}
}

// ---------------------------------------------------------------- monitor 3

type wstate struct {
	arrived chan string
	grant   chan struct{}
}

type sched struct {
	mu     sync.Mutex
	byGoid map[int64]*wstate
}

func (s *sched) hook(point, path string) {
	s.mu.Lock()
	w := s.byGoid[goid()]
	s.mu.Unlock()
	if w == nil {
		return
	}
	w.arrived <- point
	<-w.grant
}

// awaitStep waits for a writer to arrive at its next hook point (bounded: a writer that never arrives must not hang the run).
func awaitStep(ch chan string) (string, bool) {
	select {
	case p := <-ch:
		return p, true
	case <-time.After(20 * time.Second):
		return "", false
	}
}

// orders enumerates all interleavings of counts[i] steps of writer i.
func orders(counts []int) [][]int {
	total := 0
	for _, c := range counts {
		total += c
	}
	var out [][]int
	cur := make([]int, 0, total)
	left := append([]int(nil), counts...)
	var rec func()
	rec = func() {
		if len(cur) == total {
			out = append(out, append([]int(nil), cur...))
			return
		}
		for i := range left {
			if left[i] > 0 {
				left[i]--
				cur = append(cur, i)
				rec()
				cur = cur[:len(cur)-1]
				left[i]++
			}
		}
	}
	rec()
	return out
}

func procGet(dir string, urls ...string) []hist.GetResult {
	args := append([]string{"cache-get", dir, bundleDir}, urls...)
	out, err := exec.Command(workerBin, args...).Output()
	if err != nil {
		r.Inconclusive(fmt.Sprintf("reader process failed: %v", err))
		return nil
	}
	var res []hist.GetResult
	json.Unmarshal(out, &res)
	return res
}

func stepBoundaries() {
	s := &sched{byGoid: map[int64]*wstate{}}
	file.VerifHook = s.hook
	defer func() { file.VerifHook = nil }()
	hits := map[string]int{}
	type plan struct {
		urlOf    []int // writer -> url index
		order    []int
		preExist bool
	}
	var plans []plan
	for _, o := range orders([]int{4, 4}) {
		plans = append(plans, plan{[]int{0, 0}, o, true}, plan{[]int{0, 0}, o, false})
	}
	three := orders([]int{4, 4, 4})
	rng := r.Rand("three-writers")
	for k := 0; k < r.N(40, 1500); k++ {
		o := three[rng.Intn(len(three))]
		plans = append(plans, plan{[]int{0, 0, 1}, o, rng.Bool()})
		if k%4 == 0 {
			plans = append(plans, plan{[]int{0, 0, 0}, o, rng.Bool()})
		}
	}
	for pi, pl := range plans {
		dir := filepath.Join(scratch, fmt.Sprintf("steps-%d", pi))
		urls := []string{"http://crl.example/steps/a.crl", "http://crl.example/steps/b.crl"}
		persistent, _ := crl.NewFileCache(dir)
		current := []int64{0, 0}
		if pl.preExist {
			for ui := range urls {
				id := mint(900+pi%3000, pi%3 == 0)
				if err := persistent.Set(ctx, urls[ui], bundle(id)); err != nil {
					panic(err)
				}
				current[ui] = id
			}
		}
		nw := len(pl.urlOf)
		ids := make([]int64, nw)
		ws := make([]*wstate, nw)
		var wg sync.WaitGroup
		setErrs := make([]error, nw)
		for i := 0; i < nw; i++ {
			ids[i] = mint(700+(pi*7+i*131)%5000, (pi+i)%4 == 0)
			ws[i] = &wstate{arrived: make(chan string), grant: make(chan struct{})}
			b := bundle(ids[i])
			ready := make(chan struct{})
			wg.Add(1)
			go func(i int) {
				defer wg.Done()
				s.mu.Lock()
				s.byGoid[goid()] = ws[i]
				s.mu.Unlock()
				close(ready)
				c, _ := crl.NewFileCache(dir)
				setErrs[i] = c.Set(ctx, urls[pl.urlOf[i]], b)
			}(i)
			<-ready
		}
		at := make([]int, nw)
		stuck := false
		for i := range ws {
			p, ok := awaitStep(ws[i].arrived)
			if !ok {
				stuck = true
				break
			}
			hits[p]++
			if p != points[0] {
				r.Inconclusive("step exploration: first hook point was " + p)
			}
		}
		if stuck {
			// the hook points are no longer reached on the goroutine that called Set (the scheduler tells writers apart by
			// goroutine): the step schedules cannot be driven; the other monitors do not depend on this
			r.Event("step-exploration-abandoned-hooks-not-on-the-calling-goroutine")
			r.Extra["step_exploration"] = "abandoned: a writer did not reach its first hook point on the goroutine that called Set within 20 s"
			return
		}
		useProc := r.Thorough() || pi%5 == 0
		check := func(step int) {
			for ui, u := range urls {
				for ri, c := range []*crl.FileCache{persistent, nil} {
					if c == nil {
						c, _ = crl.NewFileCache(dir)
					}
					b, err := c.Get(ctx, u)
					id, ok, es := hist.Classify(bundleDir, b, err)
					r.Eval(fmt.Sprintf("steps|%d|%d|%d|%d", pi, step, ui, ri))
					r.Event("step-boundary-observations")
					if id != current[ui] || !ok {
						r.Violation(map[string]string{"kind": "step-boundary-read", "monitor": "step-boundaries", "reader": []string{"persistent-cache-value", "fresh-cache-value"}[ri]},
							fmt.Sprintf("at step boundary %d of schedule %v the visible value of URL #%d must be bundle %d (0 = miss), read %d (bytes ok=%v, err=%s)", step, pl.order, ui, current[ui], id, ok, es),
							map[string]any{"schedule": pl.order, "writers_urls": pl.urlOf, "pre_existing": pl.preExist, "step": step, "writer_positions": append([]int(nil), at...)})
					}
				}
			}
			if useProc {
				for ui, g := range procGet(dir, urls...) {
					r.Event("step-boundary-observations-by-process")
					if g.ID != current[ui] || (g.ID > 0 && !g.Bytes) {
						r.Violation(map[string]string{"kind": "step-boundary-read", "monitor": "step-boundaries", "reader": "separate-process"},
							fmt.Sprintf("at step boundary %d of schedule %v a reader process saw %d for URL #%d, expected %d (err=%s)", step, pl.order, g.ID, ui, current[ui], g.Err),
							map[string]any{"schedule": pl.order, "step": step})
					}
				}
			}
		}
		check(0)
		for step, w := range pl.order {
			ws[w].grant <- struct{}{}
			if at[w] < 3 {
				p, ok := awaitStep(ws[w].arrived)
				if !ok {
					r.Event("step-exploration-abandoned-hooks-not-on-the-calling-goroutine")
					r.Extra["step_exploration"] = "abandoned mid-schedule: a granted writer did not reach its next hook point within 20 s"
					return
				}
				hits[p]++
				at[w]++
				if points[at[w]] != p {
					r.Inconclusive(fmt.Sprintf("step exploration: expected hook point %s, got %s", points[at[w]], p))
				}
				if at[w] == 3 { // the writer has executed its rename (it is now blocked in the deferred 'returned' hook)
					current[pl.urlOf[w]] = ids[w]
				}
			} else {
				at[w]++
			}
			check(step + 1)
		}
		wg.Wait()
		for i, e := range setErrs {
			if e != nil {
				r.Violation(map[string]string{"kind": "set-error", "monitor": "step-boundaries"}, fmt.Sprintf("writer %d failed in schedule %v: %v", i, pl.order, e), nil)
			}
		}
		ents, _ := os.ReadDir(dir)
		wantEnts := 0
		for ui := range urls {
			if current[ui] != 0 {
				wantEnts++
			}
		}
		if len(ents) != wantEnts {
			// leftovers as such are not forbidden by the property (only mistaking them for entries is): observed, not judged
			r.Event("directory-entries-differ-from-stored-urls-after-writers-returned")
		}
		s.mu.Lock()
		s.byGoid = map[int64]*wstate{}
		s.mu.Unlock()
		r.Event("interleavings-executed")
		if pi < 2 {
			r.Sample("interleaving", map[string]any{"schedule": pl.order, "writers_urls": pl.urlOf, "pre_existing": pl.preExist, "final_values": current})
		}
		os.RemoveAll(dir)
	}
	r.Extra["hook_hits_step_exploration"] = hits
	for _, p := range points {
		if hits[p] == 0 {
			r.Inconclusive("step exploration never reached hook point " + p)
		}
	}
}

// cross-process step exploration: two writer PROCESSES paused on FIFOs at every hook point.
func stepBoundariesCrossProcess() {
	all := orders([]int{4, 4})
	rng := r.Rand("fifo")
	n := r.N(8, 70)
	for k := 0; k < n; k++ {
		order := all[rng.Intn(len(all))]
		if r.Thorough() {
			order = all[k%len(all)]
		}
		dir := filepath.Join(scratch, fmt.Sprintf("fifo-%d", k))
		url := "http://crl.example/fifo.crl"
		c, _ := crl.NewFileCache(dir)
		cur := int64(0)
		if k%2 == 0 {
			cur = mint(1500, false)
			c.Set(ctx, url, bundle(cur))
		}
		type wp struct {
			cmd     *exec.Cmd
			arrived *os.File
			grant   *os.File
			id      int64
			at      int
			rd      *lineReader
		}
		var ws []*wp
		ok := true
		for i := 0; i < 2; i++ {
			fd := filepath.Join(scratch, fmt.Sprintf("fifo-%d-w%d", k, i))
			os.MkdirAll(fd, 0o755)
			syscall.Mkfifo(filepath.Join(fd, "arrived"), 0o600)
			syscall.Mkfifo(filepath.Join(fd, "grant"), 0o600)
			id := mint(1000+i*3000+k*17, i == 1)
			cmd := exec.Command(workerBin, "cache-fifo", dir, url, bundleDir, fmt.Sprint(id), fd)
			cmd.Stderr = os.Stderr
			if err := cmd.Start(); err != nil {
				panic(err)
			}
			a, err1 := os.OpenFile(filepath.Join(fd, "arrived"), os.O_RDONLY, 0)
			g, err2 := os.OpenFile(filepath.Join(fd, "grant"), os.O_WRONLY, 0)
			if err1 != nil || err2 != nil {
				ok = false
				break
			}
			ws = append(ws, &wp{cmd: cmd, arrived: a, grant: g, id: id, rd: &lineReader{f: a}})
		}
		if !ok {
			r.Inconclusive("cannot open FIFOs for the cross-process step exploration")
			return
		}
		for _, w := range ws {
			if p := w.rd.line(); p != points[0] {
				r.Inconclusive("fifo writer first point: " + p)
			}
		}
		check := func(step int) {
			for _, g := range append(procGet(dir, url), inprocGet(dir, url)) {
				r.Eval(fmt.Sprintf("fifo|%d|%d", k, step))
				r.Event("step-boundary-observations-cross-process-writers")
				if g.ID != cur || (g.ID > 0 && !g.Bytes) {
					r.Violation(map[string]string{"kind": "step-boundary-read", "monitor": "step-boundaries-cross-process"},
						fmt.Sprintf("writer processes, schedule %v step %d: read %d, expected %d (err=%s)", order, step, g.ID, cur, g.Err), map[string]any{"schedule": order})
				}
			}
		}
		check(0)
		for step, w := range order {
			ws[w].grant.Write([]byte{1})
			l := ws[w].rd.line()
			if ws[w].at < 3 {
				ws[w].at++
				if l != points[ws[w].at] {
					r.Inconclusive(fmt.Sprintf("fifo writer: expected %s got %q", points[ws[w].at], l))
				}
				if ws[w].at == 3 {
					cur = ws[w].id
				}
			} else if l != "done" {
				r.Violation(map[string]string{"kind": "set-error", "monitor": "step-boundaries-cross-process"}, "writer process reported: "+l, nil)
			}
			check(step + 1)
		}
		for _, w := range ws {
			w.cmd.Wait()
			w.arrived.Close()
			w.grant.Close()
		}
		r.Event("interleavings-executed-cross-process")
		os.RemoveAll(dir)
	}
}

type lineReader struct {
	f   *os.File
	buf []byte
}

func (l *lineReader) line() string {
	for {
		if i := bytes.IndexByte(l.buf, '\n'); i >= 0 {
			s := string(l.buf[:i])
			l.buf = l.buf[i+1:]
			return s
		}
		tmp := make([]byte, 256)
		n, err := l.f.Read(tmp)
		if n > 0 {
			l.buf = append(l.buf, tmp[:n]...)
		}
		if err != nil {
			return "EOF"
		}
	}
}

func inprocGet(dir, url string) hist.GetResult {
	c, _ := crl.NewFileCache(dir)
	b, err := c.Get(ctx, url)
	var g hist.GetResult
	g.URL = url
	g.ID, g.Bytes, g.Err = hist.Classify(bundleDir, b, err)
	return g
}

// ---------------------------------------------------------------- monitor 4

// afterKill checks the post-crash state from a FRESH process.
func afterKill(dir, url string, oldID, newID int64, newAllowed bool, otherURL string, otherID int64, where string, wit map[string]any) {
	ents, _ := os.ReadDir(dir)
	universe := []string{url, otherURL, "http://crl.example/never-stored"}
	valid := map[string]bool{cacheName(url): true, cacheName(otherURL): true}
	var leftovers []string
	for _, e := range ents {
		if valid[e.Name()] {
			continue
		}
		leftovers = append(leftovers, e.Name())
		// a cache that derived file names from URL text could serve a leftover: ask for it by every spelling
		universe = append(universe, e.Name(), filepath.Join(dir, e.Name()), "./"+e.Name())
		if !strings.HasPrefix(e.Name(), "notation-") {
			r.Event("leftover-with-unfamiliar-name-after-kill") // still probed below under every spelling; the name itself is not judged
		}
	}
	for _, u := range universe {
		if valid[u] {
			r.Violation(map[string]string{"kind": "temp-name-collides-with-entry", "monitor": where}, "a leftover temporary file has the name of a cache entry", wit)
		}
	}
	r.EventN("leftover-temp-files-after-kill", int64(len(leftovers)))
	res := procGet(dir, universe...)
	if res == nil {
		return
	}
	wit["leftovers"] = leftovers
	wit["reads_after_kill"] = res
	g := res[0]
	r.Event("crash-points")
	okVal := g.ID == oldID || (g.ID == newID && newAllowed)
	if !okVal || (g.ID > 0 && !g.Bytes) {
		r.Violation(map[string]string{"kind": "read-after-kill", "monitor": where},
			fmt.Sprintf("after the writer was killed, Get yields %d (bytes ok=%v err=%q); admitted: old=%d%s", g.ID, g.Bytes, g.Err, oldID, map[bool]string{true: fmt.Sprintf(" or new=%d", newID), false: ""}[newAllowed]), wit)
	}
	if reported, ok := wit["set_reported_error"].(bool); ok && !reported && g.ID != newID {
		// (fault monitors) the writer ran to its end and Set returned nil: this read started after that write returned
		r.Violation(map[string]string{"kind": "completed-set-not-visible", "monitor": where},
			fmt.Sprintf("Set(%d) reported success, a read started afterwards yields %d", newID, g.ID), wit)
	}
	if g.ID == newID {
		r.Event("crash-points-new-visible")
	} else {
		r.Event("crash-points-old-visible")
	}
	if o := res[1]; o.ID != otherID || (o.ID > 0 && !o.Bytes) {
		r.Violation(map[string]string{"kind": "other-url-affected-by-kill", "monitor": where}, fmt.Sprintf("another URL's entry changed from %d to %d", otherID, o.ID), wit)
	}
	for _, o := range res[2:] {
		if o.ID != 0 {
			r.Violation(map[string]string{"kind": "leftover-served-as-entry", "monitor": where}, fmt.Sprintf("Get(%.60q) returned %d (err=%q): a never-stored key / leftover temporary file was served", o.URL, o.ID, o.Err), wit)
		}
	}
	// the cache must keep working
	again := mint(800, false)
	if out, err := exec.Command(workerBin, "cache-set", dir, url, bundleDir, fmt.Sprint(again)).CombinedOutput(); err != nil {
		r.Violation(map[string]string{"kind": "set-after-kill-failed", "monitor": where}, fmt.Sprintf("Set after the crash failed: %v %s", err, out), wit)
	} else if g2 := procGet(dir, url); g2 != nil && g2[0].ID != again {
		r.Violation(map[string]string{"kind": "read-after-recovery", "monitor": where}, fmt.Sprintf("after a new Set(%d) the read yields %d", again, g2[0].ID), wit)
	}
}

func prepCrashDir(tag string, overwrite bool, pad int) (dir, url, other string, oldID, otherID int64) {
	dir = filepath.Join(scratch, "crash-"+tag)
	if altFS != "" && strings.HasSuffix(tag, "-alt") {
		dir = filepath.Join(altFS, "crash-"+tag)
	}
	url, other = "http://crl.example/crash/target.crl", "http://crl.example/crash/other.crl"
	c, _ := crl.NewFileCache(dir)
	otherID = mint(1200, true)
	c.Set(ctx, other, bundle(otherID))
	if overwrite {
		oldID = mint(pad/2+500, false)
		c.Set(ctx, url, bundle(oldID))
	}
	return
}

func crashByHook() {
	for pi, p := range points {
		for _, overwrite := range []bool{false, true} {
			for _, pad := range []int{900, 300 * 1024} {
				if r.Quick() && pad > 1000 && pi%2 == 1 {
					continue
				}
				tag := fmt.Sprintf("hook-%s-%v-%d", p, overwrite, pad)
				dir, url, other, oldID, otherID := prepCrashDir(tag, overwrite, pad)
				newID := mint(pad, pi%2 == 0)
				cmd := exec.Command(workerBin, "cache-set", dir, url, bundleDir, fmt.Sprint(newID))
				cmd.Env = append(os.Environ(), "VERIF_KILL_POINT="+p)
				err := cmd.Run()
				ws, _ := cmd.ProcessState.Sys().(syscall.WaitStatus)
				if err == nil || !ws.Signaled() {
					r.Inconclusive(fmt.Sprintf("hook crash point %s: the writer was not killed (err=%v)", p, err))
					continue
				}
				r.Eval("crash|" + tag)
				r.Event("crash-points-by-hook")
				afterKill(dir, url, oldID, newID, p == "returned", other, otherID, "crash-by-hook", map[string]any{"kill_point": p, "overwrite": overwrite, "bundle_bytes": pad})
				os.RemoveAll(dir)
			}
		}
	}
}

// crashThenWriterWithTheSamePid: writers that are each pid 1 of their own pid namespace (containers sharing a cache
// volume) - the first, storing a LARGE bundle, is killed at a hook point; the second, with the same pid, then stores a
// SMALL bundle (for another URL, or the same) to completion. Whatever the first left behind, the second's entry is
// complete and the first's leftover is nobody's entry.
func crashThenWriterWithTheSamePid() {
	probe := exec.Command(workerBin, "nothing")
	probe.SysProcAttr = &syscall.SysProcAttr{Cloneflags: syscall.CLONE_NEWPID}
	if out, _ := probe.CombinedOutput(); !strings.Contains(string(out), "unknown command") {
		r.Event("pid-namespaces-unavailable")
		return
	}
	for _, p := range points[:3] {
		for _, sameURL := range []bool{false, true} {
			tag := fmt.Sprintf("samepid-%s-%v", p, sameURL)
			dir, url, other, oldID, otherID := prepCrashDir(tag, true, 2000)
			bigID := mint(300*1024, true)
			mark := filepath.Join(scratch, "mark-"+tag)
			os.Remove(mark)
			a := exec.Command(workerBin, "cache-set", dir, url, bundleDir, fmt.Sprint(bigID))
			a.SysProcAttr = &syscall.SysProcAttr{Cloneflags: syscall.CLONE_NEWPID}
			a.Env = append(os.Environ(), "VERIF_PAUSE_POINT="+p, "VERIF_PAUSE_MARK="+mark)
			if err := a.Start(); err != nil {
				r.Inconclusive("same-pid writers: cannot start the first writer: " + err.Error())
				return
			}
			paused := false
			for i := 0; i < 400 && !paused; i++ {
				time.Sleep(50 * time.Millisecond)
				paused = fileExists(mark)
			}
			a.Process.Kill()
			a.Wait()
			if !paused {
				r.Event("same-pid-writers-first-writer-never-reached-the-point")
				os.RemoveAll(dir)
				continue
			}
			target, targetOld := other, otherID
			if sameURL {
				target, targetOld = url, oldID
			}
			_ = targetOld
			smallID := mint(700, false)
			b := exec.Command(workerBin, "cache-set", dir, target, bundleDir, fmt.Sprint(smallID))
			b.SysProcAttr = &syscall.SysProcAttr{Cloneflags: syscall.CLONE_NEWPID}
			out, err := b.CombinedOutput()
			r.Eval("crash|" + tag)
			r.Event("kills-followed-by-a-writer-with-the-same-pid")
			wit := map[string]any{"kill_point": p, "same_url": sameURL, "first_writer_bundle": bigID, "second_writer_bundle": smallID}
			if ents, err := os.ReadDir(dir); err == nil {
				var names []string
				for _, e := range ents {
					names = append(names, e.Name())
				}
				wit["directory_after"] = names
			}
			if err != nil {
				r.Violation(map[string]string{"kind": "set-after-kill-failed", "monitor": "same-pid-writers"}, fmt.Sprintf("the second writer (same pid as the killed one) failed: %v %s", err, out), wit)
				os.RemoveAll(dir)
				continue
			}
			res := procGet(dir, target, url, other)
			if res == nil {
				os.RemoveAll(dir)
				continue
			}
			wit["reads"] = res
			if g := res[0]; g.ID != smallID || !g.Bytes {
				r.Violation(map[string]string{"kind": "read-after-recovery", "monitor": "same-pid-writers"},
					fmt.Sprintf("a writer with the pid of a killed writer stored bundle %d (Set returned nil); a read started afterwards yields %d (bytes ok=%v err=%q)", smallID, g.ID, g.Bytes, g.Err), wit)
			}
			if !sameURL {
				if g := res[1]; g.ID != oldID || !g.Bytes {
					r.Violation(map[string]string{"kind": "read-after-kill", "monitor": "same-pid-writers"}, fmt.Sprintf("the killed writer's URL yields %d (err=%q), its previous entry is %d", g.ID, g.Err, oldID), wit)
				}
			}
			os.RemoveAll(dir)
		}
	}
}

func crashByStrace() {
	if _, err := exec.LookPath("strace"); err != nil {
		r.Inconclusive("strace not available")
		return
	}
	// strace keeps one `when` counter per syscall of the set, so each syscall is enumerated on its own:
	// the n-th openat, the n-th write, ... of the writer process, n = 1, 2, ... until the writer survives.
	syscalls := []string{"openat", "open", "creat", "write", "pwrite64", "writev", "close", "rename", "renameat", "renameat2", "unlink", "unlinkat",
		"link", "linkat", "fsync", "fdatasync", "ftruncate", "fchmod", "chmod", "fchmodat", "mkdir", "mkdirat", "symlinkat", "fcntl", "lseek", "read", "newfstatat", "fstat"}
	used := map[string]int{}
	for _, overwrite := range []bool{true, false} {
		for _, sc := range syscalls {
			for n := 1; n <= 40; n++ {
				tag := fmt.Sprintf("strace-%v-%s-%d", overwrite, sc, n)
				dir, url, other, oldID, otherID := prepCrashDir(tag, overwrite, 4000)
				newID := mint(3000+n*13, n%3 == 0)
				cmd := exec.Command("strace", "-f", "-qq", "-o", "/dev/null", "-e", "trace="+sc, "-e", fmt.Sprintf("inject=%s:signal=SIGKILL:when=%d", sc, n),
					workerBin, "cache-set", dir, url, bundleDir, fmt.Sprint(newID))
				cmd.Env = append(os.Environ(), "GOMAXPROCS=1")
				out, err := cmd.CombinedOutput()
				if err == nil {
					os.RemoveAll(dir)
					break // the writer survived: it issues fewer than n calls of this syscall
				}
				if strings.Contains(string(out), "set failed") || strings.Contains(string(out), "worker:") {
					r.Inconclusive(fmt.Sprintf("strace run %s#%d: worker failed on its own: %s", sc, n, out))
				}
				used[sc]++
				r.Eval("crash|" + tag)
				r.Event("crash-points-by-strace")
				afterKill(dir, url, oldID, newID, true, other, otherID, "crash-by-strace", map[string]any{"killed_at": fmt.Sprintf("%s #%d", sc, n), "overwrite": overwrite})
				os.RemoveAll(dir)
			}
		}
	}
	r.Extra["strace_kill_points_per_syscall"] = used
}

// faultsByStrace injects an ERROR (not a kill) into the n-th call of each file-system syscall of the writer: a failing
// step must never leave a truncated / undecodable entry behind, whatever Set reports.
func faultsByStrace() {
	if _, err := exec.LookPath("strace"); err != nil {
		return
	}
	syscalls := []string{"write", "close", "renameat", "rename", "renameat2", "openat", "fchmod", "fsync", "unlinkat"}
	errnos := []string{"ENOSPC"}
	maxN := 6
	if r.Thorough() {
		errnos, maxN = []string{"ENOSPC", "EIO", "EDQUOT", "EINTR"}, 12
	}
	for _, overwrite := range []bool{true, false} {
		for _, sc := range syscalls {
			for _, en := range errnos {
				for n := 1; n <= maxN; n++ {
					tag := fmt.Sprintf("fault-%v-%s-%s-%d", overwrite, sc, en, n)
					dir, url, other, oldID, otherID := prepCrashDir(tag, overwrite, 4000)
					newID := mint(2500+n*11, n%2 == 0)
					cmd := exec.Command("strace", "-f", "-qq", "-o", "/dev/null", "-e", "trace="+sc, "-e", fmt.Sprintf("inject=%s:error=%s:when=%d", sc, en, n),
						workerBin, "cache-set", dir, url, bundleDir, fmt.Sprint(newID))
					cmd.Env = append(os.Environ(), "GOMAXPROCS=1")
					out, err := cmd.CombinedOutput()
					setFailed := err != nil
					if setFailed && !strings.Contains(string(out), "set failed") {
						// the fault hit the worker outside Set (loading the bundle, runtime start-up): says nothing
						r.Event("faults-outside-set")
						os.RemoveAll(dir)
						continue
					}
					r.Eval("fault|" + tag)
					r.Event("fault-points-by-strace")
					if setFailed {
						r.Event("fault-points-set-reported-error")
					}
					afterKill(dir, url, oldID, newID, true, other, otherID, "fault-by-strace", map[string]any{"fault": fmt.Sprintf("%s #%d -> %s", sc, n, en), "overwrite": overwrite, "set_reported_error": setFailed})
					os.RemoveAll(dir)
				}
			}
		}
	}
}

// faultsByFileSizeLimit makes write(2) fail with EFBIG after a PARTIAL write (RLIMIT_FSIZE in the writer process).
func faultsByFileSizeLimit() {
	for _, overwrite := range []bool{true, false} {
		for _, lim := range []int{1, 100, 4096, 65536} {
			for _, pad := range []int{3000, 120000} {
				tag := fmt.Sprintf("fsize-%v-%d-%d", overwrite, lim, pad)
				dir, url, other, oldID, otherID := prepCrashDir(tag, overwrite, 1500)
				newID := mint(pad, false)
				cmd := exec.Command(workerBin, "cache-set", dir, url, bundleDir, fmt.Sprint(newID))
				cmd.Env = append(os.Environ(), fmt.Sprintf("VERIF_FSIZE_LIMIT=%d", lim))
				out, err := cmd.CombinedOutput()
				if err != nil && !strings.Contains(string(out), "set failed") {
					r.Inconclusive(fmt.Sprintf("file-size-limit run %s: worker failed on its own: %s", tag, out))
					continue
				}
				r.Eval("fault|" + tag)
				r.Event("fault-points-by-file-size-limit")
				if err != nil {
					r.Event("fault-points-set-reported-error")
				}
				afterKill(dir, url, oldID, newID, err == nil, other, otherID, "fault-by-file-size-limit", map[string]any{"limit_bytes": lim, "bundle_bytes": pad, "set_reported_error": err != nil})
				os.RemoveAll(dir)
			}
		}
	}
	// the same fault for the first store after the cache directory was cleaned away under a live cache value: whatever
	// Set makes of the missing directory, a later read finds a miss or the complete new bundle
	for _, lim := range []int{1, 200, 4096} {
		for _, pad := range []int{3000, 120000} {
			tag := fmt.Sprintf("fsize-dir-cleaned-%d-%d", lim, pad)
			dir, url, other, _, _ := prepCrashDir(tag, true, 1500)
			newID := mint(pad, false)
			cmd := exec.Command(workerBin, "cache-set", dir, url, bundleDir, fmt.Sprint(newID))
			cmd.Env = append(os.Environ(), fmt.Sprintf("VERIF_FSIZE_LIMIT=%d", lim), "VERIF_REMOVE_DIR=1")
			out, err := cmd.CombinedOutput()
			if err != nil && !strings.Contains(string(out), "set failed") {
				r.Inconclusive(fmt.Sprintf("file-size-limit run %s: worker failed on its own: %s", tag, out))
				continue
			}
			r.Eval("fault|" + tag)
			r.Event("fault-points-after-the-directory-was-cleaned")
			afterKill(dir, url, 0, newID, err == nil, other, 0, "fault-by-file-size-limit-after-directory-cleaned", map[string]any{"limit_bytes": lim, "bundle_bytes": pad, "set_reported_error": err != nil, "directory_removed_before_set": true})
			os.RemoveAll(dir)
		}
	}
}

func crashByTimer() {
	pad := r.N(4, 18) * 1024 * 1024
	bigNew := mint(pad, false)
	// calibration: how long does an unkilled Set of this bundle take?
	dir, url, _, _, _ := prepCrashDir("timer-cal", true, 2000)
	ready := filepath.Join(scratch, "ready-cal")
	t0 := time.Now()
	cmd := exec.Command(workerBin, "cache-set", dir, url, bundleDir, fmt.Sprint(bigNew))
	cmd.Env = append(os.Environ(), "VERIF_READY_FILE="+ready)
	if err := cmd.Run(); err != nil {
		r.Inconclusive("timer calibration run failed: " + err.Error())
		return
	}
	st, _ := os.Stat(ready)
	window := time.Since(t0)
	if st != nil {
		window = time.Since(st.ModTime())
	}
	os.RemoveAll(dir)
	rng := r.Rand("timer")
	n := r.N(16, 200)
	killedDuring := 0
	for k := 0; k < n || (killedDuring < n/4 && k < 6*n); k++ { // (more kills are tried if too few landed while the writer ran)
		tag := fmt.Sprintf("timer-%d", k)
		if k%2 == 1 {
			tag += "-alt" // cache root on another file system than the default temporary directory, if there is one
		}
		dir, url, other, oldID, otherID := prepCrashDir(tag, k%4 != 0, 2000)
		ready := filepath.Join(scratch, "ready-"+tag)
		cmd := exec.Command(workerBin, "cache-set", dir, url, bundleDir, fmt.Sprint(bigNew))
		cmd.Env = append(os.Environ(), "VERIF_READY_FILE="+ready)
		if err := cmd.Start(); err != nil {
			panic(err)
		}
		for i := 0; i < 20000 && !fileExists(ready); i++ {
			time.Sleep(100 * time.Microsecond)
		}
		delay := time.Duration(rng.Intn(int(window.Microseconds())+1)) * time.Microsecond
		time.Sleep(delay)
		cmd.Process.Kill()
		err := cmd.Wait()
		if err != nil {
			killedDuring++
		}
		r.Eval("crash|" + tag)
		r.Event("crash-points-by-timer")
		afterKill(dir, url, oldID, bigNew, true, other, otherID, "crash-by-timer", map[string]any{"delay_us": delay.Microseconds(), "window_us": window.Microseconds(), "bundle_bytes": pad, "killed_before_exit": err != nil})
		os.RemoveAll(dir)
		os.Remove(ready)
	}
	r.EventN("timer-kills-landed-before-exit", int64(killedDuring))
	if killedDuring < n/4 {
		r.Event("timer-kills-mostly-missed-the-writer") // the crash points by hook and by strace do not depend on timing
	}
}

// ---------------------------------------------------------------- hook probe, race reports

func probeHooks() map[string]int {
	hits := map[string]int{}
	var mu sync.Mutex
	file.VerifHook = func(point, path string) {
		mu.Lock()
		hits[point]++
		mu.Unlock()
	}
	dir := filepath.Join(scratch, "probe")
	c, _ := crl.NewFileCache(dir)
	if err := c.Set(ctx, "http://crl.example/probe", bundle(mint(800, true))); err != nil {
		r.Violation(map[string]string{"kind": "set-error", "monitor": "probe"}, "plain Set failed: "+err.Error(), nil)
	}
	file.VerifHook = nil
	os.RemoveAll(dir)
	return hits
}

func raceReports() {
	logs, _ := filepath.Glob(filepath.Join(os.Getenv("VERIF_BIN"), "race-C14.log*"))
	total := 0
	var first string
	for _, l := range logs {
		b, _ := os.ReadFile(l)
		n := strings.Count(string(b), "WARNING: DATA RACE")
		total += n
		if n > 0 && first == "" {
			first = string(b)
			if len(first) > 6000 {
				first = first[:6000]
			}
		}
	}
	r.Extra["race_reports"] = total
	r.Extra["race_detector"] = os.Getenv("VERIF_RACE") != ""
	if total > 0 {
		r.Violation(map[string]string{"kind": "data-race"}, fmt.Sprintf("the race detector reported %d data races", total), first)
	}
}

func main() {
	r = lib.Start("C14", "exploration")
	r.Rule = "executions: free-running histories (in-process under -race, and cross-process), every interleaving of the 4 step boundaries of 2 writers (x fresh/pre-existing entry) and sampled ones of 3 writers over 1-2 URLs with a read from 2-3 observers at every boundary, crash points by hook x boundary, by strace at the n-th file-system syscall (n enumerated until the writer survives), by timer inside multi-MiB writes; distinct by (history id) / (schedule, step, observer) / (crash point); all are non-trivial"
	r.Rule += "; plus large base+delta entries across processes, stores under a done context, the same bundle stored again (A,B,A over one and two cache values), URLs differing in query / user info / escape digits, faults after the cache directory was cleaned away"
	r.Assumptions = []string{"POSIX rename atomicity of the sandbox file system", "'crash' = process kill, not power loss (as the property says)",
		"stored bundles never expire during the run (next-update +20 years), so a read after a completed write must not miss",
		"the statement's 'at every instant ... yields' gives each URL one current value per instant, i.e. an atomic register (porcupine model); freshness is also checked separately as stated"}
	scratch = lib.TempDir("c14")
	r.OnExit(func() { os.RemoveAll(scratch) })
	// some histories and crash points put the cache root on a file system other than the one of the default temporary
	// directory (tmpfs /dev/shm vs /tmp): entries must be complete-or-absent wherever the root lives
	if d, err := os.MkdirTemp("/dev/shm", "verif-c14-"); err == nil {
		var a, b syscall.Stat_t
		var fsst syscall.Statfs_t
		roomy := syscall.Statfs(d, &fsst) == nil && uint64(fsst.Bavail)*uint64(fsst.Bsize) >= 1<<30 // (a small tmpfs would only add ENOSPC noise)
		if roomy && syscall.Stat(d, &a) == nil && syscall.Stat(os.TempDir(), &b) == nil && a.Dev != b.Dev {
			altFS = d
			r.OnExit(func() { os.RemoveAll(d) })
		} else {
			os.RemoveAll(d)
		}
	}
	r.Extra["other_file_system_root"] = altFS
	bundleDir = filepath.Join(scratch, "bundles")
	os.MkdirAll(bundleDir, 0o755)
	workerBin = filepath.Join(os.Getenv("VERIF_BIN"), "worker")
	if !fileExists(workerBin) {
		r.Inconclusive("worker binary missing: " + workerBin)
		r.Finish()
	}
	hits := probeHooks()
	r.Extra["hook_hits_probe"] = hits
	nHit := 0
	for _, p := range points {
		if hits[p] > 0 {
			nHit++
		}
	}
	hooked := nHit == len(points)
	switch {
	case hooked:
	case nHit == 0:
		r.Extra["hook_coverage"] = "no hook point was reached by a Set (WriteFile no longer calls the verif hooks): the step-boundary and hook-crash monitors are skipped, the verdict rests on the stress, strace and timer monitors, which do not depend on hooks"
	default:
		r.Inconclusive(fmt.Sprintf("only %d of 4 hook points are reached by a Set: %v", nHit, hits))
	}
	phases := map[string]float64{}
	timed := func(name string, f func()) {
		t0 := time.Now()
		f()
		phases[name] = time.Since(t0).Seconds()
	}
	timed("stress-in-process", stressInProcess)
	timed("stress-cross-process", stressCrossProcess)
	if hooked {
		timed("step-boundaries", stepBoundaries)
		timed("step-boundaries-cross-process", stepBoundariesCrossProcess)
		timed("crash-by-hook", crashByHook)
		timed("crash-then-writer-with-the-same-pid", crashThenWriterWithTheSamePid)
	}
	timed("hammer", hammer)
	timed("large-entries", largeEntries)
	timed("stores-under-a-done-context", storesUnderDoneContext)
	timed("same-bundle-again", sameBundleAgain)
	timed("crash-by-strace", crashByStrace)
	timed("faults-by-strace", faultsByStrace)
	timed("faults-by-file-size-limit", faultsByFileSizeLimit)
	timed("crash-by-timer", crashByTimer)
	raceReports()
	r.Extra["phase_seconds"] = phases
	fmt.Printf("C14 phases (s): %v\n", phases)
	r.RequireAtLeast("inproc-hits", 1000)
	r.RequireAtLeast("xproc-hits", 500)
	r.RequireAtLeast("freshness-obligations", 1000)
	r.RequireAtLeast("crash-points-by-strace", 10)
	r.RequireAtLeast("crash-points-by-timer", 10)
	r.RequireAtLeast("fault-points-by-strace", 10)
	r.RequireAtLeast("fault-points-by-file-size-limit", 8)
	r.RequireAtLeast("fault-points-set-reported-error", 8)
	r.RequireAtLeast("hammer-hits", 5000)
	r.RequireAtLeast("large-hits", 3)
	if hooked {
		r.RequireAtLeast("interleavings-executed", 140)
		r.RequireAtLeast("crash-points-by-hook", 8)
	}
	keys := make([]string, 0)
	for k := range hits {
		keys = append(keys, k)
	}
	sort.Strings(keys)
	r.Finish()
}
