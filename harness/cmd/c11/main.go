// C11 — signing an OCI artifact signs exactly what was resolved and changes nothing else.
//
// notation.SignOCI is run in sequences of 1-3 calls against (a) an in-memory
// repository that hands out the SAME descriptor object on every Resolve and
// records what is pushed, and (b) a real on-disk OCI layout that is re-read
// after every call. An instrumented signer records the descriptor it is asked
// to sign. Deep snapshots taken before each call are compared afterwards
// (descriptor objects, caller maps, repository resolution, index.json).
package main

import (
	"bytes"
	"context"
	"crypto/sha256"
	"encoding/hex"
	"encoding/json"
	"fmt"
	"os"
	"path/filepath"
	"reflect"
	"sort"
	"strings"
	"sync"
	"sync/atomic"
	"time"

	"github.com/notaryproject/notation-core-go/signature"
	"github.com/notaryproject/notation-go"
	"github.com/notaryproject/notation-go/registry"
	"github.com/notaryproject/notation-go/signer"
	"github.com/notaryproject/notation-go/verifharness/lib"
	"github.com/opencontainers/go-digest"
	ocispec "github.com/opencontainers/image-spec/specs-go/v1"
	"oras.land/oras-go/v2"
	"oras.land/oras-go/v2/content/oci"
)

type recSigner struct {
	zeroTime bool // the SignerInfo this signer returns states no signing time (a custom signer that does not fill it in)
	inner    notation.Signer
	got      []ocispec.Descriptor
	opts     []notation.SignerSignOptions
	plugin   map[string]string // PluginAnnotations result (nil: interface not offered)
}

func (s *recSigner) Sign(ctx context.Context, desc ocispec.Descriptor, opts notation.SignerSignOptions) ([]byte, *signature.SignerInfo, error) {
	s.got = append(s.got, deepDesc(desc))
	s.opts = append(s.opts, opts)
	sig, si, err := s.inner.Sign(ctx, desc, opts)
	if s.zeroTime && si != nil {
		c := *si
		c.SignedAttributes.SigningTime = time.Time{}
		si = &c
	}
	return sig, si, err
}

type recSignerWithAnnotations struct{ *recSigner }

func (s recSignerWithAnnotations) PluginAnnotations() map[string]string { return copyMap(s.plugin) }

func deepDesc(d ocispec.Descriptor) ocispec.Descriptor {
	b, _ := json.Marshal(d)
	var out ocispec.Descriptor
	json.Unmarshal(b, &out)
	return out
}
func copyMap(m map[string]string) map[string]string {
	if m == nil {
		return nil
	}
	out := map[string]string{}
	for k, v := range m {
		out[k] = v
	}
	return out
}

type pushRec struct {
	MediaType   string
	Blob        []byte
	Subject     ocispec.Descriptor
	Annotations map[string]string
}

// memRepo hands out the same descriptor object (same annotations map) on every Resolve.
type memRepo struct {
	desc     ocispec.Descriptor
	pushes   []pushRec
	resolves []string
}

func (m *memRepo) Resolve(ctx context.Context, ref string) (ocispec.Descriptor, error) {
	m.resolves = append(m.resolves, ref)
	return m.desc, nil // shares the annotations map with every caller, as a caching client would
}
func (m *memRepo) ListSignatures(ctx context.Context, d ocispec.Descriptor, fn func([]ocispec.Descriptor) error) error {
	return nil
}
func (m *memRepo) FetchSignatureBlob(ctx context.Context, d ocispec.Descriptor) ([]byte, ocispec.Descriptor, error) {
	return nil, ocispec.Descriptor{}, fmt.Errorf("not used")
}
func (m *memRepo) PushSignature(ctx context.Context, mt string, blob []byte, subject ocispec.Descriptor, ann map[string]string) (ocispec.Descriptor, ocispec.Descriptor, error) {
	m.pushes = append(m.pushes, pushRec{mt, append([]byte(nil), blob...), deepDesc(subject), copyMap(ann)})
	return ocispec.Descriptor{MediaType: mt, Digest: digest.FromBytes(blob), Size: int64(len(blob))},
		ocispec.Descriptor{MediaType: ocispec.MediaTypeImageManifest, Digest: digest.FromString(fmt.Sprint("manifest", len(m.pushes))), Size: 100}, nil
}

type optsT struct {
	Ref      string // tag | digest | full-tag | full-digest | mismatch | full-mismatch
	Metadata map[string]string
	MetaKind string // none | disjoint | colliding | reserved | mixed-colliding | mixed-reserved
	Format   string
	PluginCf map[string]string
}

func main() {
	// the process lives in a zone that is not UTC, as most users' do: the signing time in the annotation must still be
	// the instant the envelope states
	time.Local = time.FixedZone("UTC+9", 9*3600)
	r := lib.Start("C11", "exploration")
	r.Rule = "PRNG sequences of 1-3 SignOCI calls (identical or alternating options) x resolved descriptors with 0-4 pre-existing annotations x user metadata {none, disjoint, colliding, reserved-prefixed, mixed} x reference {tag, digest, full with tag, full with digest, mismatching digest} x JWS/COSE x signer with/without plugin annotations, against an in-memory repository that hands out the same descriptor object and against a real on-disk OCI layout; distinct by (sequence, call); non-trivial = calls with user metadata or pre-existing annotations, and every 2nd/3rd call"
	r.Assumptions = []string{"the map returned by a signer's own PluginAnnotations() is written to by annotation generation; it is neither a repository object nor a caller option map: observed, not judged"}
	ctx := context.Background()
	chain := lib.SimpleChain("c11", 1, "EC-256", 0)
	gs, err := signer.NewGenericSigner(chain.Key, chain.Chain())
	if err != nil {
		panic(err)
	}
	var wantThumbs []string
	for _, c := range chain.Chain() {
		s := sha256.Sum256(c.Raw)
		wantThumbs = append(wantThumbs, hex.EncodeToString(s[:]))
	}
	thumbJSON, _ := json.Marshal(wantThumbs)

	n := r.N(3000, 150000)
	lib.Parallel(n, 16, func(seq int) {
		rng := r.Rand(fmt.Sprintf("seq-%d", seq))
		onDisk := seq%2 == 1
		// ---- artifact
		content := []byte(fmt.Sprintf("artifact %d", seq))
		preAnn := map[string]string{}
		for k := 0; k < rng.Intn(5); k++ {
			preAnn[[]string{"org.example.a", "org.example.b", "team", "build", "io.example/x"}[k]] = fmt.Sprint("pre", k)
		}
		if rng.Intn(4) == 0 {
			preAnn["org.example.reviewed"] = "" // an annotation with an empty value is still an annotation of the artifact
		}
		if !onDisk && rng.Intn(3) == 0 {
			// well-known annotation keys are annotations like any other: what the repository resolved is what gets signed
			preAnn[ocispec.AnnotationRefName] = "v1"
			if rng.Bool() {
				preAnn[ocispec.AnnotationTitle] = "thing.tar"
			}
			r.Event("resolved-descriptors-with-well-known-annotation-keys")
		}
		if len(preAnn) == 0 && rng.Bool() {
			preAnn = nil
		}
		var repo registry.Repository
		var mem *memRepo
		var layout string
		var artifact ocispec.Descriptor
		tag := "v1"
		if seq%3 == 1 {
			tag = "Release-V1" // tags are case-sensitive; the layout also holds ANOTHER artifact tagged release-v1
		}
		if onDisk {
			layout = lib.TempDir("c11")
			defer os.RemoveAll(layout)
			store, err := oci.New(layout)
			if err != nil {
				panic(err)
			}
			cfg, _ := oras.PushBytes(ctx, store, ocispec.MediaTypeImageConfig, []byte("{}"))
			layer, _ := oras.PushBytes(ctx, store, "application/octet-stream", content)
			m := ocispec.Manifest{MediaType: ocispec.MediaTypeImageManifest, Config: cfg, Layers: []ocispec.Descriptor{layer}}
			m.SchemaVersion = 2
			mb, _ := json.Marshal(m)
			artifact = ocispec.Descriptor{MediaType: ocispec.MediaTypeImageManifest, Digest: digest.FromBytes(mb), Size: int64(len(mb)), Annotations: copyMap(preAnn)}
			if err := store.Push(ctx, artifact, bytes.NewReader(mb)); err != nil {
				panic(err)
			}
			if err := store.Tag(ctx, artifact, tag); err != nil {
				panic(err)
			}
			if tag != strings.ToLower(tag) {
				dm := ocispec.Manifest{MediaType: ocispec.MediaTypeImageManifest, Config: cfg, Layers: []ocispec.Descriptor{layer}, Annotations: map[string]string{"decoy": "the artifact tagged in lower case"}}
				dm.SchemaVersion = 2
				db, _ := json.Marshal(dm)
				decoy := ocispec.Descriptor{MediaType: ocispec.MediaTypeImageManifest, Digest: digest.FromBytes(db), Size: int64(len(db))}
				store.Push(ctx, decoy, bytes.NewReader(db))
				store.Tag(ctx, decoy, strings.ToLower(tag))
				r.Event("layouts-with-a-decoy-under-the-lower-cased-tag")
			}
			layoutPath := layout
			if seq%4 == 3 {
				// the layout is addressed through a symbolic link (<store>/current -> build-1234): still the same on-disk layout
				layoutPath = layout + "-current"
				if err := os.Symlink(filepath.Base(layout), layoutPath); err != nil {
					panic(err)
				}
				defer os.Remove(layoutPath)
				r.Event("layouts-addressed-through-a-symbolic-link")
			}
			repo, err = registry.NewOCIRepository(layoutPath, registry.RepositoryOptions{})
			if err != nil {
				r.Violation(map[string]string{"kind": "legit-call-failed", "on_disk": "true", "step": "NewOCIRepository"}, fmt.Sprintf("the on-disk layout %s (a directory holding a well-formed layout; addressed through a symbolic link: %v) cannot be opened for signing: %v", layoutPath, layoutPath != layout, err), nil)
				return
			}
		} else {
			artifact = ocispec.Descriptor{MediaType: ocispec.MediaTypeImageManifest, Digest: digest.FromBytes(content), Size: int64(len(content)), Annotations: copyMap(preAnn)}
			if seq%4 == 2 { // a resolved descriptor may use every field of the type (an index entry has a platform, OCI 1.1 adds artifactType, ...)
				artifact.Platform = &ocispec.Platform{Architecture: "arm64", OS: "linux", Variant: "v8"}
				artifact.ArtifactType = "application/vnd.example.thing"
				artifact.URLs = []string{"https://mirror.example/blob"}
				artifact.Data = []byte("inline")
				r.Event("resolved-descriptors-with-every-field")
			}
			mem = &memRepo{desc: artifact}
			repo = mem
		}
		// what the repository resolves a tag and a digest reference to (they may carry different annotations)
		snaps := map[string]ocispec.Descriptor{}
		for _, rf := range []string{tag, artifact.Digest.String()} {
			d, err := repo.Resolve(ctx, rf)
			if err != nil {
				panic(err)
			}
			snaps[rf] = deepDesc(d)
		}
		if mem != nil {
			mem.resolves = nil
		}
		keysOf := func(d ocispec.Descriptor) []string {
			ks := []string{}
			for k := range d.Annotations {
				ks = append(ks, k)
			}
			sort.Strings(ks)
			return ks
		}
		// ---- options
		mkOpts := func() optsT {
			o := optsT{Format: lib.Formats[rng.Intn(2)]}
			o.Ref = []string{"tag", "digest", "full-tag", "full-digest", "tag", "digest", "mismatch", "full-mismatch", "mismatch-sha512", "full-mismatch-sha384"}[rng.Intn(10)]
			if onDisk && strings.Contains(o.Ref, "mismatch") {
				o.Ref = "tag" // a real layout cannot resolve a digest it does not hold; covered by the in-memory repository
			}
			existingKeys := keysOf(snaps[tag])
			if strings.Contains(o.Ref, "digest") {
				existingKeys = keysOf(snaps[artifact.Digest.String()])
			}
			kinds := []string{"none", "disjoint", "disjoint", "reserved", "mixed-reserved", "disjoint-empty-value"}
			if len(existingKeys) > 0 {
				kinds = append(kinds, "colliding", "mixed-colliding")
			}
			o.MetaKind = kinds[rng.Intn(len(kinds))]
			switch o.MetaKind {
			case "disjoint":
				o.Metadata = map[string]string{"buildId": fmt.Sprint(rng.Intn(100)), "commit": "abc"}
			case "disjoint-empty-value": // a flag-like entry (reviewed=): an empty value is a value, the key is signed
				o.Metadata = [](map[string]string){{"reviewed": ""}, {"buildId": "7", "reviewed": ""}, {"": "empty-key"}, {"a": "", "b": ""}}[rng.Intn(4)]
			case "colliding":
				o.Metadata = map[string]string{existingKeys[rng.Intn(len(existingKeys))]: "overwritten"}
			case "mixed-colliding":
				o.Metadata = map[string]string{"buildId": "1", existingKeys[0]: "overwritten"}
			case "reserved":
				o.Metadata = map[string]string{[]string{"io.cncf.notary.x", "io.cncf.notary", "io.cncf.notaryproject.owner", "io.cncf.notary#S256"}[rng.Intn(4)]: "y"}
			case "mixed-reserved":
				o.Metadata = map[string]string{"buildId": "1", "io.cncf.notaryproject": "y"}
			}
			if rng.Bool() {
				o.PluginCf = map[string]string{"cfg": "v"}
			}
			return o
		}
		first := mkOpts()
		calls := 1 + rng.Intn(3)
		var trace []string
		rs := &recSigner{inner: gs}
		if seq%5 == 3 {
			// a plugin-backed signer that was created with a plugin configuration of its own: what it merges for the
			// plugin is its business, the caller's option map is the caller's
			ps, err := signer.NewPluginSigner(&lib.HonestSignPlugin{Mode: []string{"raw", "envelope"}[(seq/5)%2], Ent: chain, KeySpecName: "EC-256"}, "key-1", map[string]string{"region": "eu-1", "cfg": "the signer's own"})
			if err != nil {
				panic(err)
			}
			rs.inner = ps
			r.Event("sequences-signed-by-a-plugin-backed-signer-with-its-own-configuration")
		}
		if seq%7 == 5 {
			rs.zeroTime = true
			r.Event("sequences-whose-signer-states-no-signing-time")
		}
		var sgn notation.Signer = rs
		if seq%3 == 0 {
			rs.plugin = map[string]string{"plugin.annotation": "p"}
			if seq%6 == 0 {
				// a plugin may not replace the annotations the library generates itself
				rs.plugin["io.cncf.notary.x509chain.thumbprint#S256"] = `["00"]`
				rs.plugin[ocispec.AnnotationCreated] = "1999-01-01T00:00:00Z"
			}
			sgn = recSignerWithAnnotations{rs}
		}
		successes := 0
		for call := 0; call < calls; call++ {
			o := first
			if call > 0 && rng.Intn(3) == 0 {
				o = mkOpts()
			}
			ref := ""
			switch o.Ref {
			case "tag":
				ref = tag
			case "digest":
				ref = artifact.Digest.String()
			case "full-tag":
				ref = "registry.example/repo:" + tag
			case "full-digest":
				ref = "registry.example/repo@" + artifact.Digest.String()
			case "mismatch":
				ref = digest.FromString("something else").String()
			case "full-mismatch":
				ref = "registry.example/repo@" + digest.FromString("something else").String()
			case "mismatch-sha512": // a digest of another algorithm is still a digest - and not the one the repository resolves to
				ref = digest.SHA512.FromString("something else").String()
			case "full-mismatch-sha384":
				ref = "registry.example/repo@" + digest.SHA384.FromString("something else").String()
			}
			resolvedSnap := snaps[tag]
			if strings.Contains(o.Ref, "digest") {
				resolvedSnap = snaps[artifact.Digest.String()]
			}
			userMeta := copyMap(o.Metadata)
			pluginCfg := copyMap(o.PluginCf)
			metaSnap, cfgSnap := copyMap(userMeta), copyMap(pluginCfg)
			var idxBefore string
			if onDisk {
				b, _ := os.ReadFile(filepath.Join(layout, "index.json"))
				idxBefore = string(b)
			}
			nGot, nPush := len(rs.got), 0
			if mem != nil {
				nPush = len(mem.pushes)
			}
			aDesc, sDesc, serr := notation.SignOCI(ctx, sgn, repo, notation.SignOptions{
				SignerSignOptions: notation.SignerSignOptions{SignatureMediaType: o.Format, ExpiryDuration: 24 * time.Hour, PluginConfig: pluginCfg, SigningAgent: "c11"},
				ArtifactReference: ref, UserMetadata: userMeta})
			trace = append(trace, fmt.Sprintf("SignOCI(ref=%s, metadata=%v[%s], %s) -> %v", o.Ref, o.Metadata, o.MetaKind, o.Format, serr))
			key := ""
			if call > 0 || len(o.Metadata) > 0 || len(snaps[tag].Annotations) > 0 {
				key = fmt.Sprintf("%d/%d", seq, call)
			}
			r.Eval(key)
			wit := map[string]any{"trace": trace, "on_disk": onDisk, "resolved_before": snaps}
			sig := func(kind string) map[string]string {
				return map[string]string{"kind": kind, "on_disk": fmt.Sprint(onDisk), "meta": o.MetaKind, "call": fmt.Sprint(call)}
			}
			// (no signing time: there is nothing to state in the annotation that "gives the signing time" - nothing may be pushed)
			mustRefuse := strings.Contains(o.Ref, "mismatch") || strings.Contains(o.MetaKind, "reserved") || strings.Contains(o.MetaKind, "colliding") || rs.zeroTime
			if mustRefuse {
				r.Event("must-refuse-calls")
				if serr == nil {
					r.Violation(sig("not-refused"), fmt.Sprintf("SignOCI succeeded for reference kind %s / metadata kind %s", o.Ref, o.MetaKind), wit)
				}
				if mem != nil && len(mem.pushes) != nPush {
					r.Violation(sig("pushed-although-refused"), "a signature was pushed although the call had to be refused", wit)
				}
			} else if serr != nil {
				r.Event("legit-call-failed")
				r.Violation(sig("legit-call-failed"), fmt.Sprintf("call %d of the sequence failed although nothing forbids it: %v", call+1, serr), wit)
			}
			// ---- nothing else changed
			if !reflect.DeepEqual(userMeta, metaSnap) {
				r.Violation(sig("caller-map-changed"), fmt.Sprintf("the caller's UserMetadata map changed from %v to %v", metaSnap, userMeta), wit)
			}
			if !reflect.DeepEqual(pluginCfg, cfgSnap) {
				r.Violation(sig("caller-map-changed"), fmt.Sprintf("the caller's PluginConfig map changed from %v to %v", cfgSnap, pluginCfg), wit)
			}
			if mem != nil && !reflect.DeepEqual(deepDesc(mem.desc), snaps[tag]) {
				r.Violation(sig("repository-descriptor-changed"), fmt.Sprintf("the descriptor object handed out by the repository changed: %v -> %v", snaps[tag].Annotations, mem.desc.Annotations), wit)
				mem.desc = deepDesc(snaps[tag])
			}
			changed := false
			for rf, snap := range snaps {
				if now, err := repo.Resolve(ctx, rf); err != nil || !reflect.DeepEqual(deepDesc(now), snap) {
					r.Violation(sig("repository-resolution-changed"), fmt.Sprintf("the repository now resolves %.20s to annotations %v (err=%v), before the call: %v", rf, now.Annotations, err, snap.Annotations), wit)
					changed = true
				}
			}
			if changed && onDisk {
				return
			}
			if onDisk {
				b, _ := os.ReadFile(filepath.Join(layout, "index.json"))
				if msg := compareIndex(idxBefore, string(b), artifact.Digest, serr == nil); msg != "" {
					r.Violation(sig("index-json-changed"), msg, wit)
					return
				}
			}
			if serr != nil {
				continue
			}
			successes++
			r.Event("successful-calls")
			// ---- what was signed and pushed
			if len(rs.got) != nGot+1 {
				r.Violation(sig("signer-calls"), fmt.Sprintf("the signer was called %d times", len(rs.got)-nGot), wit)
				continue
			}
			got := rs.got[len(rs.got)-1]
			wantAnn := copyMap(resolvedSnap.Annotations)
			for k, v := range o.Metadata {
				if wantAnn == nil {
					wantAnn = map[string]string{}
				}
				wantAnn[k] = v
			}
			gotRest, wantRest := deepDesc(got), deepDesc(resolvedSnap)
			gotRest.Annotations, wantRest.Annotations = nil, nil
			if !reflect.DeepEqual(gotRest, wantRest) || !sameMap(got.Annotations, wantAnn) {
				r.Violation(sig("signed-descriptor"), fmt.Sprintf("the signer received %+v, expected exactly the resolved descriptor %+v with annotations %v", got, resolvedSnap, wantAnn), wit)
			}
			if aDesc.Digest != resolvedSnap.Digest || aDesc.Size != resolvedSnap.Size {
				r.Violation(sig("returned-descriptor"), "SignOCI returned another artifact descriptor", wit)
			}
			if onDisk {
				// the signature as it lies in the layout: its signed payload is the resolved descriptor (with the layout's own
				// ref.name annotation when a tag was resolved) plus the caller's metadata
				found := false
				lerr := repo.ListSignatures(ctx, resolvedSnap, func(ms []ocispec.Descriptor) error {
					for _, m := range ms {
						if m.Digest != sDesc.Digest {
							continue
						}
						found = true
						blob, _, ferr := repo.FetchSignatureBlob(ctx, m)
						if ferr != nil {
							return ferr
						}
						content, verr := lib.RefVerify(o.Format, blob)
						if verr != nil {
							r.Violation(sig("pushed-signature-invalid"), "the signature stored in the layout does not verify: "+verr.Error(), wit)
							return nil
						}
						var payload struct {
							TargetArtifact ocispec.Descriptor `json:"targetArtifact"`
						}
						json.Unmarshal(content.Payload.Content, &payload)
						r.Event("stored-payloads-decoded-from-the-layout")
						if payload.TargetArtifact.Digest != resolvedSnap.Digest || payload.TargetArtifact.Size != resolvedSnap.Size || payload.TargetArtifact.MediaType != resolvedSnap.MediaType || !sameMap(payload.TargetArtifact.Annotations, wantAnn) {
							r.Violation(sig("signed-payload"), fmt.Sprintf("the signature stored in the layout signs %v with annotations %v, expected the resolved %v with %v", payload.TargetArtifact.Digest, payload.TargetArtifact.Annotations, resolvedSnap.Digest, wantAnn), wit)
						}
					}
					return nil
				})
				if lerr != nil || !found {
					r.Violation(sig("pushed-signature-missing"), fmt.Sprintf("the signature manifest %s SignOCI returned is not listed for the artifact (err=%v)", sDesc.Digest, lerr), wit)
				}
			}
			if mem != nil {
				if len(mem.pushes) != nPush+1 {
					r.Violation(sig("push-count"), fmt.Sprintf("%d signatures pushed by one call", len(mem.pushes)-nPush), wit)
					continue
				}
				p := mem.pushes[len(mem.pushes)-1]
				subjRest, resRest := deepDesc(p.Subject), deepDesc(resolvedSnap)
				subjRest.Annotations, resRest.Annotations = nil, nil
				if !reflect.DeepEqual(subjRest, resRest) || !sameMap(p.Subject.Annotations, resolvedSnap.Annotations) {
					r.Violation(sig("pushed-subject"), fmt.Sprintf("signature attached to the subject %+v, the resolved artifact is %+v (the user metadata belongs into the signed payload, not onto the subject)", p.Subject, resolvedSnap), wit)
				}
				if p.MediaType != o.Format {
					r.Violation(sig("pushed-media-type"), "signature pushed with another media type", wit)
				}
				content, verr := lib.RefVerify(o.Format, p.Blob)
				if verr != nil {
					r.Violation(sig("pushed-signature-invalid"), "pushed signature does not verify: "+verr.Error(), wit)
					continue
				}
				st := content.SignerInfo.SignedAttributes.SigningTime
				created, perr := time.Parse(time.RFC3339, p.Annotations[ocispec.AnnotationCreated])
				if perr != nil || !created.Equal(st.Truncate(time.Second)) {
					r.Violation(sig("pushed-annotations"), fmt.Sprintf("the annotation %s=%q does not state the signing time of the envelope, %s (process zone UTC+9)", ocispec.AnnotationCreated, p.Annotations[ocispec.AnnotationCreated], st.UTC().Format(time.RFC3339)), wit)
				}
				wantPush := map[string]string{"io.cncf.notary.x509chain.thumbprint#S256": string(thumbJSON), ocispec.AnnotationCreated: p.Annotations[ocispec.AnnotationCreated]}
				for k, v := range rs.plugin {
					if _, generated := wantPush[k]; !generated {
						wantPush[k] = v
					}
				}
				if !sameMap(p.Annotations, wantPush) {
					r.Violation(sig("pushed-annotations"), fmt.Sprintf("signature manifest annotations %v, expected %v", p.Annotations, wantPush), wit)
				}
				var payload struct {
					TargetArtifact ocispec.Descriptor `json:"targetArtifact"`
				}
				json.Unmarshal(content.Payload.Content, &payload)
				if payload.TargetArtifact.Digest != resolvedSnap.Digest || !sameMap(payload.TargetArtifact.Annotations, wantAnn) {
					r.Violation(sig("signed-payload"), fmt.Sprintf("signed payload targets %v with annotations %v, expected %v with %v", payload.TargetArtifact.Digest, payload.TargetArtifact.Annotations, resolvedSnap.Digest, wantAnn), wit)
				}
			}
		}
		if seq < 3 {
			r.Sample("sequence", trace)
		}
		if calls > 1 && successes > 1 {
			r.Event("repeated-successful-signing")
		}
	}, r.PanicViolation("notation.SignOCI"))
	overlappingCalls(r, gs)
	r.RequireAtLeast("successful-calls", int64(n/2))
	r.RequireAtLeast("must-refuse-calls", int64(n/4))
	r.RequireAtLeast("repeated-successful-signing", int64(n/10))
	r.Finish()
}

func sameMap(a, b map[string]string) bool {
	if len(a) != len(b) {
		return false
	}
	for k, v := range a {
		if w, ok := b[k]; !ok || w != v {
			return false
		}
	}
	return true
}

// compareIndex: the artifact's own index.json entries are unchanged; on success exactly one manifest entry was added, on refusal none.
func compareIndex(before, after string, artifact digest.Digest, success bool) string {
	var b, a ocispec.Index
	if json.Unmarshal([]byte(before), &b) != nil || json.Unmarshal([]byte(after), &a) != nil {
		return "index.json is not parseable"
	}
	pick := func(ix ocispec.Index) (mine []string, others int) {
		for _, m := range ix.Manifests {
			if m.Digest == artifact {
				j, _ := json.Marshal(m)
				mine = append(mine, string(j))
			} else {
				others++
			}
		}
		sort.Strings(mine)
		return
	}
	bm, bo := pick(b)
	am, ao := pick(a)
	if fmt.Sprint(bm) != fmt.Sprint(am) {
		return fmt.Sprintf("the artifact's index.json entries changed: %v -> %v", bm, am)
	}
	if success && ao > bo+1 || !success && ao != bo {
		return fmt.Sprintf("index.json gained %d other entries (success=%v)", ao-bo, success)
	}
	return ""
}

// meetAtExists delays the answer to every existence check of the (2-byte) notation config blob until `want` such checks
// have been answered by the store, or 300 ms have passed.
type meetAtExists struct {
	oras.GraphTarget
	want, n int32
	all     chan struct{}
	once    sync.Once
}

func (m *meetAtExists) Exists(ctx context.Context, d ocispec.Descriptor) (bool, error) {
	ok, err := m.GraphTarget.Exists(ctx, d)
	if d.Size == 2 && d.MediaType == registry.ArtifactTypeNotation {
		if atomic.AddInt32(&m.n, 1) >= m.want {
			m.once.Do(func() { close(m.all) })
		}
		select {
		case <-m.all:
		case <-time.After(300 * time.Millisecond):
		}
	}
	return ok, err
}

// overlappingCalls: the statement quantifies over consecutive calls; a caller that signs one artifact several times
// (several keys, several metadata sets) does so from goroutines as readily as in a loop. Each trial signs one artifact
// in a FRESH on-disk layout (no signature, no notation config blob yet) from G goroutines released together: every call
// is a valid call, so every one must succeed and afterwards the artifact must carry exactly G signatures.
func overlappingCalls(r *lib.Run, gs notation.Signer) {
	ctx := context.Background()
	T, G := r.N(240, 2000), 12
	lib.Parallel(T, 4, func(t int) {
		layout := lib.TempDir("c11o")
		defer os.RemoveAll(layout)
		store, err := oci.New(layout)
		if err != nil {
			panic(err)
		}
		// (the artifact's own config is NOT the two bytes "{}": those are the notation config blob, which must be absent)
		cfg, _ := oras.PushBytes(ctx, store, ocispec.MediaTypeImageConfig, []byte(`{"architecture":"none"}`))
		mb := []byte(fmt.Sprintf(`{"schemaVersion":2,"mediaType":"application/vnd.oci.image.manifest.v1+json","config":{"mediaType":%q,"digest":%q,"size":%d},"layers":[],"annotations":{"t":"%d"}}`, cfg.MediaType, cfg.Digest, cfg.Size, t))
		artifact := ocispec.Descriptor{MediaType: ocispec.MediaTypeImageManifest, Digest: digest.FromBytes(mb), Size: int64(len(mb))}
		if err := store.Push(ctx, artifact, bytes.NewReader(mb)); err != nil {
			panic(err)
		}
		if err := store.Tag(ctx, artifact, "v1"); err != nil {
			panic(err)
		}
		repo, err := registry.NewOCIRepository(layout, registry.RepositoryOptions{})
		if err != nil {
			panic(err)
		}
		G := G
		if t%2 == 1 {
			// forced schedule: the calls' existence checks for the shared notation config blob all complete before any
			// of them pushes it (each check waits for the others, at most 300 ms), the window a free-running trial must hit by luck
			G = 2 + t%3
			repo = registry.NewRepository(&meetAtExists{GraphTarget: store, want: int32(G), all: make(chan struct{})})
			r.Event("overlapping-trials-forced-schedule")
		}
		start := make(chan struct{})
		errs := make([]error, G)
		var wg sync.WaitGroup
		for g := 0; g < G; g++ {
			wg.Add(1)
			go func(g int) {
				defer wg.Done()
				<-start
				_, _, errs[g] = notation.SignOCI(ctx, gs, repo, notation.SignOptions{SignerSignOptions: notation.SignerSignOptions{SignatureMediaType: lib.Formats[g%2]},
					ArtifactReference: []string{"v1", artifact.Digest.String()}[g%2], UserMetadata: map[string]string{"signer": fmt.Sprint(g)}})
			}(g)
		}
		close(start)
		wg.Wait()
		r.Eval(fmt.Sprintf("overlap/%d", t))
		ok := 0
		for g, e := range errs {
			if e != nil {
				r.Violation(map[string]string{"kind": "overlapping-call-failed"}, fmt.Sprintf("trial %d: valid SignOCI call %d of %d released together on a fresh layout failed: %v", t, g, G, e), nil)
			} else {
				ok++
			}
		}
		count := 0
		if err := repo.ListSignatures(ctx, artifact, func(ds []ocispec.Descriptor) error { count += len(ds); return nil }); err != nil {
			r.Violation(map[string]string{"kind": "overlapping-listing"}, fmt.Sprintf("trial %d: listing after %d overlapping calls failed: %v", t, G, err), nil)
		} else if count != ok {
			r.Violation(map[string]string{"kind": "overlapping-attached"}, fmt.Sprintf("trial %d: %d calls succeeded, the artifact carries %d signatures", t, ok, count), nil)
		}
		r.Event("overlapping-trials")
	}, r.PanicViolation("overlapping SignOCI"))
}
