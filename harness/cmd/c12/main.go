// C12 — no untrusted input or unusual configuration crashes the library.
//
// The driver spawns child processes (this same binary, `child` mode), one per
// batch. A child runs hostile cases serially against the public entry points;
// before every call it journals the case id and writes the input to disk, so a
// fatal runtime error still leaves the witness. Monitors: crash (recovered
// panic in the child / child death / fatal error), resource (a sampler aborts
// the child when its RSS exceeds 1 GiB; per-case hang timer), and the
// (outcome, error) pair-consistency monitor on every verification.
package main

import (
	"bufio"
	"bytes"
	"context"
	"crypto"
	"crypto/x509"
	"encoding/base64"
	"encoding/json"
	"encoding/pem"
	"errors"
	"fmt"
	"math/big"
	"os"
	"os/exec"
	"path/filepath"
	"runtime/debug"
	"strconv"
	"strings"
	"sync/atomic"
	"syscall"
	"time"

	"github.com/notaryproject/notation-core-go/revocation"
	corecrl "github.com/notaryproject/notation-core-go/revocation/crl"
	"github.com/notaryproject/notation-core-go/revocation/result"
	"github.com/notaryproject/notation-core-go/signature"
	"github.com/notaryproject/notation-go"
	"github.com/notaryproject/notation-go/config"
	"github.com/notaryproject/notation-go/dir"
	"github.com/notaryproject/notation-go/plugin"
	"github.com/notaryproject/notation-go/plugin/proto"
	"github.com/notaryproject/notation-go/registry"
	"github.com/notaryproject/notation-go/signer"
	"github.com/notaryproject/notation-go/verifharness/lib"
	"github.com/notaryproject/notation-go/verifier"
	"github.com/notaryproject/notation-go/verifier/crl"
	"github.com/notaryproject/notation-go/verifier/trustpolicy"
	"github.com/notaryproject/notation-go/verifier/truststore"
	pf "github.com/notaryproject/notation-plugin-framework-go/plugin"
	"github.com/opencontainers/go-digest"
	ocispec "github.com/opencontainers/image-spec/specs-go/v1"
)

type vrec struct {
	Sig     map[string]string `json:"sig"`
	What    string            `json:"what"`
	Witness any               `json:"witness"`
}

type batchResult struct {
	Cases      int64            `json:"cases"`
	Events     map[string]int64 `json:"events"`
	Violations []vrec           `json:"violations"`
	Distinct   int64            `json:"distinct"`
	HWMKB      int64            `json:"hwm_kb"`
	Samples    []string         `json:"samples"`
}

func rssKB(field string) int64 {
	f, err := os.Open("/proc/self/status")
	if err != nil {
		return -1
	}
	defer f.Close()
	sc := bufio.NewScanner(f)
	for sc.Scan() {
		if strings.HasPrefix(sc.Text(), field) {
			v, _ := strconv.ParseInt(strings.Fields(sc.Text())[1], 10, 64)
			return v
		}
	}
	return -1
}

// ---------------------------------------------------------------- hostile generators

func mutateBytes(rng *lib.Rand, raw []byte) []byte {
	out := append([]byte(nil), raw...)
	for i, k := 0, 1+rng.Intn(3); i < k && len(out) > 0; i++ {
		pos := rng.Intn(len(out))
		switch rng.Intn(6) {
		case 0:
			out[pos] ^= 1 << uint(rng.Intn(8))
		case 1:
			out = append(out[:pos], out[pos+1:]...)
		case 2:
			out = append(out[:pos], append(rng.Bytes(1+rng.Intn(4)), out[pos:]...)...)
		case 3:
			out = out[:pos]
		case 4:
			out[pos] = []byte{0, '"', '{', '[', 0xff, '\\', ',', ':'}[rng.Intn(8)]
		default:
			n := rng.Intn(len(out)-pos) + 1
			copy(out[pos:], bytes.Repeat([]byte{out[pos]}, n))
		}
	}
	return out
}

var hostileValues = []string{`null`, `0`, `-1`, `1e999`, `123456789012345678901234567890`, `""`, `"x"`, `[]`, `{}`, `[null]`, `{"a":null}`, `true`, `[[[[[[[[[[]]]]]]]]]]`, `"\u0000"`, `1.5`}

// mutateJSON replaces / deletes / nests random nodes of a JSON document.
func mutateJSON(rng *lib.Rand, doc []byte) []byte {
	var v any
	if json.Unmarshal(doc, &v) != nil {
		return mutateBytes(rng, doc)
	}
	hostile := func() any {
		var h any
		json.Unmarshal([]byte(hostileValues[rng.Intn(len(hostileValues))]), &h)
		return h
	}
	var walk func(n any, depth int) any
	walk = func(n any, depth int) any {
		if rng.Intn(12) == 0 {
			return hostile()
		}
		switch t := n.(type) {
		case map[string]any:
			keys := make([]string, 0, len(t))
			for k := range t {
				keys = append(keys, k)
			}
			sortStrings(keys) // deterministic: the case list must depend on the seed only
			for _, k := range keys {
				x := t[k]
				switch rng.Intn(14) {
				case 0:
					delete(t, k)
				case 1:
					t[k] = hostile()
				case 2:
					t[strings.ToUpper(k)] = x
				default:
					t[k] = walk(x, depth+1)
				}
			}
			if rng.Intn(10) == 0 {
				t["extra"+fmt.Sprint(rng.Intn(9))] = hostile()
			}
			return t
		case []any:
			for i := range t {
				t[i] = walk(t[i], depth+1)
			}
			if rng.Intn(8) == 0 {
				t = append(t, hostile())
			}
			if rng.Intn(10) == 0 && len(t) > 0 {
				t = t[:len(t)-1]
			}
			return t
		}
		return n
	}
	v = walk(v, 0)
	out, err := json.Marshal(v)
	if err != nil {
		return doc
	}
	if rng.Intn(15) == 0 {
		return mutateBytes(rng, out)
	}
	return out
}

func deepNest(n int, open, close string) []byte {
	return []byte(strings.Repeat(open, n) + strings.Repeat(close, n))
}

// ---------------------------------------------------------------- child

type scriptedRepo struct {
	desc ocispec.Descriptor
	sig  []byte
	mt   string
}

func (o scriptedRepo) Resolve(ctx context.Context, ref string) (ocispec.Descriptor, error) {
	return o.desc, nil
}
func (o scriptedRepo) ListSignatures(ctx context.Context, d ocispec.Descriptor, fn func([]ocispec.Descriptor) error) error {
	return fn([]ocispec.Descriptor{{MediaType: ocispec.MediaTypeImageManifest, Digest: digest.FromBytes(o.sig), Size: 1}})
}
func (o scriptedRepo) FetchSignatureBlob(ctx context.Context, d ocispec.Descriptor) ([]byte, ocispec.Descriptor, error) {
	return o.sig, ocispec.Descriptor{MediaType: o.mt}, nil
}
func (o scriptedRepo) PushSignature(ctx context.Context, mt string, blob []byte, s ocispec.Descriptor, a map[string]string) (ocispec.Descriptor, ocispec.Descriptor, error) {
	return ocispec.Descriptor{}, ocispec.Descriptor{}, errors.New("no")
}

// hostilePlugin answers with scripted (hostile) responses; it never returns (nil, nil).
type hostilePlugin struct {
	meta pf.GetMetadataResponse
	dk   pf.DescribeKeyResponse
	gs   pf.GenerateSignatureResponse
	ge   pf.GenerateEnvelopeResponse
	vs   pf.VerifySignatureResponse
}

func (p *hostilePlugin) GetMetadata(ctx context.Context, req *pf.GetMetadataRequest) (*pf.GetMetadataResponse, error) {
	m := p.meta
	return &m, nil
}
func (p *hostilePlugin) DescribeKey(ctx context.Context, req *pf.DescribeKeyRequest) (*pf.DescribeKeyResponse, error) {
	d := p.dk
	return &d, nil
}
func (p *hostilePlugin) GenerateSignature(ctx context.Context, req *pf.GenerateSignatureRequest) (*pf.GenerateSignatureResponse, error) {
	g := p.gs
	return &g, nil
}
func (p *hostilePlugin) GenerateEnvelope(ctx context.Context, req *pf.GenerateEnvelopeRequest) (*pf.GenerateEnvelopeResponse, error) {
	g := p.ge
	return &g, nil
}
func (p *hostilePlugin) VerifySignature(ctx context.Context, req *pf.VerifySignatureRequest) (*pf.VerifySignatureResponse, error) {
	v := p.vs
	return &v, nil
}

type hostileMgr struct{ p *hostilePlugin }

func (m hostileMgr) Get(ctx context.Context, name string) (pf.Plugin, error) { return m.p, nil }
func (m hostileMgr) List(ctx context.Context) ([]string, error)              { return nil, nil }

func child(batch int, seed int64, tier, outDir string) {
	debug.SetTraceback("all")
	// a goroutine stack may grow to 64 MiB here (the default is 1 GiB): recursion whose depth the input controls shows
	// with inputs of a few hundred kilobytes instead of several megabytes
	debug.SetMaxStack(64 << 20)
	res := batchResult{Events: map[string]int64{}}
	journal := filepath.Join(outDir, fmt.Sprintf("journal-%d.txt", batch))
	inputFile := filepath.Join(outDir, fmt.Sprintf("input-%d.bin", batch))
	resultFile := filepath.Join(outDir, fmt.Sprintf("result-%d.json", batch))
	flush := func() {
		res.HWMKB = rssKB("VmHWM:")
		b, _ := json.Marshal(res)
		os.WriteFile(resultFile, b, 0o644)
	}
	var caseStart atomic.Int64
	var curCase atomic.Value
	curCase.Store("")
	// resource + hang sampler
	go func() {
		for {
			time.Sleep(50 * time.Millisecond)
			if rss := rssKB("VmRSS:"); rss > 1024*1024 {
				os.WriteFile(journal+".abort", []byte(fmt.Sprintf("runaway allocation: RSS %d KiB during case %s", rss, curCase.Load())), 0o644)
				os.Exit(99)
			}
			if st := caseStart.Load(); st > 0 && time.Since(time.Unix(0, st)) > 120*time.Second {
				os.WriteFile(journal+".abort", []byte(fmt.Sprintf("hang: case %s running for more than 120 s", curCase.Load())), 0o644)
				os.Exit(98)
			}
		}
	}()
	rng := lib.NewRand(uint64(seed)).Fork(fmt.Sprintf("C12/batch-%d", batch))
	ctx := context.Background()
	viol := func(kind, where, what string, wit any) {
		if len(res.Violations) < 50 {
			res.Violations = append(res.Violations, vrec{map[string]string{"kind": kind, "where": where}, what, wit})
		}
		res.Events["violations:"+kind]++
	}
	// run executes one case with journaling and panic recovery
	run := func(where, id string, input []byte, f func()) {
		res.Cases++
		res.Events["entry:"+where]++
		curCase.Store(where + " " + id)
		os.WriteFile(inputFile, input, 0o644)
		os.WriteFile(journal, []byte(where+" "+id+"\n"), 0o644)
		caseStart.Store(time.Now().UnixNano())
		defer caseStart.Store(0)
		defer func() {
			if p := recover(); p != nil {
				inp := input
				if len(inp) > 4096 {
					inp = inp[:4096]
				}
				viol("panic", where, fmt.Sprintf("panic in %s (%s): %v", where, id, p), map[string]any{"stack": string(debug.Stack()), "input_prefix_base64": inp, "input_len": len(input), "case": id})
			}
		}()
		f()
	}
	// ---- material
	good := lib.SimpleChain("c12", 0, "EC-256", 0)
	desc := lib.Desc(ocispec.MediaTypeImageManifest, []byte("c12"))
	blob := []byte("c12 blob")
	blobDesc := lib.Desc("application/octet-stream", blob)
	valid := map[string][]byte{}
	for _, f := range lib.Formats {
		valid[f] = lib.MustCoreSign(lib.SignSpec{Format: f, Payload: lib.Payload(desc), Signer: good})
		valid[f+"|blob"] = lib.MustCoreSign(lib.SignSpec{Format: f, Payload: lib.Payload(blobDesc), Signer: good})
		valid[f+"|plugin"] = lib.MustCoreSign(lib.SignSpec{Format: f, Payload: lib.Payload(desc), Signer: good, Ext: []signature.Attribute{{Key: lib.HdrPlugin, Critical: true, Value: "plug"}, {Key: lib.HdrPluginMinVer, Critical: true, Value: "1.0.0"}}})
		valid[f+"|badpayload"] = lib.MustCoreSign(lib.SignSpec{Format: f, Payload: []byte(`{"targetArtifact":[1,2]}`), Signer: good})
		valid[f+"|nullpayload"] = lib.MustCoreSign(lib.SignSpec{Format: f, Payload: []byte(`null`), Signer: good})
		valid[f+"|weirdann"] = lib.MustCoreSign(lib.SignSpec{Format: f, Payload: []byte(`{"targetArtifact":{"mediaType":"m","digest":"sha256:zz","size":-1,"annotations":{"a":null}}}`), Signer: good})
	}
	// envelopes carrying a VALID RFC 3161 countersignature, so that the timestamping branch is walked to its end
	tsaRoot := lib.Mint(nil, lib.CertSpec{CN: "c12-tsa-root", Kind: "ca", KeyIdx: 6})
	tsaLeaf := lib.Mint(tsaRoot, lib.CertSpec{CN: "c12-tsa", Kind: "tsa", KeyIdx: 2})
	stamped := map[string][]byte{}
	for _, f := range lib.Formats {
		raw := valid[f]
		sv, alg := lib.SigValue(f, raw)
		tok := (&lib.TSA{Key: tsaLeaf.Key, Chain: tsaLeaf.Chain()}).Token(lib.TokenSpec{Message: sv, Hash: alg.Hash(), GenTime: time.Now().Add(-time.Hour), AccuracyS: 1})
		stamped[f] = lib.AttachToken(f, raw, tok)
	}
	validKeys := make([]string, 0, len(valid))
	for k := range valid {
		validKeys = append(validKeys, k)
	}
	sortStrings(validKeys)
	ts := lib.NewMemTS().Put("ca:x", good.Root().Cert)
	levelNames := []string{"strict", "permissive", "audit", "skip"}
	mkVerifier := func(kind string, level string, pm plugin.Manager) notation.Verifier {
		sv := trustpolicy.SignatureVerification{VerificationLevel: level}
		stores, ids := []string{"ca:x"}, []string{"*"}
		if level == "skip" {
			stores, ids = nil, nil
		}
		opts := verifier.VerifierOptions{RevocationCodeSigningValidator: lib.OKRev{}, RevocationTimestampingValidator: lib.OKRev{}, PluginManager: pm}
		if kind != "blob-only" {
			opts.OCITrustPolicy = lib.OCIPolicy(sv, stores, ids)
		}
		if kind != "oci-only" {
			bd := &trustpolicy.BlobDocument{Version: "1.0", TrustPolicies: []trustpolicy.BlobTrustPolicy{
				{Name: "named", SignatureVerification: sv, TrustStores: stores, TrustedIdentities: ids},
				{Name: "skipnamed", SignatureVerification: trustpolicy.SignatureVerification{VerificationLevel: "skip"}},
				{Name: "global", SignatureVerification: trustpolicy.SignatureVerification{VerificationLevel: "strict"}, TrustStores: []string{"ca:x"}, TrustedIdentities: []string{"*"}, GlobalPolicy: true}}}
			opts.BlobTrustPolicy = bd
		}
		v, err := verifier.NewVerifierWithOptions(ts, opts)
		if err != nil {
			panic("harness bug: " + err.Error())
		}
		return v
	}
	envelopeInput := func() ([]byte, string, string) {
		f := lib.Formats[rng.Intn(2)]
		switch rng.Intn(10) {
		case 0:
			return rng.Bytes(rng.Intn(2048)), f, "random"
		case 1:
			k := validKeys[rng.Intn(len(validKeys))]
			return valid[k], strings.SplitN(k, "|", 2)[0], "valid:" + k
		case 2:
			k := validKeys[rng.Intn(len(validKeys))]
			if strings.HasPrefix(k, lib.MediaJWS) {
				return mutateJSON(rng, valid[k]), lib.MediaJWS, "json-mutated:" + k
			}
			return mutateBytes(rng, valid[k]), lib.MediaCOSE, "mutated:" + k
		case 3:
			return [][]byte{nil, {}, []byte("null"), []byte("{}"), []byte("[]"), deepNest(20000, "[", "]"), deepNest(5000, `{"a":`, "}"), bytes.Repeat([]byte{0x9f}, 50000), bytes.Repeat([]byte{0xd8, 0x3d}, 30000), append([]byte{0xd2, 0x84}, bytes.Repeat([]byte{0x5b, 0xff, 0xff, 0xff, 0xff, 0xff, 0xff, 0xff, 0xff}, 4)...)}[rng.Intn(10)], f, "special"
		default:
			k := validKeys[rng.Intn(len(validKeys))]
			return mutateBytes(rng, valid[k]), strings.SplitN(k, "|", 2)[0], "mutated:" + k
		}
	}
	checkPair := func(where, id string, out *notation.VerificationOutcome, err error, afterSelection bool, input []byte) {
		inp := input
		if len(inp) > 2048 {
			inp = inp[:2048]
		}
		wit := map[string]any{"case": id, "input_prefix_base64": inp, "error": fmt.Sprint(err)}
		say(err)
		if out != nil {
			say(out.Error)
			for _, vr := range out.VerificationResults {
				if vr != nil {
					say(vr.Error)
				}
			}
		}
		if err == nil {
			res.Events["pair:no-error"]++
			if out == nil {
				viol("pair-consistency", where, where+" ("+id+"): no error but a nil outcome", wit)
			} else if out.Error != nil {
				viol("pair-consistency", where, where+" ("+id+"): no error but outcome.Error = "+out.Error.Error(), wit)
			}
			return
		}
		res.Events["pair:error"]++
		if afterSelection {
			if out == nil {
				viol("pair-consistency", where, where+" ("+id+"): verification failed after policy selection with a nil outcome: "+err.Error(), wit)
			} else if out.Error == nil {
				viol("pair-consistency", where, where+" ("+id+"): verification failed ("+err.Error()+") but outcome.Error is nil", wit)
			}
		}
		if out != nil {
			func() {
				defer func() {
					if p := recover(); p != nil {
						viol("panic", "VerificationOutcome.UserMetadata", fmt.Sprintf("UserMetadata panicked: %v", p), wit)
					}
				}()
				out.UserMetadata()
			}()
		}
	}

	nCases := 6000
	if tier == "thorough" {
		nCases = 25000
	}
	policyOCI, _ := json.Marshal(lib.OCIPolicy(trustpolicy.SignatureVerification{VerificationLevel: "strict", Override: map[trustpolicy.ValidationType]trustpolicy.ValidationAction{"revocation": "skip"}, VerifyTimestamp: "always"}, []string{"ca:x", "tsa:t"}, []string{"x509.subject:C=US,ST=WA,O=Org"}))
	policyBlob, _ := json.Marshal(lib.BlobPolicy(trustpolicy.SignatureVerification{VerificationLevel: "permissive"}, []string{"ca:x"}, []string{"*"}))
	signingKeys := []byte(`{"default":"k1","keys":[{"name":"k1","keyPath":"/a/k1.key","certPath":"/a/k1.crt"},{"name":"k2","id":"id2","pluginName":"plug","pluginConfig":{"a":"b"}}]}`)
	configJSON := []byte(`{"insecureRegistries":["localhost:5000"],"credsStore":"x","credHelpers":{"a":"b"},"signatureFormat":"jws"}`)
	cfgDir := filepath.Join(outDir, fmt.Sprintf("config-%d", batch))
	os.MkdirAll(cfgDir, 0o755)
	dir.UserConfigDir = cfgDir
	dir.UserLibexecDir = filepath.Join(cfgDir, "libexec")
	dir.UserCacheDir = filepath.Join(cfgDir, "cache")

	// ---- well-signed envelopes of unusual shape x verification plugins (enumerated, first batch only): random and
	// mutated envelopes die at the signature check, so the code behind it - attribute classification, the request
	// sent to a verification plugin, the processing of its answer - is only reached by envelopes that verify.
	if batch == 0 {
		type shapeT struct {
			name string
			cose bool // needs integer labels
			ext  []signature.Attribute
		}
		nested := map[string]any{"a": []any{1, "x", nil, map[string]any{"b": true}}, "n": 1.5}
		plugHdr := []signature.Attribute{{Key: lib.HdrPlugin, Critical: true, Value: "plug"}}
		shapes := []shapeT{
			{"plugin+int-label", true, append([]signature.Attribute{{Key: int64(1000), Value: "x"}}, plugHdr...)},
			{"plugin+negative-int-label-bytes", true, append([]signature.Attribute{{Key: int64(-70000), Value: []byte{1, 2, 3}}}, plugHdr...)},
			{"plugin+several-int-labels", true, append([]signature.Attribute{{Key: int64(77), Value: int64(1) << 40}, {Key: int64(78), Value: nil}, {Key: "s", Value: "v"}}, plugHdr...)},
			{"int-label-no-plugin", true, []signature.Attribute{{Key: int64(1000), Value: "x"}}},
			{"plugin+nested-value", false, append([]signature.Attribute{{Key: "io.example.nested", Value: nested}}, plugHdr...)},
			{"plugin+null-value", false, append([]signature.Attribute{{Key: "io.example.null", Value: nil}}, plugHdr...)},
			{"plugin+critical-nested-value", false, append([]signature.Attribute{{Key: "io.example.crit", Critical: true, Value: nested}}, plugHdr...)},
			{"plugin+critical-number", false, append([]signature.Attribute{{Key: "io.example.num", Critical: true, Value: 12345}}, plugHdr...)},
			{"plugin+empty-key", false, append([]signature.Attribute{{Key: "", Value: "v"}}, plugHdr...)},
			{"plugin-name-empty", false, []signature.Attribute{{Key: lib.HdrPlugin, Critical: true, Value: ""}}},
			{"plugin-name-not-a-string", false, []signature.Attribute{{Key: lib.HdrPlugin, Critical: true, Value: 7}}},
			{"min-version-not-a-string", false, append([]signature.Attribute{{Key: lib.HdrPluginMinVer, Critical: true, Value: []any{"1.0.0"}}}, plugHdr...)},
			{"plugin-header-non-critical", false, []signature.Attribute{{Key: lib.HdrPlugin, Value: "plug"}}},
			{"min-version-blank", false, append([]signature.Attribute{{Key: lib.HdrPluginMinVer, Critical: true, Value: " "}}, plugHdr...)},
			{"min-version-not-semver", false, append([]signature.Attribute{{Key: lib.HdrPluginMinVer, Critical: true, Value: "v1"}}, plugHdr...)},
			{"min-version-non-critical", false, append([]signature.Attribute{{Key: lib.HdrPluginMinVer, Value: "1.0.0"}}, plugHdr...)},
			{"min-version-without-plugin", false, []signature.Attribute{{Key: lib.HdrPluginMinVer, Critical: true, Value: "1.0.0"}}},
			{"many-attributes", false, func() []signature.Attribute {
				out := append([]signature.Attribute{}, plugHdr...)
				for k := 0; k < 300; k++ {
					out = append(out, signature.Attribute{Key: fmt.Sprintf("io.example.k%d", k), Critical: k%2 == 0, Value: strings.Repeat("v", k)})
				}
				return out
			}()},
		}
		caps := [][]pf.Capability{{pf.CapabilityTrustedIdentityVerifier, pf.CapabilityRevocationCheckVerifier}, {pf.CapabilityTrustedIdentityVerifier}, {pf.CapabilityRevocationCheckVerifier}}
		for _, sh := range shapes {
			for _, f := range lib.Formats {
				if sh.cose && f != lib.MediaCOSE {
					continue
				}
				for pi, isBlob := range []bool{false, true} {
					pl := lib.Payload(desc)
					if isBlob {
						pl = lib.Payload(blobDesc)
					}
					var env []byte
					func() {
						defer func() {
							if recover() != nil {
								env = nil // the signing library refuses this shape: nothing to verify
							}
						}()
						env = lib.MustCoreSign(lib.SignSpec{Format: f, Payload: pl, Signer: good, Ext: sh.ext})
					}()
					if env == nil {
						res.Events["shaped:unsignable"]++
						continue
					}
					for ci, cp := range caps {
						for _, level := range []string{"strict", "permissive", "audit"} {
							for _, pmKind := range []string{"well-behaved", "hostile-answers", "none"} {
								var pm plugin.Manager
								switch pmKind {
								case "well-behaved":
									pm = lib.ScriptedManager{P: &lib.ScriptedPlugin{Caps: cp}}
								case "hostile-answers":
									pm = hostileMgr{&hostilePlugin{meta: pf.GetMetadataResponse{Name: "plug", Version: "1.0.0", SupportedContractVersions: []string{"1.0"}, Capabilities: cp},
										vs: pf.VerifySignatureResponse{VerificationResults: map[pf.Capability]*pf.VerificationResult{cp[0]: nil, "X": {Success: true}}, ProcessedAttributes: []interface{}{nil, 1, "io.example.crit", map[string]any{"a": 1}}}}}
								}
								cid := fmt.Sprintf("shaped %s %s blob=%v caps=%d %s %s", sh.name, f, isBlob, ci, level, pmKind)
								run("well-signed unusual envelopes x verification plugins", cid, env, func() {
									v := mkVerifier("both", level, pm)
									if isBlob {
										out, err := v.(notation.BlobVerifier).VerifyBlob(ctx, func(alg digest.Algorithm) (ocispec.Descriptor, error) { return blobDesc, nil }, env, notation.BlobVerifierVerifyOptions{SignatureMediaType: f, TrustPolicyName: "named"})
										checkPair("well-signed unusual envelopes x verification plugins", cid, out, err, true, env)
									} else {
										out, err := v.Verify(ctx, desc, env, notation.VerifierVerifyOptions{ArtifactReference: "r.io/a@" + desc.Digest.String(), SignatureMediaType: f})
										checkPair("well-signed unusual envelopes x verification plugins", cid, out, err, true, env)
									}
								})
								res.Events["shaped:verified"]++
							}
						}
					}
					_ = pi
				}
			}
		}
	}

	// ---- well-formed but unusual RFC 3161 tokens on a valid envelope (first batch only): byte mutations of a token die in
	// the ASN.1 / CMS parser; the code that interprets TSTInfo is reached only by tokens that parse and verify
	if batch == 0 {
		tsa := &lib.TSA{Key: tsaLeaf.Key, Chain: tsaLeaf.Chain()}
		for _, f := range lib.Formats {
			raw := valid[f]
			sigv, alg := lib.SigValue(f, raw)
			other := crypto.SHA512
			if alg.Hash() == crypto.SHA512 {
				other = crypto.SHA256
			}
			specs := map[string]lib.TokenSpec{
				"no-certificates":         {Message: sigv, Hash: alg.Hash(), GenTime: time.Now().Add(-time.Hour), AccuracyS: 1, OmitCerts: true},
				"negative-accuracy":       {Message: sigv, Hash: alg.Hash(), GenTime: time.Now().Add(-time.Hour), AccuracyS: -5},
				"huge-accuracy":           {Message: sigv, Hash: alg.Hash(), GenTime: time.Now().Add(-time.Hour), AccuracyS: 1 << 40},
				"gen-time-year-9999":      {Message: sigv, Hash: alg.Hash(), GenTime: time.Date(9999, 12, 31, 23, 59, 59, 0, time.UTC), AccuracyS: 1},
				"gen-time-year-1":         {Message: sigv, Hash: alg.Hash(), GenTime: time.Date(1, 1, 1, 0, 0, 0, 0, time.UTC), AccuracyS: 1},
				"gen-time-1950":           {Message: sigv, Hash: alg.Hash(), GenTime: time.Date(1950, 1, 1, 0, 0, 0, 0, time.UTC), AccuracyS: 1},
				"other-hash-algorithm":    {Message: sigv, Hash: other, GenTime: time.Now().Add(-time.Hour), AccuracyS: 1},
				"imprint-of-wrong-length": {Hash: alg.Hash(), Hashed: []byte{1, 2, 3}, GenTime: time.Now().Add(-time.Hour), AccuracyS: 1},
				"empty-imprint":           {Hash: alg.Hash(), Hashed: []byte{}, GenTime: time.Now().Add(-time.Hour), AccuracyS: 1},
				"huge-nonce":              {Message: sigv, Hash: alg.Hash(), GenTime: time.Now().Add(-time.Hour), AccuracyS: 1, Nonce: new(big.Int).Lsh(big.NewInt(1), 4096)},
				"negative-nonce":          {Message: sigv, Hash: alg.Hash(), GenTime: time.Now().Add(-time.Hour), AccuracyS: 1, Nonce: big.NewInt(-1)},
			}
			names := make([]string, 0, len(specs))
			for k := range specs {
				names = append(names, k)
			}
			sortStrings(names)
			for _, name := range names {
				var in []byte
				func() {
					defer func() {
						if recover() != nil {
							in = nil // the test TSA cannot encode this shape
						}
					}()
					in = lib.AttachToken(f, raw, tsa.Token(specs[name]))
				}()
				if in == nil {
					res.Events["token-shape:not-encodable"]++
					continue
				}
				for _, level := range []string{"strict", "permissive", "audit"} {
					for _, vt := range []trustpolicy.TimestampOption{"", "always", "afterCertExpiry"} {
						cid := fmt.Sprintf("token %s %s %s vt=%q", name, f, level, vt)
						run("well-formed unusual timestamp tokens", cid, in, func() {
							doc := lib.OCIPolicy(trustpolicy.SignatureVerification{VerificationLevel: level, VerifyTimestamp: vt}, []string{"ca:x", "tsa:t"}, []string{"*"})
							mts := lib.NewMemTS().Put("ca:x", good.Root().Cert).Put("tsa:t", tsaRoot.Cert)
							v, err := verifier.NewVerifierWithOptions(mts, verifier.VerifierOptions{OCITrustPolicy: doc, RevocationCodeSigningValidator: lib.OKRev{}, RevocationTimestampingValidator: lib.OKRev{}})
							if err != nil {
								panic("harness bug: " + err.Error())
							}
							out, verr := v.Verify(ctx, desc, in, notation.VerifierVerifyOptions{ArtifactReference: "r.io/a@" + desc.Digest.String(), SignatureMediaType: f})
							checkPair("well-formed unusual timestamp tokens", cid, out, verr, true, in)
						})
						res.Events["token-shape:verified"]++
					}
				}
			}
		}
	}

	// ---- plugin output far beyond any sensible reply (second batch only, so that an abort by the resource monitor
	// costs no other coverage): 1.5 GiB on stdout or stderr, exiting 0 or 1. The child's RSS sampler is the oracle.
	if batch == 1 {
		workerBin := filepath.Join(os.Getenv("VERIF_BIN"), "worker")
		if _, err := os.Stat(workerBin); err == nil {
			pdir := filepath.Join(cfgDir, "plugins", "flood")
			os.MkdirAll(pdir, 0o755)
			exe := filepath.Join(pdir, "notation-flood")
			if os.Link(workerBin, exe) != nil {
				b, _ := os.ReadFile(workerBin)
				os.WriteFile(exe, b, 0o755)
			}
			for _, stream := range []string{"stdout_fill", "stderr_fill"} {
				for _, exit := range []int{0, 1} {
					beh, _ := json.Marshal(map[string]any{"*": map[string]any{"exit": exit, stream: int64(1536) << 20}})
					os.WriteFile(exe+".behavior.json", beh, 0o644)
					run("plugin.CLIPlugin flooded by its process", fmt.Sprintf("%s exit=%d", stream, exit), beh, func() {
						p, err := plugin.NewCLIPlugin(ctx, "flood", exe)
						if err != nil {
							return
						}
						if md, err := p.GetMetadata(ctx, &pf.GetMetadataRequest{}); err == nil {
							viol("flood-accepted", "plugin.CLIPlugin flooded by its process", fmt.Sprintf("a plugin that wrote 1.5 GiB to %s was answered with success: %+v", stream, md), nil)
						}
						res.Events["plugin-floods"]++
					})
				}
			}
		}
	}

	for i := 0; i < nCases; i++ {
		id := fmt.Sprintf("b%d/%d", batch, i)
		switch ep := rng.Intn(20); {
		case ep <= 3: // verifier.Verify / VerifyBlob, all four levels, hostile plugin manager
			in, f, cls := envelopeInput()
			level := levelNames[rng.Intn(4)]
			var pm plugin.Manager
			switch rng.Intn(4) {
			case 0:
				pm = hostileMgr{&hostilePlugin{meta: pf.GetMetadataResponse{Name: "plug", Version: []string{"1.0.0", "", "x", "0.0.1"}[rng.Intn(4)], Capabilities: []pf.Capability{pf.CapabilityTrustedIdentityVerifier, pf.CapabilityRevocationCheckVerifier}},
					vs: pf.VerifySignatureResponse{VerificationResults: map[pf.Capability]*pf.VerificationResult{pf.CapabilityTrustedIdentityVerifier: nil, pf.CapabilityRevocationCheckVerifier: {Success: rng.Bool()}}, ProcessedAttributes: []interface{}{nil, 1, "x", map[string]any{}}}}}
			case 1:
				pm = hostileMgr{&hostilePlugin{}}
			}
			v := mkVerifier("both", level, pm).(interface {
				notation.Verifier
				notation.BlobVerifier
			})
			if rng.Bool() {
				run("verifier.Verify", id+" "+cls+" "+level, in, func() {
					out, err := v.Verify(ctx, desc, in, notation.VerifierVerifyOptions{ArtifactReference: "r.io/a@" + desc.Digest.String(), SignatureMediaType: f, UserMetadata: map[string]string{"a": "b"}})
					checkPair("verifier.Verify", id+" "+cls+" "+level, out, err, true, in)
				})
			} else {
				name := []string{"", "named", "skipnamed"}[rng.Intn(3)]
				var blobUM map[string]string
				if i%2 == 0 {
					blobUM = map[string]string{"required": "by-the-caller"} // (no envelope of the pool carries it: a failure AFTER every other check)
				}
				failGen := rng.Intn(10) == 0 // decided here: PRNG consumption must not depend on what the library does
				run("verifier.VerifyBlob", id+" "+cls+" "+level+" policy="+name, in, func() {
					out, err := v.VerifyBlob(ctx, func(alg digest.Algorithm) (ocispec.Descriptor, error) {
						if failGen {
							return ocispec.Descriptor{}, errors.New("descriptor generator failed")
						}
						return ocispec.Descriptor{MediaType: blobDesc.MediaType, Digest: alg.FromBytes(blob), Size: int64(len(blob))}, nil
					}, in, notation.BlobVerifierVerifyOptions{SignatureMediaType: f, TrustPolicyName: name, UserMetadata: blobUM})
					checkPair("verifier.VerifyBlob", id+" "+cls+" "+level+" policy="+name, out, err, true, in)
				})
			}
		case ep <= 6: // notation.Verify / notation.VerifyBlob crossed with verifier constructions
			in, f, cls := envelopeInput()
			kind := []string{"both", "oci-only", "blob-only"}[rng.Intn(3)]
			level := levelNames[rng.Intn(4)]
			v := mkVerifier(kind, level, nil)
			if rng.Bool() {
				cid := id + " " + cls + " verifier=" + kind + " " + level
				var vv notation.Verifier = v
				if rng.Intn(3) == 0 {
					// a decorator that embeds the interface (logging, metrics, retries): only Verify is visible through it
					vv = struct{ notation.Verifier }{v}
					cid += " decorated"
				}
				ref := "r.io/a@" + desc.Digest.String()
				if rng.Intn(4) == 0 {
					ref = "r.io/a:v1" // a tag-only reference: no statement applies to it
					cid += " tag-reference"
				}
				run("notation.Verify", cid, in, func() {
					_, outs, err := notation.Verify(ctx, vv, scriptedRepo{desc, in, f}, notation.VerifyOptions{ArtifactReference: ref, MaxSignatureAttempts: 1 + rng.Intn(2)})
					if err == nil && len(outs) == 0 {
						viol("pair-consistency", "notation.Verify", "notation.Verify ("+cid+"): no error and no outcome", nil)
					}
					for _, o := range outs {
						if err == nil && (o == nil || o.Error != nil) {
							viol("pair-consistency", "notation.Verify", "notation.Verify ("+cid+"): no error but an outcome with error / nil outcome", nil)
						}
						if o != nil {
							o.UserMetadata()
						}
					}
				})
			} else {
				name := []string{"", "named", "skipnamed", "missing"}[rng.Intn(4)]
				bv, _ := v.(notation.BlobVerifier)
				cid := id + " " + cls + " verifier=" + kind + " " + level + " policy=" + name
				run("notation.VerifyBlob", cid, in, func() {
					mt := []string{"", "application/octet-stream", "bad media type;;"}[rng.Intn(3)]
					_, out, err := notation.VerifyBlob(ctx, bv, bytes.NewReader(blob), in, notation.VerifyBlobOptions{BlobVerifierVerifyOptions: notation.BlobVerifierVerifyOptions{SignatureMediaType: f, TrustPolicyName: name, UserMetadata: map[string]string{"k": "v"}}, ContentMediaType: mt})
					if err == nil {
						checkPair("notation.VerifyBlob", cid, out, err, false, in)
					} else if out != nil {
						out.UserMetadata()
					}
				})
			}
		case ep <= 9: // policy documents: decode, validate, select, construct a verifier
			base := policyOCI
			if rng.Bool() {
				base = policyBlob
			}
			in := mutateJSON(rng, base)
			if rng.Intn(3) == 0 {
				// vocabulary-aware edit: the signatureVerification member takes every combination of the words the
				// specification knows (and near misses), with and without the stores / identities a skip statement must not have
				var doc map[string]any
				json.Unmarshal(base, &doc)
				st := doc["trustPolicies"].([]any)[0].(map[string]any)
				sv := map[string]any{"level": []any{"strict", "permissive", "audit", "skip", "skip", "Skip", "", nil, 7}[rng.Intn(9)]}
				switch rng.Intn(4) {
				case 0:
					ov := map[string]any{}
					for k := 0; k < 1+rng.Intn(3); k++ {
						ov[[]string{"integrity", "authenticity", "authenticTimestamp", "expiry", "revocation", "Revocation", ""}[rng.Intn(7)]] = []any{"enforce", "log", "skip", "Skip", "", nil}[rng.Intn(6)]
					}
					sv["override"] = ov
				case 1:
					sv["override"] = map[string]any{}
				case 2:
					sv["override"] = nil
				}
				if rng.Intn(3) == 0 {
					sv["verifyTimestamp"] = []any{"always", "afterCertExpiry", "never", "", nil}[rng.Intn(5)]
				}
				st["signatureVerification"] = sv
				if rng.Bool() {
					delete(st, "trustStores")
					delete(st, "trustedIdentities")
				}
				if rng.Intn(3) == 0 {
					delete(st, "globalPolicy") // (blob documents: a named statement; an OCI statement has no such member)
				}
				in, _ = json.Marshal(doc)
				if rng.Intn(4) == 0 {
					in = mutateJSON(rng, in)
				}
			}
			if rng.Intn(12) == 0 {
				in = [][]byte{deepNest(15000, `{"trustPolicies":[`, `]}`), []byte(`{"version":"1.0","trustPolicies":null}`), []byte(`{"version":"1.0","trustPolicies":[null]}`), []byte(`null`), rng.Bytes(200)}[rng.Intn(5)]
			}
			run("trustpolicy documents", id, in, func() {
				var od trustpolicy.OCIDocument
				var bd trustpolicy.BlobDocument
				if json.Unmarshal(in, &od) == nil {
					verr := od.Validate()
					say(verr)
					for _, ref := range []string{"r.io/a@sha256:" + strings.Repeat("a", 64), "", "@", "*", "r.io/a", "\x00@\x00"} {
						od.GetApplicableTrustPolicy(ref)
					}
					for i := range od.TrustPolicies {
						od.TrustPolicies[i].SignatureVerification.GetVerificationLevel()
					}
					if v, err := verifier.NewVerifierWithOptions(ts, verifier.VerifierOptions{OCITrustPolicy: &od}); err == nil {
						if verr != nil {
							viol("invalid-policy-accepted", "NewVerifierWithOptions", "a document that fails Validate was accepted by NewVerifierWithOptions", map[string]any{"document": string(in)})
						}
						out, e := v.Verify(ctx, desc, valid[lib.MediaJWS], notation.VerifierVerifyOptions{ArtifactReference: "r.io/a@" + desc.Digest.String(), SignatureMediaType: lib.MediaJWS})
						_, _ = out, e
						// ... and through the top-level entry point, which first asks the verifier whether the statement skips
						notation.Verify(ctx, v, scriptedRepo{desc, valid[lib.MediaJWS], lib.MediaJWS}, notation.VerifyOptions{ArtifactReference: "r.io/a@" + desc.Digest.String(), MaxSignatureAttempts: 2})
					}
				}
				if json.Unmarshal(in, &bd) == nil {
					bd.Validate()
					bd.GetGlobalTrustPolicy()
					e1(bd.GetApplicableTrustPolicy("p"))
					e1(bd.GetApplicableTrustPolicy(""))
					if v, err := verifier.NewVerifierWithOptions(ts, verifier.VerifierOptions{BlobTrustPolicy: &bd}); err == nil {
						v.VerifyBlob(ctx, func(alg digest.Algorithm) (ocispec.Descriptor, error) { return blobDesc, nil }, valid[lib.MediaJWS+"|blob"], notation.BlobVerifierVerifyOptions{SignatureMediaType: lib.MediaJWS})
					}
					// the same hostile blob document NEXT TO a good OCI document (a verifier is usually given both)
					bverr := bd.Validate()
					goodOCI := lib.OCIPolicy(trustpolicy.SignatureVerification{VerificationLevel: "strict"}, []string{"ca:x"}, []string{"*"})
					if v, err := verifier.NewVerifierWithOptions(ts, verifier.VerifierOptions{OCITrustPolicy: goodOCI, BlobTrustPolicy: &bd}); err == nil {
						if bverr != nil {
							viol("invalid-policy-accepted", "NewVerifierWithOptions", "a blob document that fails Validate was accepted by NewVerifierWithOptions next to a valid OCI document", map[string]any{"document": string(in)})
						}
						for _, name := range []string{"", "named", "p"} {
							out, e := v.VerifyBlob(ctx, func(alg digest.Algorithm) (ocispec.Descriptor, error) { return blobDesc, nil }, valid[lib.MediaJWS+"|blob"], notation.BlobVerifierVerifyOptions{SignatureMediaType: lib.MediaJWS, TrustPolicyName: name})
							say(e)
							_ = out
						}
					}
				}
			})
		case ep <= 11: // files: policy / config / signing keys loaders
			which := rng.Intn(5)
			var in []byte
			var file string
			switch which {
			case 0:
				in, file = mutateJSON(rng, policyOCI), dir.PathOCITrustPolicy
			case 1:
				in, file = mutateJSON(rng, policyOCI), dir.PathTrustPolicy
			case 2:
				in, file = mutateJSON(rng, policyBlob), dir.PathBlobTrustPolicy
			case 3:
				in, file = mutateJSON(rng, signingKeys), dir.PathSigningKeys
			default:
				in, file = mutateJSON(rng, configJSON), dir.PathConfigFile
			}
			if rng.Intn(10) == 0 {
				in = [][]byte{nil, []byte("null"), []byte("[]"), rng.Bytes(300), deepNest(12000, "[", "]")}[rng.Intn(5)]
			}
			run("file loaders", id+" "+file, in, func() {
				for _, f := range []string{dir.PathOCITrustPolicy, dir.PathTrustPolicy, dir.PathBlobTrustPolicy, dir.PathSigningKeys, dir.PathConfigFile} {
					os.Remove(filepath.Join(cfgDir, f))
				}
				os.WriteFile(filepath.Join(cfgDir, file), in, 0o600)
				switch which {
				case 0, 1:
					if d, err := trustpolicy.LoadOCIDocument(); err == nil && d != nil {
						d.Validate()
					}
					trustpolicy.LoadDocument()
					verifier.NewOCIVerifierFromConfig()
					verifier.NewFromConfig()
				case 2:
					if d, err := trustpolicy.LoadBlobDocument(); err == nil && d != nil {
						d.Validate()
					}
					verifier.NewBlobVerifierFromConfig()
				case 3:
					sk, err := config.LoadSigningKeys()
					if err == nil && sk != nil {
						sk.Get("k1")
						sk.Get("")
						sk.GetDefault()
						sk.UpdateDefault("k2")
						sk.UpdateDefault("nope")
						sk.Add("new", "/k", "/c", true)
						sk.Add("", "", "", false)
						sk.Remove("k1", "k1", "zz")
						sk.Remove()
						sk.GetDefault()
						sk.Save()
					}
					config.LoadExecSaveSigningKeys(func(k *config.SigningKeys) error { k.Remove("k2"); return nil })
					// several names in one call, the default key among them (first, in the middle, last), in the file's order and reversed
					for variant := 0; variant < 4; variant++ {
						if sk2, err := config.LoadSigningKeys(); err == nil && sk2 != nil {
							var names []string
							for _, k := range sk2.Keys {
								names = append(names, k.Name)
							}
							if sk2.Default != nil {
								switch variant {
								case 0:
									names = append([]string{*sk2.Default}, names...)
								case 1:
									names = append(names, *sk2.Default)
								case 2:
									for a, b := 0, len(names)-1; a < b; a, b = a+1, b-1 {
										names[a], names[b] = names[b], names[a]
									}
								}
							}
							sk2.Remove(names...)
							sk2.GetDefault()
							sk2.UpdateDefault("k1")
						}
					}
					config.LoadExecSaveSigningKeys(func(k *config.SigningKeys) error { k.Remove("k1", "k2", "k3"); return nil })
					for _, order := range [][]string{{"k1", "k2"}, {"k2", "k1", "k3"}, {"k3", "k2", "k1"}, {"k2", "k2"}, {"k1", "", "k2"}} {
						def := []string{"k1", "k2", "k3"}[rng.Intn(3)]
						mem := &config.SigningKeys{Default: &def, Keys: []config.KeySuite{{Name: "k1"}, {Name: "k2"}, {Name: "k3"}}}
						mem.Remove(order...)
						mem.GetDefault()
					}
				default:
					if c, err := config.LoadConfig(); err == nil && c != nil {
						c.Save()
					}
				}
			})
		case ep <= 13: // registry client over a hostile OCI layout
			layout := filepath.Join(outDir, fmt.Sprintf("layout-%d", batch))
			os.RemoveAll(layout)
			manifest := []byte(fmt.Sprintf(`{"schemaVersion":2,"mediaType":"application/vnd.oci.image.manifest.v1+json","config":{"mediaType":"application/vnd.cncf.notary.signature","digest":"sha256:44136fa355b3678a1146ad16f7e8649e94fb4fc21fe77e8310c060f61caaff8a","size":2},"layers":[{"mediaType":"application/jose+json","digest":"%s","size":%d}],"subject":{"mediaType":"application/vnd.oci.image.manifest.v1+json","digest":"%s","size":%d},"annotations":{"a":"b"}}`, digest.FromBytes(blob), len(blob), desc.Digest, desc.Size))
			in := mutateJSON(rng, manifest)
			if rng.Intn(4) == 0 {
				// a well-formed signature manifest whose layer DECLARES an absurd size (the blob itself is tiny)
				huge := []string{"1125899906842624", "9223372036854775807", "-1", "33554433", "4611686018427387904", "18446744073709551615", "1e30"}[rng.Intn(7)]
				in = bytes.Replace(manifest, []byte(fmt.Sprintf(`"size":%d}],"subject"`, len(blob))), []byte(`"size":`+huge+`}],"subject"`), 1)
			}
			run("registry over hostile layout", id, in, func() {
				os.MkdirAll(filepath.Join(layout, "blobs", "sha256"), 0o755)
				os.WriteFile(filepath.Join(layout, "oci-layout"), []byte(`{"imageLayoutVersion":"1.0.0"}`), 0o644)
				put := func(b []byte) digest.Digest {
					d := digest.FromBytes(b)
					os.WriteFile(filepath.Join(layout, "blobs", "sha256", d.Encoded()), b, 0o644)
					return d
				}
				put(blob)
				put([]byte("{}"))
				art := put([]byte("c12"))
				md := put(in)
				idx := fmt.Sprintf(`{"schemaVersion":2,"manifests":[{"mediaType":"application/vnd.oci.image.manifest.v1+json","digest":"%s","size":%d,"annotations":{"org.opencontainers.image.ref.name":"v1"}},{"mediaType":"%s","digest":"%s","size":%d}]}`,
					art, 3, []string{"application/vnd.oci.image.manifest.v1+json", "application/vnd.oci.artifact.manifest.v1+json", "x/y"}[rng.Intn(3)], md, []int{len(in), len(in), 5 << 20, -1}[rng.Intn(4)])
				if rng.Intn(6) == 0 {
					idx = string(mutateJSON(rng, []byte(idx)))
				}
				os.WriteFile(filepath.Join(layout, "index.json"), []byte(idx), 0o644)
				repo, err := registry.NewOCIRepository(layout, registry.RepositoryOptions{})
				if err != nil {
					return
				}
				e1(repo.Resolve(ctx, "v1"))
				e1(repo.Resolve(ctx, md.String()))
				mdDesc := ocispec.Descriptor{MediaType: ocispec.MediaTypeImageManifest, Digest: md, Size: int64(len(in))}
				e2(repo.FetchSignatureBlob(ctx, mdDesc))
				mdDesc.MediaType = "application/vnd.oci.artifact.manifest.v1+json"
				e2(repo.FetchSignatureBlob(ctx, mdDesc))
				repo.ListSignatures(ctx, desc, func(ds []ocispec.Descriptor) error {
					for _, d := range ds {
						e2(repo.FetchSignatureBlob(ctx, d))
					}
					return nil
				})
				v := mkVerifier("both", "strict", nil)
				e2(notation.Verify(ctx, v, repo, notation.VerifyOptions{ArtifactReference: "r.io/a@" + desc.Digest.String(), MaxSignatureAttempts: 3}))
			})
		case ep == 14: // CRL cache and trust store files
			in := rng.Bytes(rng.Intn(600))
			if rng.Bool() {
				in = mutateJSON(rng, []byte(`{"baseCRL":"MIIB","deltaCRL":"MIIB"}`))
			}
			if rng.Intn(3) == 0 {
				// a REAL entry (fresh base CRL) whose members take every degenerate value: the code behind the base CRL's
				// parsing is only reached when the base CRL parses
				goodB64 := base64.StdEncoding.EncodeToString(lib.MintCRL(771, time.Now().Add(time.Hour), 0).Raw)
				oldB64 := base64.StdEncoding.EncodeToString(lib.MintCRL(772, time.Now().Add(-time.Hour), 0).Raw)
				vals := []any{goodB64, oldB64, "", " ", "=", "====", nil, "MIIB", base64.StdEncoding.EncodeToString([]byte("not a crl")), goodB64 + "\n", []any{}, map[string]any{}, 0, false, goodB64[:len(goodB64)/2]}
				doc := map[string]any{"baseCRL": goodB64}
				if rng.Intn(6) == 0 {
					doc["baseCRL"] = vals[rng.Intn(len(vals))]
				}
				if rng.Intn(8) != 0 {
					doc["deltaCRL"] = vals[rng.Intn(len(vals))]
				}
				if rng.Intn(5) == 0 {
					doc[[]string{"DeltaCRL", "deltacrl", "extra", "baseCrl"}[rng.Intn(4)]] = vals[rng.Intn(len(vals))]
				}
				in, _ = json.Marshal(doc)
			}
			run("crl cache / trust store files", id, in, func() {
				cdir := filepath.Join(outDir, fmt.Sprintf("crl-%d", batch))
				c, err := crl.NewFileCache(cdir)
				if err != nil {
					return
				}
				say(c.Set(ctx, "u", &corecrl.Bundle{}))
				say(c.Set(ctx, "u", nil))
				os.WriteFile(filepath.Join(cdir, "0bfe935e70c321c7ca3afc75ce0d0ca2f98b5422e008bb31c00c6d7f1f1c0ad6"), in, 0o644)
				e1(c.Get(ctx, "u"))
				tdir := filepath.Join(outDir, fmt.Sprintf("ts-%d", batch))
				os.MkdirAll(filepath.Join(tdir, "truststore", "x509", "ca", "s"), 0o755)
				os.WriteFile(filepath.Join(tdir, "truststore", "x509", "ca", "s", "c.crt"), in, 0o644)
				e1(truststore.NewX509TrustStore(dir.NewSysFS(tdir)).GetCertificates(ctx, "ca", "s"))
				say(truststore.ValidateCertificates(nil))
				say(truststore.ValidateCertificates([]*x509.Certificate{}))
			})
		case ep == 15: // proto codecs
			s := string(rng.Bytes(rng.Intn(12)))
			if rng.Bool() {
				s = []string{"EC-256", "RSA-2048", "EC-", "RSA-0", "", "ec-256", "RSA-99999999999999999999", "SHA-256", "RSASSA-PSS-SHA-256", "ECDSA-SHA-512"}[rng.Intn(10)]
			}
			run("plugin/proto codecs", id+" "+fmt.Sprintf("%q", s), []byte(s), func() {
				ks, err := proto.DecodeKeySpec(pf.KeySpec(s))
				if err == nil {
					proto.EncodeKeySpec(ks)
					proto.HashAlgorithmFromKeySpec(ks)
				}
				proto.EncodeKeySpec(signature.KeySpec{Type: signature.KeyType(rng.Intn(5)), Size: rng.Intn(9000)})
				proto.HashAlgorithmFromKeySpec(signature.KeySpec{Type: signature.KeyType(rng.Intn(5)), Size: rng.Intn(9000)})
				if a, err := proto.DecodeSigningAlgorithm(pf.SignatureAlgorithm(s)); err == nil {
					proto.EncodeSigningAlgorithm(a)
				}
				proto.EncodeSigningAlgorithm(signature.Algorithm(rng.Intn(12)))
			})
		case ep <= 17: // plugin-backed signer with hostile plugin answers
			in, f, cls := envelopeInput()
			hp := &hostilePlugin{meta: pf.GetMetadataResponse{Name: "p", Version: "1.0.0", Capabilities: [][]pf.Capability{{pf.CapabilityEnvelopeGenerator}, {pf.CapabilitySignatureGenerator}, {}, {"X"}}[rng.Intn(4)]},
				dk: pf.DescribeKeyResponse{KeyID: []string{"k", ""}[rng.Intn(2)], KeySpec: pf.KeySpec([]string{"EC-256", "RSA-2048", "", "bogus"}[rng.Intn(4)])},
				gs: pf.GenerateSignatureResponse{KeyID: "k", Signature: rng.Bytes(rng.Intn(100)), SigningAlgorithm: pf.SignatureAlgorithm([]string{"ECDSA-SHA-256", "", "x"}[rng.Intn(3)]), CertificateChain: [][][]byte{nil, {}, {good.Cert.Raw}, {rng.Bytes(30)}, {good.Cert.Raw, good.Cert.Raw}, {nil}}[rng.Intn(6)]},
				ge: pf.GenerateEnvelopeResponse{SignatureEnvelope: in, SignatureEnvelopeType: []string{f, "", "x"}[rng.Intn(3)], Annotations: map[string]string{"a": "b"}}}
			if rng.Intn(60) == 0 {
				// a VALIDLY signed COSE envelope whose payload is nothing but nesting, half a million levels deep
				deep := deepNest(500000, "[", "]")
				if rng.Bool() {
					deep = append(append([]byte(`{"targetArtifact":`), deepNest(400000, `{"a":`, "}")...), '}')
				}
				if raw, err := lib.CoreSign(lib.SignSpec{Format: lib.MediaCOSE, Payload: deep, Signer: good}); err == nil {
					in, f, cls = raw, lib.MediaCOSE, "validly-signed-deeply-nested-payload"
					hp.meta.Capabilities = []pf.Capability{pf.CapabilityEnvelopeGenerator}
					hp.ge = pf.GenerateEnvelopeResponse{SignatureEnvelope: raw, SignatureEnvelopeType: lib.MediaCOSE}
					res.Events["deeply-nested-signed-payloads"]++
				}
			}
			run("signer.PluginSigner", id+" "+cls, in, func() {
				ps, err := signer.NewPluginSigner(hp, "k", nil)
				if err != nil {
					return
				}
				d := desc
				if rng.Bool() {
					d.Annotations = map[string]string{"x": "y"}
				}
				e2(ps.Sign(ctx, d, notation.SignerSignOptions{SignatureMediaType: f}))
				e2(ps.SignBlob(ctx, func(alg digest.Algorithm) (ocispec.Descriptor, error) { return blobDesc, nil }, notation.SignerSignOptions{SignatureMediaType: f}))
				ps.PluginAnnotations()
			})
		case ep == 18 && i%3 == 2: // signer construction from hostile key / certificate files
			keyPEM, _ := x509.MarshalPKCS8PrivateKey(good.Key)
			kp := pemBlock("PRIVATE KEY", keyPEM)
			cp := append(lib.PEMCert(good.Cert), lib.PEMCert(good.Root().Cert)...)
			switch rng.Intn(5) {
			case 0:
				kp = mutateBytes(rng, kp)
			case 1:
				cp = mutateBytes(rng, cp)
			case 2:
				kp, cp = cp, kp
			case 3:
				cp = lib.PEMCert(good.Root().Cert) // chain that does not match the key
			}
			in := append(append([]byte{}, kp...), cp...)
			run("signer from key/certificate files", id, in, func() {
				kf, cf := filepath.Join(cfgDir, "k.pem"), filepath.Join(cfgDir, "c.pem")
				os.WriteFile(kf, kp, 0o600)
				os.WriteFile(cf, cp, 0o600)
				if sg, err := signer.NewGenericSignerFromFiles(kf, cf); err == nil && sg != nil {
					sg.Sign(ctx, desc, notation.SignerSignOptions{SignatureMediaType: lib.Formats[rng.Intn(2)]})
				}
				signer.NewFromFiles(kf, cf)
				signer.NewGenericSignerFromFiles(kf, filepath.Join(cfgDir, "missing.pem"))
				signer.NewGenericSigner(nil, nil)
				signer.NewGenericSigner(good.Key, nil)
				signer.NewPluginSigner(nil, "", nil)
			})
		case ep == 18 && i%3 == 1: // every way to configure the revocation validators x constructors, with a countersigned envelope
			f := lib.Formats[rng.Intn(2)]
			in := stamped[f]
			if rng.Intn(3) == 0 {
				in = mutateBytes(rng, in)
			}
			variant, ctor := rng.Intn(9), rng.Intn(3)
			level := []string{"strict", "permissive", "audit"}[rng.Intn(3)]
			run("revocation validator configurations", fmt.Sprintf("%s variant=%d constructor=%d %s", id, variant, ctor, level), in, func() {
				opts := verifier.VerifierOptions{}
				switch variant {
				case 0:
					opts.RevocationClient = lib.OKRevLegacy{}
				case 1:
					opts.RevocationCodeSigningValidator = lib.OKRev{}
				case 2:
					opts.RevocationTimestampingValidator = lib.OKRev{}
				case 3:
					opts.RevocationClient, opts.RevocationTimestampingValidator = lib.OKRevLegacy{}, lib.OKRev{}
				case 4:
					opts.RevocationClient, opts.RevocationCodeSigningValidator = lib.OKRevLegacy{}, lib.OKRev{}
				case 6: // validators whose answer does not line up with the chain (longer, shorter, empty, nil entries, nil)
					opts.RevocationCodeSigningValidator, opts.RevocationTimestampingValidator = oddRev{rng.Intn(6)}, lib.OKRev{}
				case 7:
					opts.RevocationCodeSigningValidator, opts.RevocationTimestampingValidator = lib.OKRev{}, oddRev{rng.Intn(6)}
				case 8:
					opts.RevocationClient, opts.RevocationTimestampingValidator = oddRev{rng.Intn(6)}, oddRev{rng.Intn(6)}
				}
				doc := lib.OCIPolicy(trustpolicy.SignatureVerification{VerificationLevel: level, VerifyTimestamp: []trustpolicy.TimestampOption{"", "always", "afterCertExpiry"}[rng.Intn(3)]}, []string{"ca:x", "tsa:t"}, []string{"*"})
				mts := lib.NewMemTS().Put("ca:x", good.Root().Cert).Put("tsa:t", tsaRoot.Cert)
				var v notation.Verifier
				var err error
				switch ctor {
				case 0:
					opts.OCITrustPolicy = doc
					v, err = verifier.NewVerifierWithOptions(mts, opts)
				case 1:
					v, err = verifier.NewWithOptions(doc, mts, nil, opts)
				default:
					v, err = verifier.New(doc, mts, nil)
				}
				if err != nil || v == nil {
					return
				}
				out, verr := v.Verify(ctx, desc, in, notation.VerifierVerifyOptions{ArtifactReference: "r.io/a@" + desc.Digest.String(), SignatureMediaType: f})
				checkPair("revocation validator configurations", id, out, verr, true, in)
			})
		case ep == 18 && i%3 == 0: // the real process runner with hostile plugin stdout / stderr (scripted worker as plugin executable)
			workerBin := filepath.Join(os.Getenv("VERIF_BIN"), "worker")
			if _, err := os.Stat(workerBin); err != nil {
				res.Events["worker-missing"]++
				continue
			}
			replies := []string{`{"name":"fz","description":"d","version":"1.0.0","url":"u","supportedContractVersions":["1.0"],"capabilities":["SIGNATURE_GENERATOR.RAW"]}`,
				`{"keyId":"k","keySpec":"EC-256"}`, `{"keyId":"k","signature":"c2ln","signingAlgorithm":"ECDSA-SHA-256","certificateChain":["Y2VydA=="]}`,
				`{"signatureEnvelope":"ZW52","signatureEnvelopeType":"application/jose+json","annotations":{"a":"b"}}`, `{"verificationResults":{"SIGNATURE_VERIFIER.REVOCATION_CHECK":{"success":true,"reason":"r"}},"processedAttributes":["a",1,null]}`}
			var stdout []byte
			switch rng.Intn(4) {
			case 0:
				stdout = rng.Bytes(rng.Intn(300))
			case 1:
				stdout = deepNest(15000, "[", "]")
			default:
				stdout = mutateJSON(rng, []byte(replies[rng.Intn(len(replies))]))
			}
			stderr := []byte(`{"errorCode":"VALIDATION_ERROR","errorMessage":"m","errorMetadata":{"k":"v"}}`)
			if rng.Bool() {
				stderr = mutateJSON(rng, stderr)
			} else if rng.Intn(3) == 0 {
				// structured errors with only some of the three members (a code without message, a message without code, ...)
				stderr = []byte([]string{`{"errorCode":"THROTTLED"}`, `{"errorMessage":"only a message"}`, `{"errorCode":"ERROR","errorMessage":""}`, `{"errorCode":"","errorMessage":"m"}`, `{"errorMetadata":{"k":"v"}}`, `{"errorCode":"THROTTLED","errorMessage":"m"}`}[rng.Intn(6)])
			}
			exit := []int{0, 0, 1, 3}[rng.Intn(4)]
			in := append(append([]byte{}, stdout...), stderr...)
			run("plugin.CLIPlugin over a real process", id, in, func() {
				pdir := filepath.Join(outDir, fmt.Sprintf("plugin-%d", batch))
				os.MkdirAll(pdir, 0o755)
				exe := filepath.Join(pdir, "notation-fz")
				if _, err := os.Stat(exe); err != nil {
					if os.Link(workerBin, exe) != nil {
						b, _ := os.ReadFile(workerBin)
						os.WriteFile(exe, b, 0o755)
					}
				}
				beh, _ := json.Marshal(map[string]any{"*": map[string]any{"exit": exit, "stdout": string(stdout), "stderr": string(stderr)}})
				os.WriteFile(exe+".behavior.json", beh, 0o644)
				p, err := plugin.NewCLIPlugin(ctx, "fz", exe)
				if err != nil {
					return
				}
				md, merr := p.GetMetadata(ctx, &pf.GetMetadataRequest{})
				say(merr)
				if merr == nil && md != nil {
					md.HasCapability(pf.CapabilitySignatureGenerator)
				}
				e1(p.DescribeKey(ctx, &pf.DescribeKeyRequest{KeyID: "k"}))
				e1(p.GenerateSignature(ctx, &pf.GenerateSignatureRequest{KeyID: "k"}))
				e1(p.GenerateEnvelope(ctx, &pf.GenerateEnvelopeRequest{KeyID: "k"}))
				e1(p.VerifySignature(ctx, &pf.VerifySignatureRequest{}))
			})
		default: // top-level signing API with unusual options
			run("notation.Sign*", id, nil, func() {
				gs, _ := signer.NewGenericSigner(good.Key, good.Chain())
				opts := notation.SignerSignOptions{SignatureMediaType: []string{lib.MediaJWS, lib.MediaCOSE, "", "bad;;", "text/plain"}[rng.Intn(5)], ExpiryDuration: []time.Duration{0, -time.Second, 1500 * time.Millisecond, time.Hour}[rng.Intn(4)]}
				notation.SignBlob(ctx, gs, bytes.NewReader(blob), notation.SignBlobOptions{SignerSignOptions: opts, ContentMediaType: []string{"", "a/b", "bad;;"}[rng.Intn(3)], UserMetadata: map[string]string{"io.cncf.notary.x": "y"}})
				notation.SignBlob(ctx, nil, bytes.NewReader(blob), notation.SignBlobOptions{SignerSignOptions: opts, ContentMediaType: "a/b"})
				notation.SignBlob(ctx, gs, nil, notation.SignBlobOptions{SignerSignOptions: opts, ContentMediaType: "a/b"})
				notation.SignOCI(ctx, gs, nil, notation.SignOptions{SignerSignOptions: opts, ArtifactReference: "x"})
				notation.SignOCI(ctx, nil, scriptedRepo{desc, nil, ""}, notation.SignOptions{SignerSignOptions: opts})
				notation.SignOCI(ctx, gs, scriptedRepo{desc, nil, ""}, notation.SignOptions{SignerSignOptions: opts, ArtifactReference: []string{"", "@", "r.io/a@" + desc.Digest.String(), ":::", "v1"}[rng.Intn(5)]})
				notation.Verify(ctx, nil, nil, notation.VerifyOptions{})
				notation.VerifyBlob(ctx, nil, nil, nil, notation.VerifyBlobOptions{})
				verifier.NewVerifierWithOptions(nil, verifier.VerifierOptions{})
				verifier.NewVerifierWithOptions(ts, verifier.VerifierOptions{})
				// one argument absent / degenerate at a time, all the others good (each guard is reached only when the ones before it pass)
				vv := mkVerifier("both", levelNames[rng.Intn(4)], nil)
				bv := vv.(notation.BlobVerifier)
				f := lib.Formats[rng.Intn(2)]
				vbo := notation.VerifyBlobOptions{BlobVerifierVerifyOptions: notation.BlobVerifierVerifyOptions{SignatureMediaType: f, TrustPolicyName: "named"}}
				notation.VerifyBlob(ctx, bv, nil, valid[f+"|blob"], vbo)
				notation.VerifyBlob(ctx, bv, bytes.NewReader(blob), nil, vbo)
				notation.VerifyBlob(ctx, bv, bytes.NewReader(blob), []byte{}, vbo)
				for _, mt := range []string{"", "bad;;", "text/plain", "application/jose+json; charset=utf-8"} {
					o := vbo
					o.SignatureMediaType = mt
					notation.VerifyBlob(ctx, bv, bytes.NewReader(blob), valid[f+"|blob"], o)
					o = vbo
					o.ContentMediaType = mt
					notation.VerifyBlob(ctx, bv, bytes.NewReader(blob), valid[f+"|blob"], o)
				}
				notation.VerifyBlob(ctx, bv, bytes.NewReader(blob), valid[f+"|blob"], notation.VerifyBlobOptions{})
				notation.Verify(ctx, vv, nil, notation.VerifyOptions{ArtifactReference: "r.io/a@" + desc.Digest.String(), MaxSignatureAttempts: 1})
				notation.Verify(ctx, nil, scriptedRepo{desc, nil, ""}, notation.VerifyOptions{ArtifactReference: "r.io/a@" + desc.Digest.String(), MaxSignatureAttempts: 1})
				for _, n := range []int{0, -1, 1} {
					notation.Verify(ctx, vv, scriptedRepo{desc, nil, ""}, notation.VerifyOptions{ArtifactReference: []string{"", "r.io/a@" + desc.Digest.String(), "r.io/a:v1", "a"}[rng.Intn(4)], MaxSignatureAttempts: n})
				}
				vv.Verify(ctx, desc, nil, notation.VerifierVerifyOptions{SignatureMediaType: f, ArtifactReference: "r.io/a@" + desc.Digest.String()})
				vv.Verify(ctx, ocispec.Descriptor{}, valid[f], notation.VerifierVerifyOptions{SignatureMediaType: f, ArtifactReference: "r.io/a@" + desc.Digest.String()})
				vv.Verify(ctx, desc, valid[f], notation.VerifierVerifyOptions{SignatureMediaType: f})
				vv.Verify(ctx, desc, valid[f], notation.VerifierVerifyOptions{ArtifactReference: "r.io/a@" + desc.Digest.String()})
				bv.VerifyBlob(ctx, func(alg digest.Algorithm) (ocispec.Descriptor, error) { return blobDesc, nil }, nil, vbo.BlobVerifierVerifyOptions)
				bv.VerifyBlob(ctx, func(alg digest.Algorithm) (ocispec.Descriptor, error) {
					return ocispec.Descriptor{}, errors.New("no descriptor")
				}, valid[f+"|blob"], vbo.BlobVerifierVerifyOptions)
				bv.VerifyBlob(ctx, func(alg digest.Algorithm) (ocispec.Descriptor, error) { return blobDesc, nil }, valid[f+"|blob"], notation.BlobVerifierVerifyOptions{})
			})
		}
		if i%200 == 0 {
			flush()
		}
	}
	res.Distinct = res.Cases
	flush()
}

// say makes errors speak: every error value the library hands out must survive being printed, unwrapped and compared
// (fmt swallows a panic inside Error(); a caller that logs err.Error() does not).
func say(errs ...error) {
	for _, e := range errs {
		for depth := 0; e != nil && depth < 50; depth++ {
			_ = e.Error()
			errors.Is(e, context.Canceled)
			// ... and compared with the library's own error values, with and without a message on either side (the way a
			// caller tests for a code: errors.Is(err, proto.RequestError{Code: ...}))
			for _, code := range []pf.ErrorCode{pf.ErrorCodeThrottled, pf.ErrorCodeGeneric, ""} {
				errors.Is(e, proto.RequestError{Code: code})
				errors.Is(e, proto.RequestError{Code: code, Err: errors.New("m")})
				errors.Is(proto.RequestError{Code: code}, e)
				errors.Is(proto.RequestError{Code: code, Err: errors.New("m")}, e)
			}
			var re proto.RequestError
			if errors.As(e, &re) {
				errors.Is(e, proto.RequestError{Code: re.Code})
				errors.Is(proto.RequestError{Code: re.Code}, e)
				errors.Is(e, proto.RequestError{Code: re.Code, Err: errors.New("another message")})
			}
			e = errors.Unwrap(e)
		}
	}
}
func e1[A any](_ A, err error)         { say(err) }
func e2[A, B any](_ A, _ B, err error) { say(err) }

func pemBlock(typ string, der []byte) []byte {
	return pem.EncodeToMemory(&pem.Block{Type: typ, Bytes: der})
}

func sortStrings(s []string) {
	for i := range s {
		for j := i + 1; j < len(s); j++ {
			if s[j] < s[i] {
				s[i], s[j] = s[j], s[i]
			}
		}
	}
}

// ---------------------------------------------------------------- driver

func main() {
	if len(os.Args) > 1 && os.Args[1] == "child" {
		batch, _ := strconv.Atoi(os.Args[2])
		seed, _ := strconv.ParseInt(os.Args[3], 10, 64)
		child(batch, seed, os.Args[4], os.Args[5])
		return
	}
	r := lib.Start("C12", "exploration")
	r.Rule = "hostile cases against the public entry points, one child process per batch: verifier.Verify/VerifyBlob and notation.Verify/VerifyBlob with random bytes, 1-3-edit and JSON-structure mutations of valid JWS/COSE envelopes (plain, plugin-demanding, with malformed/null payloads), deep nesting and hostile CBOR, crossed with verifier constructions (OCI+blob, OCI-only, blob-only), all four levels, named / global / skip-level / missing blob statements, nil and hostile plugin managers; grammar-mutated policy, signing-key and config JSON through decoders, validators, selectors and the file loaders; a hostile OCI layout (mutated signature manifests and index) through the registry client; CRL cache and trust store files; plugin/proto codecs; the plugin-backed signer with hostile plugin answers; the signing API with unusual options; distinct = every executed case (PRNG-generated, practically all different); non-trivial = all"
	r.Assumptions = []string{"panics caused by the caller's nil interface / nil pointer arguments to plugin methods are caller errors and not generated; in-process mocks returning (nil, nil) are not plugin output and not generated",
		"inputs are <= 4 MiB; the resource monitor aborts a child whose RSS exceeds 1 GiB; a case running longer than 120 s is a hang"}
	scratch := lib.TempDir("c12")
	r.OnExit(func() { os.RemoveAll(scratch) })
	batches := r.N(16, 64)
	exe, _ := os.Executable()
	type done struct {
		batch int
		err   error
	}
	ch := make(chan done)
	sem := make(chan struct{}, 16)
	for b := 0; b < batches; b++ {
		go func(b int) {
			sem <- struct{}{}
			defer func() { <-sem }()
			cmd := exec.Command(exe, "child", strconv.Itoa(b), strconv.FormatInt(r.Seed, 10), r.Tier, scratch)
			logf, _ := os.Create(filepath.Join(scratch, fmt.Sprintf("child-%d.log", b)))
			cmd.Stdout, cmd.Stderr = logf, logf
			cmd.Env = append(os.Environ(), "GOTRACEBACK=all")
			err := cmd.Start()
			if err == nil {
				w := make(chan error, 1)
				go func() { w <- cmd.Wait() }()
				select {
				case err = <-w:
				case <-time.After(25 * time.Minute):
					cmd.Process.Signal(syscall.SIGQUIT)
					time.Sleep(2 * time.Second)
					cmd.Process.Kill()
					err = errors.New("driver watchdog: child did not finish within 25 minutes")
				}
			}
			logf.Close()
			ch <- done{b, err}
		}(b)
	}
	for i := 0; i < batches; i++ {
		d := <-ch
		var br batchResult
		raw, _ := os.ReadFile(filepath.Join(scratch, fmt.Sprintf("result-%d.json", d.batch)))
		json.Unmarshal(raw, &br)
		for k := int64(0); k < br.Cases; k++ {
			r.Eval(fmt.Sprintf("b%d/%d", d.batch, k))
		}
		for k, v := range br.Events {
			r.EventN(k, v)
		}
		for _, v := range br.Violations {
			r.Violation(v.Sig, v.What, v.Witness)
		}
		if br.HWMKB > 0 {
			r.Extra[fmt.Sprintf("child_%d_peak_rss_kb", d.batch)] = br.HWMKB
		}
		if d.err != nil {
			journal, _ := os.ReadFile(filepath.Join(scratch, fmt.Sprintf("journal-%d.txt", d.batch)))
			input, _ := os.ReadFile(filepath.Join(scratch, fmt.Sprintf("input-%d.bin", d.batch)))
			abort, _ := os.ReadFile(filepath.Join(scratch, fmt.Sprintf("journal-%d.txt.abort", d.batch)))
			logb, _ := os.ReadFile(filepath.Join(scratch, fmt.Sprintf("child-%d.log", d.batch)))
			if len(logb) > 6000 {
				logb = logb[:6000]
			}
			if len(input) > 8192 {
				input = input[:8192]
			}
			kind := "child-died"
			if len(abort) > 0 {
				kind = "resource"
			}
			if strings.Contains(d.err.Error(), "watchdog") {
				r.Inconclusive(fmt.Sprintf("batch %d: %v (last case: %s)", d.batch, d.err, journal))
				continue
			}
			r.Violation(map[string]string{"kind": kind, "where": strings.SplitN(string(journal), " ", 2)[0]},
				fmt.Sprintf("child process of batch %d died (%v) %s; last journaled case: %s", d.batch, d.err, abort, journal),
				map[string]any{"last_case": string(journal), "input_prefix_base64": input, "child_output": string(logb)})
		}
	}
	// race reports of the children (thorough tier is built with -race)
	logs, _ := filepath.Glob(filepath.Join(os.Getenv("VERIF_BIN"), "race-C12.log*"))
	races := 0
	for _, l := range logs {
		b, _ := os.ReadFile(l)
		races += strings.Count(string(b), "WARNING: DATA RACE")
	}
	r.Extra["race_reports"] = races
	r.Extra["race_detector"] = os.Getenv("VERIF_RACE") != ""
	if races > 0 {
		r.Violation(map[string]string{"kind": "data-race"}, fmt.Sprintf("%d data races reported", races), nil)
	}
	r.RequireAtLeast("pair:error", 1000)
	r.RequireAtLeast("pair:no-error", 100)
	r.Finish()
}

// oddRev: a revocation validator (both interfaces) whose answer does not line up with the chain it was asked about.
type oddRev struct{ mode int }

func (o oddRev) vec(n int) []*result.CertRevocationResult {
	ok := func() *result.CertRevocationResult {
		return &result.CertRevocationResult{Result: result.ResultOK, ServerResults: []*result.ServerResult{{Result: result.ResultOK}}}
	}
	var out []*result.CertRevocationResult
	switch o.mode {
	case 0: // one more than certificates
		for i := 0; i <= n; i++ {
			out = append(out, ok())
		}
	case 1: // many more
		for i := 0; i < n+40; i++ {
			out = append(out, ok())
		}
	case 2: // one fewer
		for i := 0; i+1 < n; i++ {
			out = append(out, ok())
		}
	case 3:
		out = []*result.CertRevocationResult{}
	case 4: // nil entries
		out = make([]*result.CertRevocationResult, n)
	default: // an entry without server results and with a method nobody defined
		for i := 0; i < n; i++ {
			out = append(out, &result.CertRevocationResult{Result: result.Result(99), RevocationMethod: result.RevocationMethod(77)})
		}
	}
	return out
}
func (o oddRev) ValidateContext(ctx context.Context, opts revocation.ValidateContextOptions) ([]*result.CertRevocationResult, error) {
	return o.vec(len(opts.CertChain)), nil
}
func (o oddRev) Validate(certChain []*x509.Certificate, signingTime time.Time) ([]*result.CertRevocationResult, error) {
	return o.vec(len(certChain)), nil
}
