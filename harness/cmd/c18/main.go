// C18 — the signer never returns plugin output it has not checked against the request.
//
// A scripted plugin.SignPlugin with real keys answers PluginSigner.Sign / SignBlob
// honestly or with one or two deviations (adversarial script = ground truth).
// Whenever the signer returns (signature, info, nil) the returned bytes are
// inspected INDEPENDENTLY (reference verifier + own JSON decoding); a panic is
// a violation; honest answers must succeed (vacuity guard).
package main

import (
	"bytes"
	"context"
	"crypto/x509"
	"encoding/asn1"
	"encoding/json"
	"errors"
	"fmt"
	"math/big"
	"sort"
	"strings"
	"time"

	"github.com/notaryproject/notation-core-go/signature"
	"github.com/notaryproject/notation-go"
	"github.com/notaryproject/notation-go/signer"
	"github.com/notaryproject/notation-go/verifharness/lib"
	pf "github.com/notaryproject/notation-plugin-framework-go/plugin"
	"github.com/opencontainers/go-digest"
	ocispec "github.com/opencontainers/image-spec/specs-go/v1"
)

type script struct {
	mode        string // envelope | raw
	ent         *lib.Ent
	other       *lib.Ent
	keySpecName string
	// envelope deviations
	mutate  func([]byte) []byte
	cty     string
	echoFmt string
	realFmt string
	corrupt bool
	// raw deviations
	describeKeyID string
	describeSpec  string
	genKeyID      string
	chain         string // "", other, empty, invalid-der, leaf-only-of-other, reversed
	corruptRaw    bool
	rawSig        func(honest []byte) []byte // non-nil: what is answered instead of the honest raw signature
	annotations   map[string]string
	caps          []pf.Capability // non-nil: what the metadata declares instead of the generator capability
	failAt        string          // command that answers with an error instead of a reply
}

func (p *script) GetMetadata(ctx context.Context, req *pf.GetMetadataRequest) (*pf.GetMetadataResponse, error) {
	caps := []pf.Capability{pf.CapabilityEnvelopeGenerator}
	if p.mode == "raw" {
		caps = []pf.Capability{pf.CapabilitySignatureGenerator}
	}
	if p.caps != nil {
		caps = p.caps
	}
	if p.failAt == "get-plugin-metadata" {
		return nil, errors.New("scripted plugin: metadata unavailable")
	}
	return &pf.GetMetadataResponse{Name: "scripted", Description: "d", Version: "1.0.0", URL: "u", SupportedContractVersions: []string{"1.0"}, Capabilities: caps}, nil
}
func (p *script) DescribeKey(ctx context.Context, req *pf.DescribeKeyRequest) (*pf.DescribeKeyResponse, error) {
	if p.failAt == "describe-key" {
		return nil, errors.New("scripted plugin: describe-key failed")
	}
	id := req.KeyID
	if p.describeKeyID != "" {
		id = p.describeKeyID
	}
	spec := p.keySpecName
	if p.describeSpec != "" {
		spec = p.describeSpec
	}
	switch p.describeSpec {
	case "leading-zero": // RSA-02048, EC-0256: not one of the key specs the contract names
		spec = strings.Replace(p.keySpecName, "-", "-0", 1)
	case "plus-sign":
		spec = strings.Replace(p.keySpecName, "-", "-+", 1)
	case "lower-case":
		spec = strings.ToLower(p.keySpecName)
	}
	return &pf.DescribeKeyResponse{KeyID: id, KeySpec: pf.KeySpec(spec)}, nil
}
func (p *script) GenerateSignature(ctx context.Context, req *pf.GenerateSignatureRequest) (*pf.GenerateSignatureResponse, error) {
	if p.failAt == "generate-signature" {
		return nil, errors.New("scripted plugin: generate-signature failed")
	}
	sig, certs := lib.RawSign(p.ent, req.Payload), p.ent.Chain()
	if p.corruptRaw {
		sig = append([]byte(nil), sig...)
		sig[len(sig)/2] ^= 0x40
	}
	if p.rawSig != nil {
		sig = p.rawSig(sig)
	}
	var chain [][]byte
	switch p.chain {
	case "":
		for _, c := range certs {
			chain = append(chain, c.Raw)
		}
	case "other":
		for _, c := range p.other.Chain() {
			chain = append(chain, c.Raw)
		}
	case "empty":
	case "invalid-der":
		chain = [][]byte{[]byte("not a certificate")}
	case "reversed":
		for i := len(certs) - 1; i >= 0; i-- {
			chain = append(chain, certs[i].Raw)
		}
	}
	id := req.KeyID
	if p.genKeyID != "" {
		id = strings.TrimPrefix(p.genKeyID, "\x00empty")
	}
	alg := map[string]pf.SignatureAlgorithm{"EC-256": pf.SignatureAlgorithmECDSA_SHA256, "EC-384": pf.SignatureAlgorithmECDSA_SHA384, "EC-521": pf.SignatureAlgorithmECDSA_SHA512,
		"RSA-2048": pf.SignatureAlgorithmRSASSA_PSS_SHA256, "RSA-3072": pf.SignatureAlgorithmRSASSA_PSS_SHA384, "RSA-4096": pf.SignatureAlgorithmRSASSA_PSS_SHA512}[p.keySpecName]
	return &pf.GenerateSignatureResponse{KeyID: id, Signature: sig, SigningAlgorithm: alg, CertificateChain: chain}, nil
}
func (p *script) GenerateEnvelope(ctx context.Context, req *pf.GenerateEnvelopeRequest) (*pf.GenerateEnvelopeResponse, error) {
	payload := req.Payload
	if p.mutate != nil {
		payload = p.mutate(payload)
	}
	cty := req.PayloadType
	if p.cty != "" {
		cty = p.cty
	}
	f := req.SignatureEnvelopeType
	if p.realFmt != "" {
		f = p.realFmt
	}
	raw, err := lib.CoreSign(lib.SignSpec{Format: f, Payload: payload, ContentType: cty, Signer: p.ent, SigningTime: time.Now().Add(-time.Minute)})
	if err != nil {
		return nil, err
	}
	if p.corrupt {
		raw = append([]byte(nil), raw...)
		raw[len(raw)*2/3] ^= 0x01
	}
	echo := req.SignatureEnvelopeType
	if p.echoFmt != "" {
		echo = p.echoFmt
	}
	return &pf.GenerateEnvelopeResponse{SignatureEnvelope: raw, SignatureEnvelopeType: echo, Annotations: p.annotations}, nil
}
func (p *script) VerifySignature(ctx context.Context, req *pf.VerifySignatureRequest) (*pf.VerifySignatureResponse, error) {
	return nil, errors.New("not a verifier")
}

func edit(f func(m map[string]any)) func([]byte) []byte {
	return func(b []byte) []byte {
		var m map[string]any
		json.Unmarshal(b, &m)
		f(m)
		out, _ := json.Marshal(m)
		return out
	}
}
func ta(m map[string]any) map[string]any {
	t, _ := m["targetArtifact"].(map[string]any)
	if t == nil {
		t = map[string]any{}
	}
	return t
}
func ann(m map[string]any) map[string]any {
	a, _ := ta(m)["annotations"].(map[string]any)
	if a == nil {
		a = map[string]any{}
		ta(m)["annotations"] = a
	}
	return a
}
func respell(from, to string) func([]byte) []byte {
	return func(b []byte) []byte { return []byte(strings.Replace(string(b), `"`+from+`"`, `"`+to+`"`, 1)) }
}

type deviation struct {
	name      string
	mode      string
	apply     func(s *script)
	mustError bool // ground truth: this answer must never be returned as a signature
}

var knownDescKeys = map[string]bool{"mediaType": true, "digest": true, "size": true, "urls": true, "annotations": true, "data": true, "platform": true, "artifactType": true}

func main() {
	r := lib.Start("C18", "exploration")
	r.Rule = "scripted plugin answers: honest + single deviations (37) and pairs of deviations, for key specs x {JWS, COSE} x {Sign (OCI descriptor), SignBlob} x {envelope-generator, signature-generator plugin}; quick: all deviations for EC-256 and RSA-2048 + honest answers for all six key specs, thorough: all six; distinct by (deviation(s), key spec, format, entry point); non-trivial = at least one deviation"
	r.Assumptions = []string{"notation-core-go is the reference verifier; duplicate JSON keys are ambiguous across parsers and not generated",
		"adding annotations or known descriptor fields (urls, data, platform, artifactType) is allowed by the statement ('no unknown fields') and not judged"}
	otherDigest := digest.FromString("another artifact").String()
	devs := []deviation{
		{"digest", "envelope", func(s *script) { s.mutate = edit(func(m map[string]any) { ta(m)["digest"] = otherDigest }) }, true},
		{"digest-empty", "envelope", func(s *script) { s.mutate = edit(func(m map[string]any) { ta(m)["digest"] = "" }) }, true},
		{"digest-missing", "envelope", func(s *script) { s.mutate = edit(func(m map[string]any) { delete(ta(m), "digest") }) }, true},
		{"digest-null", "envelope", func(s *script) { s.mutate = edit(func(m map[string]any) { ta(m)["digest"] = nil }) }, true},
		{"digest-bare-hex", "envelope", func(s *script) {
			s.mutate = edit(func(m map[string]any) {
				d := fmt.Sprint(ta(m)["digest"]) // whatever the algorithm (blob digests follow the key: sha256 / sha384 / sha512)
				ta(m)["digest"] = d[strings.Index(d, ":")+1:]
			})
		}, true},
		{"digest-other-algorithm", "envelope", func(s *script) {
			s.mutate = edit(func(m map[string]any) { ta(m)["digest"] = "sha512:" + strings.Repeat("ab", 64) })
		}, true},
		{"size-negative", "envelope", func(s *script) { s.mutate = edit(func(m map[string]any) { ta(m)["size"] = -1 }) }, true},
		{"size", "envelope", func(s *script) { s.mutate = edit(func(m map[string]any) { ta(m)["size"] = 4242 }) }, true},
		{"size-string", "envelope", func(s *script) { s.mutate = edit(func(m map[string]any) { ta(m)["size"] = "12" }) }, true},
		{"mediaType", "envelope", func(s *script) { s.mutate = edit(func(m map[string]any) { ta(m)["mediaType"] = "x/y" }) }, true},
		{"mediaType-case", "envelope", func(s *script) {
			s.mutate = edit(func(m map[string]any) { ta(m)["mediaType"] = strings.ToUpper(fmt.Sprint(ta(m)["mediaType"])) })
		}, true},
		{"drop-annotation", "envelope", func(s *script) { s.mutate = edit(func(m map[string]any) { delete(ann(m), "k1") }) }, true},
		{"drop-empty-valued-annotation", "envelope", func(s *script) { s.mutate = edit(func(m map[string]any) { delete(ann(m), "org.example.reviewed") }) }, true},
		{"cose-only:duplicate-annotation-name-requested-value-last", "envelope", func(s *script) {
			s.mutate = func(b []byte) []byte {
				return []byte(strings.Replace(string(b), `"annotations":{`, `"annotations":{"k1":"evil",`, 1))
			}
		}, true},
		{"cose-only:duplicate-annotation-name-requested-value-first", "envelope", func(s *script) {
			s.mutate = func(b []byte) []byte {
				return []byte(strings.Replace(string(b), `"annotations":{`, `"annotations":{"k2":"v2","k1":"v1","k2":"evil","dup":[{"k1":1}],`, 1))
			}
		}, true},
		{"alter-annotation", "envelope", func(s *script) { s.mutate = edit(func(m map[string]any) { ann(m)["k1"] = "zz" }) }, true},
		{"alter-annotation-empty", "envelope", func(s *script) { s.mutate = edit(func(m map[string]any) { ann(m)["k2"] = "" }) }, true},
		{"annotations-null", "envelope", func(s *script) { s.mutate = edit(func(m map[string]any) { ta(m)["annotations"] = nil }) }, true},
		{"annotations-removed", "envelope", func(s *script) { s.mutate = edit(func(m map[string]any) { delete(ta(m), "annotations") }) }, true},
		{"add-annotation", "envelope", func(s *script) { s.mutate = edit(func(m map[string]any) { ann(m)["k9"] = "v9" }) }, false},
		{"extra-payload-field", "envelope", func(s *script) { s.mutate = edit(func(m map[string]any) { m["extra"] = 1 }) }, true},
		{"extra-payload-field-null", "envelope", func(s *script) { s.mutate = edit(func(m map[string]any) { m["extra"] = nil }) }, true},
		// the member targetArtifact TWICE: a first one that carries the requested descriptor plus an extra field, a second, empty one
		{"duplicate-targetArtifact-member", "envelope", func(s *script) {
			s.mutate = func(b []byte) []byte {
				var m map[string]json.RawMessage
				json.Unmarshal(b, &m)
				first := append(append([]byte{}, bytes.TrimSuffix(bytes.TrimSpace(m["targetArtifact"]), []byte("}"))...), []byte(`,"evil":1}`)...)
				return []byte(`{"targetArtifact":` + string(first) + `,"targetArtifact":{}}`)
			}
		}, true},
		// a descriptor member TWICE (the plugin's choice first, the requested value last) with an array of containers between
		// the two occurrences, tucked into a member the checks tolerate. (COSE only: the JWS writer of the signing library
		// re-encodes the payload through a map, which removes the repetition before anything is signed.)
		{"cose-only:duplicate-digest-member-around-an-array-of-objects", "envelope", func(s *script) {
			s.mutate = func(b []byte) []byte {
				var m map[string]json.RawMessage
				json.Unmarshal(b, &m)
				inner := bytes.TrimSpace(m["targetArtifact"])
				return []byte(`{"targetArtifact":{"digest":"` + otherDigest + `","platform":{"x":[{}]},` + string(inner[1:]) + `}`)
			}
		}, true},
		{"cose-only:duplicate-size-member-around-nested-arrays", "envelope", func(s *script) {
			s.mutate = func(b []byte) []byte {
				var m map[string]json.RawMessage
				json.Unmarshal(b, &m)
				inner := bytes.TrimSpace(m["targetArtifact"])
				return []byte(`{"targetArtifact":{"size":4242,"platform":{"y":[[1],[2,[3]]],"z":[{"a":[{}]}]},` + string(inner[1:]) + `}`)
			}
		}, true},
		// extra members that happen to be NAMED like members of the other level
		{"extra-payload-field-named-digest", "envelope", func(s *script) {
			s.mutate = edit(func(m map[string]any) { m["digest"] = "sha256:" + strings.Repeat("0", 64) })
		}, true},
		{"extra-payload-field-named-annotations", "envelope", func(s *script) {
			s.mutate = edit(func(m map[string]any) { m["annotations"] = map[string]any{"smuggled": "x"} })
		}, true},
		{"extra-payload-field-named-size", "envelope", func(s *script) { s.mutate = edit(func(m map[string]any) { m["size"] = 1 }) }, true},
		{"extra-desc-field-named-targetArtifact", "envelope", func(s *script) {
			s.mutate = edit(func(m map[string]any) {
				ta(m)["targetArtifact"] = map[string]any{"digest": "sha256:" + strings.Repeat("1", 64)}
			})
		}, true},
		{"extra-desc-field", "envelope", func(s *script) { s.mutate = edit(func(m map[string]any) { ta(m)["extra"] = "x" }) }, true},
		{"extra-desc-field-object", "envelope", func(s *script) {
			s.mutate = edit(func(m map[string]any) { ta(m)["subject"] = map[string]any{"digest": otherDigest} })
		}, true},
		{"known-desc-field-urls", "envelope", func(s *script) {
			s.mutate = edit(func(m map[string]any) { ta(m)["urls"] = []string{"https://example.invalid"} })
		}, false},
		{"spelling-TargetArtifact", "envelope", func(s *script) { s.mutate = respell("targetArtifact", "TargetArtifact") }, true},
		{"spelling-targetartifact", "envelope", func(s *script) { s.mutate = respell("targetArtifact", "targetartifact") }, true},
		{"spelling-TARGETARTIFACT", "envelope", func(s *script) { s.mutate = respell("targetArtifact", "TARGETARTIFACT") }, true},
		{"spelling-MediaType", "envelope", func(s *script) { s.mutate = respell("mediaType", "MediaType") }, true},
		{"spelling-Digest", "envelope", func(s *script) { s.mutate = respell("digest", "DIGEST") }, true},
		{"spelling-Annotations", "envelope", func(s *script) { s.mutate = respell("annotations", "Annotations") }, true},
		{"spelling-unicode-escape", "envelope", func(s *script) { s.mutate = respell("targetArtifact", `\u0074argetArtifact`) }, false},
		{"targetArtifact-null", "envelope", func(s *script) { s.mutate = edit(func(m map[string]any) { m["targetArtifact"] = nil }) }, true},
		{"targetArtifact-array", "envelope", func(s *script) { s.mutate = edit(func(m map[string]any) { m["targetArtifact"] = []any{} }) }, true},
		{"targetArtifact-string", "envelope", func(s *script) { s.mutate = edit(func(m map[string]any) { m["targetArtifact"] = "x" }) }, true},
		{"targetArtifact-missing", "envelope", func(s *script) { s.mutate = func([]byte) []byte { return []byte("{}") } }, true},
		{"payload-null", "envelope", func(s *script) { s.mutate = func([]byte) []byte { return []byte("null") } }, true},
		{"payload-array", "envelope", func(s *script) { s.mutate = func([]byte) []byte { return []byte("[]") } }, true},
		{"payload-not-json", "envelope", func(s *script) { s.mutate = func([]byte) []byte { return []byte("hello") } }, true},
		{"payload-type", "envelope", func(s *script) { s.cty = "application/json" }, true},
		// the signed payload is the requested document FOLLOWED by something: a second document, a dangling member, bytes
		{"payload-followed-by-second-document", "envelope", func(s *script) {
			s.mutate = func(b []byte) []byte {
				return append(append([]byte{}, b...), []byte(`{"targetArtifact":{"mediaType":"x/y","digest":"sha256:`+strings.Repeat("0", 64)+`","size":1}}`)...)
			}
		}, true},
		{"payload-followed-by-member", "envelope", func(s *script) {
			s.mutate = func(b []byte) []byte { return append(append([]byte{}, b...), []byte(`,"extra":{"a":1}}`)...) }
		}, true},
		{"payload-followed-by-bytes", "envelope", func(s *script) {
			s.mutate = func(b []byte) []byte { return append(append([]byte{}, b...), []byte(" trailing-bytes")...) }
		}, true},
		// the requested document BEHIND something: a byte order mark, a comment (no JSON reader of a verifier skips either)
		{"payload-behind-a-byte-order-mark", "envelope", func(s *script) {
			s.mutate = func(b []byte) []byte { return append([]byte("\xef\xbb\xbf"), b...) }
		}, true},
		{"payload-behind-a-comment", "envelope", func(s *script) {
			s.mutate = func(b []byte) []byte { return append([]byte("/* signed by plugin */"), b...) }
		}, true},
		// near misses of the Notary payload type: a verifier compares the type exactly, so each of these is another type
		{"payload-type-with-parameter", "envelope", func(s *script) { s.cty = lib.PayloadType + "; charset=utf-8" }, true},
		{"payload-type-with-version-parameter", "envelope", func(s *script) { s.cty = lib.PayloadType + ";version=2" }, true},
		{"payload-type-upper-case-suffix", "envelope", func(s *script) { s.cty = strings.Replace(lib.PayloadType, "+json", "+JSON", 1) }, true},
		{"payload-type-capitalised", "envelope", func(s *script) { s.cty = "Application/Vnd.CNCF.Notary.Payload.V1+json" }, true},
		{"payload-type-trailing-blank", "envelope", func(s *script) { s.cty = lib.PayloadType + " " }, true},
		{"payload-type-v2", "envelope", func(s *script) { s.cty = strings.Replace(lib.PayloadType, "v1", "v2", 1) }, true},
		{"payload-type-prefix-only", "envelope", func(s *script) { s.cty = strings.TrimSuffix(lib.PayloadType, "+json") }, true},
		{"echo-wrong-format", "envelope", func(s *script) { s.echoFmt = "other" }, true},
		{"real-wrong-format", "envelope", func(s *script) { s.realFmt = "other" }, true},
		{"corrupt-envelope", "envelope", func(s *script) { s.corrupt = true }, true},
		{"describe-key-id", "raw", func(s *script) { s.describeKeyID = "another-key" }, true},
		{"describe-key-spec-unknown", "raw", func(s *script) { s.describeSpec = "EC-999" }, true},
		{"describe-key-spec-empty", "raw", func(s *script) { s.describeSpec = " " }, true},
		{"describe-key-spec-mismatch", "raw", func(s *script) { s.describeSpec = "mismatch" }, true},
		{"describe-key-spec-size-with-leading-zero", "raw", func(s *script) { s.describeSpec = "leading-zero" }, true},
		{"describe-key-spec-size-with-plus-sign", "raw", func(s *script) { s.describeSpec = "plus-sign" }, true},
		{"describe-key-spec-lower-case", "raw", func(s *script) { s.describeSpec = "lower-case" }, true},
		// a plugin that declares BOTH signing capabilities (the raw path is taken) and answers describe-key for another key / with no usable spec
		{"dual-capability-describe-key-id", "raw", func(s *script) {
			s.caps, s.describeKeyID = []pf.Capability{pf.CapabilitySignatureGenerator, pf.CapabilityEnvelopeGenerator}, "another-key"
		}, true},
		{"dual-capability-describe-key-spec-unknown", "raw", func(s *script) {
			s.caps, s.describeSpec = []pf.Capability{pf.CapabilitySignatureGenerator, pf.CapabilityEnvelopeGenerator}, "RSA-1024"
		}, true},
		{"dual-capability-describe-key-spec-empty", "raw", func(s *script) {
			s.caps, s.describeSpec = []pf.Capability{pf.CapabilityEnvelopeGenerator, pf.CapabilitySignatureGenerator}, " "
		}, true},
		{"generate-signature-key-id", "raw", func(s *script) { s.genKeyID = "another-key" }, true},
		{"generate-signature-key-id-empty", "raw", func(s *script) { s.genKeyID = "\x00empty" }, true}, // (an answer that names no key at all)
		{"generate-signature-key-id-other-case", "raw", func(s *script) { s.genKeyID = "KEY-1" }, true},
		{"generate-signature-key-id-trailing-blank", "raw", func(s *script) { s.genKeyID = "key-1 " }, true},
		{"chain-of-another-key", "raw", func(s *script) { s.chain = "other" }, true},
		{"chain-empty", "raw", func(s *script) { s.chain = "empty" }, true},
		{"chain-invalid-der", "raw", func(s *script) { s.chain = "invalid-der" }, true},
		{"chain-reversed", "raw", func(s *script) { s.chain = "reversed" }, true},
		{"corrupt-raw-signature", "raw", func(s *script) { s.corruptRaw = true }, true},
		// answers in the ASN.1 form key-management services speak: SEQUENCE { INTEGER r, INTEGER s } with an integer far
		// too large for any key, with a zero and with a negative one; and the honest r||s with one byte too many / too few
		{"raw-signature-der-with-oversized-integer", "raw", func(s *script) {
			s.rawSig = func([]byte) []byte {
				b, _ := asn1.Marshal(struct{ R, S *big.Int }{new(big.Int).Lsh(big.NewInt(0x5a), 8*150), big.NewInt(1)})
				return b
			}
		}, true},
		{"raw-signature-der-with-oversized-second-integer", "raw", func(s *script) {
			s.rawSig = func([]byte) []byte {
				b, _ := asn1.Marshal(struct{ R, S *big.Int }{big.NewInt(1), new(big.Int).Lsh(big.NewInt(0x5a), 8*70)})
				return b
			}
		}, true},
		{"raw-signature-der-with-zero-and-negative-integer", "raw", func(s *script) {
			s.rawSig = func([]byte) []byte {
				b, _ := asn1.Marshal(struct{ R, S *big.Int }{big.NewInt(0), big.NewInt(-7)})
				return b
			}
		}, true},
		{"raw-signature-one-byte-longer", "raw", func(s *script) { s.rawSig = func(h []byte) []byte { return append(append([]byte{}, h...), 0) } }, true},
		{"raw-signature-one-byte-shorter", "raw", func(s *script) { s.rawSig = func(h []byte) []byte { return h[:len(h)-1] } }, true},
		{"raw-signature-empty", "raw", func(s *script) { s.rawSig = func([]byte) []byte { return []byte{} } }, true},
		// a plugin that does not (or no longer) declare a signing capability, or whose command fails: nothing may be returned
		{"metadata-verifier-capabilities-only", "raw", func(s *script) {
			s.caps = []pf.Capability{pf.CapabilityTrustedIdentityVerifier, pf.CapabilityRevocationCheckVerifier}
		}, true},
		{"metadata-no-capabilities", "envelope", func(s *script) { s.caps = []pf.Capability{} }, true},
		{"metadata-unknown-capability", "envelope", func(s *script) { s.caps = []pf.Capability{"SIGNATURE_GENERATOR", "signature_generator.raw"} }, true},
		{"metadata-command-fails", "raw", func(s *script) { s.failAt = "get-plugin-metadata" }, true},
		{"describe-key-command-fails", "raw", func(s *script) { s.failAt = "describe-key" }, true},
		{"generate-signature-command-fails", "raw", func(s *script) { s.failAt = "generate-signature" }, true},
	}
	specs := lib.KeySpecs
	type caseT struct {
		devs   []int
		mode   string
		spec   string
		format string
		blob   bool
		annots bool
	}
	var cases []caseT
	for si, spec := range specs {
		full := r.Thorough() || spec == "EC-256" || spec == "RSA-2048"
		for _, format := range lib.Formats {
			for _, blob := range []bool{false, true} {
				for _, mode := range []string{"envelope", "raw"} {
					cases = append(cases, caseT{nil, mode, spec, format, blob, true}, caseT{nil, mode, spec, format, blob, false})
				}
				if !full {
					continue
				}
				for di, d := range devs {
					if strings.HasPrefix(d.name, "cose-only:") && format != lib.MediaCOSE {
						continue
					}
					cases = append(cases, caseT{[]int{di}, d.mode, spec, format, blob, true})
					if strings.Contains(strings.ToLower(d.name), "annotation") || d.mode == "raw" {
						continue
					}
					cases = append(cases, caseT{[]int{di}, d.mode, spec, format, blob, false})
				}
				// pairs: a benign-looking deviation combined with a harmful one (the later check must not be skipped)
				for di, d := range devs {
					for dj, e := range devs {
						if di >= dj || d.mode != "envelope" || e.mode != "envelope" || strings.HasPrefix(d.name, "cose-only:") || strings.HasPrefix(e.name, "cose-only:") {
							continue
						}
						if (si+di+dj)%3 != 0 && r.Quick() {
							continue
						}
						cases = append(cases, caseT{[]int{di, dj}, "envelope", spec, format, blob, true})
					}
				}
			}
		}
	}
	signers := map[string]*lib.Ent{}
	others := map[string]*lib.Ent{}
	for _, s := range specs {
		signers[s] = lib.SimpleChain("c18-"+s, 1, s, 0)
		others[s] = lib.SimpleChain("c18-other-"+s, 0, s, 1)
	}
	lib.Parallel(len(cases), 16, func(ci int) {
		c := cases[ci]
		sc := &script{mode: c.mode, ent: signers[c.spec], other: others[c.spec], keySpecName: c.spec, annotations: map[string]string{"plugin-annotation": "x"}}
		must := false
		var names []string
		for _, di := range c.devs {
			d := devs[di]
			prev := sc.mutate
			d.apply(sc)
			if prev != nil && sc.mutate != nil {
				second := sc.mutate
				sc.mutate = func(b []byte) []byte { return second(prev(b)) }
			}
			must = must || d.mustError
			names = append(names, d.name)
		}
		if sc.describeSpec == "mismatch" {
			sc.describeSpec = map[string]string{"EC-256": "EC-384", "EC-384": "EC-256", "EC-521": "EC-256", "RSA-2048": "RSA-3072", "RSA-3072": "RSA-4096", "RSA-4096": "RSA-2048"}[c.spec]
		}
		if sc.echoFmt == "other" {
			sc.echoFmt = otherFormat(c.format)
		}
		if sc.realFmt == "other" {
			sc.realFmt = otherFormat(c.format)
		}
		content := []byte(fmt.Sprintf("c18 content %d", ci%7))
		if ci%7 == 3 {
			content = []byte{} // the empty artifact / blob: size 0 is a size like any other
		}
		desc := ocispec.Descriptor{MediaType: "application/vnd.example.thing", Digest: digest.FromBytes(content), Size: int64(len(content))}
		if c.annots {
			desc.Annotations = map[string]string{"k1": "v1", "k2": "v2", "org.example.reviewed": ""} // (an empty value is a value)
		}
		ps, err := signer.NewPluginSigner(sc, "key-1", map[string]string{"cfg": "v"})
		if err != nil {
			panic(err)
		}
		id := fmt.Sprintf("%s|%s|%s|blob=%v|annotations=%v|%s", strings.Join(names, "+"), c.spec, c.format, c.blob, c.annots, c.mode)
		var sig []byte
		var info *signature.SignerInfo
		var serr error
		var requested ocispec.Descriptor
		// every second deviating case: the SAME PluginSigner first serves an honest request (deviations switched off), then
		// the deviating one - what the signer learned from the first answer must not excuse the second
		if len(c.devs) > 0 && ci%2 == 1 {
			honest := *sc
			honest.mutate, honest.cty, honest.echoFmt, honest.realFmt, honest.corrupt, honest.caps, honest.failAt = nil, "", "", "", false, nil, ""
			honest.describeKeyID, honest.describeSpec, honest.genKeyID, honest.chain, honest.corruptRaw, honest.rawSig = "", "", "", "", false, nil
			deviating := *sc
			*sc = honest
			if _, _, err := ps.Sign(context.Background(), desc, notation.SignerSignOptions{SignatureMediaType: c.format}); err != nil {
				r.Violation(map[string]string{"kind": "honest-answer-refused", "mode": c.mode}, fmt.Sprintf("%s: the honest first call on a reused signer failed: %v", id, err), nil)
			}
			*sc = deviating
			id += "|after-an-honest-call-on-the-same-signer"
			r.Event("reused-signer-cases")
		}
		pv, stack := lib.Guard(func() {
			opts := notation.SignerSignOptions{SignatureMediaType: c.format, ExpiryDuration: 24 * time.Hour}
			if c.blob {
				// the generator describes a STREAM: asked a first time it digests the blob; asked again, the stream is spent and
				// what it describes is the empty blob (the generator notation.SignBlob builds over a reader behaves like this)
				asked := 0
				sig, info, serr = ps.SignBlob(context.Background(), func(alg digest.Algorithm) (ocispec.Descriptor, error) {
					asked++
					if asked > 1 {
						return ocispec.Descriptor{MediaType: "application/octet-stream", Digest: alg.FromBytes(nil), Size: 0, Annotations: desc.Annotations}, nil
					}
					requested = ocispec.Descriptor{MediaType: "application/octet-stream", Digest: alg.FromBytes(content), Size: int64(len(content)), Annotations: desc.Annotations}
					return requested, nil
				}, opts)
			} else {
				requested = desc
				sig, info, serr = ps.Sign(context.Background(), desc, opts)
			}
		})
		key := ""
		if len(c.devs) > 0 {
			key = id
		}
		r.Eval(key)
		wit := map[string]any{"case": id, "error": fmt.Sprint(serr)}
		sigm := func(kind string) map[string]string {
			return map[string]string{"kind": kind, "deviation": strings.Join(names, "+"), "mode": c.mode, "format": c.format}
		}
		if pv != nil {
			r.Violation(sigm("panic"), fmt.Sprintf("%s: PluginSigner panicked: %v", id, pv), map[string]any{"case": id, "stack": string(stack)})
			return
		}
		if serr != nil {
			r.Event("refused")
			if len(c.devs) == 0 {
				r.Violation(sigm("honest-answer-refused"), fmt.Sprintf("%s: an honest plugin answer was refused: %v", id, serr), wit)
			}
			return
		}
		r.Event("returned-signature")
		r.Sample("returned "+strings.Join(names, "+"), id)
		if must {
			r.Violation(sigm("deviating-answer-returned"), fmt.Sprintf("%s: the signer returned a signature although the plugin answered with %s", id, strings.Join(names, "+")), wit)
		}
		// ---- independent inspection of the returned bytes
		if info == nil {
			r.Violation(sigm("nil-signer-info"), id+": nil SignerInfo without error", wit)
		}
		content2, verr := lib.RefVerify(c.format, sig)
		if verr != nil {
			r.Violation(sigm("returned-not-valid"), fmt.Sprintf("%s: returned bytes are not a cryptographically valid %s envelope: %v", id, c.format, verr), wit)
			return
		}
		if content2.Payload.ContentType != lib.PayloadType {
			r.Violation(sigm("returned-payload-type"), fmt.Sprintf("%s: returned envelope has payload type %q", id, content2.Payload.ContentType), wit)
		}
		var top map[string]json.RawMessage
		if err := json.Unmarshal(content2.Payload.Content, &top); err != nil || top == nil {
			r.Violation(sigm("returned-payload-shape"), id+": signed payload is not a JSON object", wit)
			return
		}
		var topKeys []string
		for k := range top {
			topKeys = append(topKeys, k)
		}
		sort.Strings(topKeys)
		if len(topKeys) != 1 || topKeys[0] != "targetArtifact" {
			r.Violation(sigm("returned-unknown-payload-field"), fmt.Sprintf("%s: signed payload has the keys %q (only targetArtifact is known)", id, topKeys), wit)
			return
		}
		var d map[string]json.RawMessage
		if err := json.Unmarshal(top["targetArtifact"], &d); err != nil || d == nil {
			r.Violation(sigm("returned-payload-shape"), id+": targetArtifact is not an object", wit)
			return
		}
		for k := range d {
			if !knownDescKeys[k] {
				r.Violation(sigm("returned-unknown-descriptor-field"), fmt.Sprintf("%s: signed descriptor carries the unknown field %q", id, k), wit)
			}
		}
		var got struct {
			MediaType   string            `json:"mediaType"`
			Digest      string            `json:"digest"`
			Size        json.Number       `json:"size"`
			Annotations map[string]string `json:"annotations"`
		}
		dec := json.NewDecoder(strings.NewReader(string(top["targetArtifact"])))
		dec.UseNumber()
		dec.Decode(&got)
		if got.MediaType != requested.MediaType || got.Digest != requested.Digest.String() || got.Size.String() != fmt.Sprint(requested.Size) {
			r.Violation(sigm("returned-other-descriptor"), fmt.Sprintf("%s: signed descriptor {%s %s %s} differs from the requested {%s %s %d}", id, got.MediaType, got.Digest, got.Size, requested.MediaType, requested.Digest, requested.Size), wit)
		}
		for k, v := range requested.Annotations {
			if gv, ok := got.Annotations[k]; !ok || gv != v {
				r.Violation(sigm("returned-annotation-lost"), fmt.Sprintf("%s: original annotation %s=%s is missing or changed in the signed descriptor", id, k, v), wit)
			}
		}
		if c.mode == "raw" {
			want := signers[c.spec].Chain()
			chain := content2.SignerInfo.CertificateChain
			same := len(chain) == len(want)
			for i := 0; same && i < len(want); i++ {
				same = chain[i].Equal(want[i])
			}
			if !same {
				r.Violation(sigm("returned-chain"), id+": the envelope's certificate chain is not the chain of the signing key", wit)
			}
		}
	}, r.PanicViolation("harness"))
	r.RequireAtLeast("returned-signature", 40)
	r.RequireAtLeast("refused", 500)
	r.Finish()
}

func otherFormat(f string) string {
	if f == lib.MediaJWS {
		return lib.MediaCOSE
	}
	return lib.MediaJWS
}

var _ = x509.ParseCertificate
