// C04 — identity pinning matches only the signing certificate's own subject.
//
// Subjects and identities are GENERATED as attribute lists; certificates are
// minted from raw RDN sequences (so multi-valued RDNs, duplicates and unknown
// OIDs are constructible) and identities are rendered to strings in several
// equivalent ways. The oracle works on the structured data only (it never
// parses a DN string): authenticity may pass only if the leaf subject is
// interpretable and some listed identity is contained in it; all renderings of
// one semantic identity list must give one verdict; the lone wildcard accepts.
package main

import (
	"context"
	"crypto/x509/pkix"
	"encoding/asn1"
	"fmt"
	"strings"
	"time"

	"github.com/notaryproject/notation-core-go/signature"
	"github.com/notaryproject/notation-go"
	"github.com/notaryproject/notation-go/verifharness/lib"
	"github.com/notaryproject/notation-go/verifier"
	"github.com/notaryproject/notation-go/verifier/trustpolicy"
	pf "github.com/notaryproject/notation-plugin-framework-go/plugin"
	"github.com/opencontainers/go-digest"
	ocispec "github.com/opencontainers/image-spec/specs-go/v1"
)

type av struct{ T, V string }

var oids = map[string]asn1.ObjectIdentifier{
	"C": {2, 5, 4, 6}, "ST": {2, 5, 4, 8}, "L": {2, 5, 4, 7}, "STREET": {2, 5, 4, 9}, "O": {2, 5, 4, 10}, "OU": {2, 5, 4, 11}, "CN": {2, 5, 4, 3},
	"SERIALNUMBER": {2, 5, 4, 5}, "POSTALCODE": {2, 5, 4, 17},
	"UNKNOWN": {1, 2, 3, 4, 5},
}

// rawSubject encodes an RDN sequence; groups of attributes form one (possibly multi-valued) RDN each.
func rawSubject(rdns [][]av) []byte {
	var seq pkix.RDNSequence
	for _, g := range rdns {
		var set pkix.RelativeDistinguishedNameSET
		for _, a := range g {
			set = append(set, pkix.AttributeTypeAndValue{Type: oids[a.T], Value: a.V})
		}
		seq = append(seq, set)
	}
	b, err := asn1.Marshal(seq)
	if err != nil {
		panic(err)
	}
	return b
}

func esc(v string, hexStyle bool) string {
	var b strings.Builder
	for i, r := range v {
		switch {
		case r == ',' && hexStyle:
			b.WriteString(`\2C`)
		case r == '+' && hexStyle:
			b.WriteString(`\2B`)
		case strings.ContainsRune(`,+"\<>;`, r):
			b.WriteByte('\\')
			b.WriteRune(r)
		case (r == ' ' || r == '#') && i == 0:
			b.WriteByte('\\')
			b.WriteRune(r)
		case r == ' ' && i == len(v)-1:
			b.WriteString(`\ `)
		default:
			b.WriteRune(r)
		}
	}
	return b.String()
}

// render turns a semantic identity into an x509.subject string. variant 0: canonical; 1: permuted + S alias; 2: permuted + spacing; 3: permuted + S alias + spacing + hex escapes.
func render(id []av, rng *lib.Rand, variant int) string {
	a := append([]av(nil), id...)
	if variant > 0 {
		p := rng.Perm(len(a))
		b := make([]av, len(a))
		for i, j := range p {
			b[i] = a[j]
		}
		a = b
	}
	var parts []string
	for _, x := range a {
		t := x.T
		if t == "ST" && variant%2 == 1 {
			t = "S"
		}
		sp1, sp2 := "", ""
		if variant >= 2 {
			sp1 = strings.Repeat(" ", rng.Intn(3))
			sp2 = strings.Repeat(" ", rng.Intn(3))
		}
		parts = append(parts, sp1+t+sp2+"="+sp2+esc(x.V, variant == 3)+sp1)
	}
	return "x509.subject:" + strings.Join(parts, ",")
}

func subset(id, subj []av) bool {
	m := map[string]string{}
	for _, a := range subj {
		m[a.T] = a.V
	}
	for _, a := range id {
		v, ok := m[a.T]
		if !ok || v != a.V {
			return false
		}
	}
	return true
}

func hasT(l []av, t string) bool {
	for _, a := range l {
		if a.T == t {
			return true
		}
	}
	return false
}

// policyValid: an identity must carry non-empty C, ST, O and unique attribute types to be accepted in a policy.
func policyValid(id []av) bool {
	seen := map[string]bool{}
	for _, a := range id {
		if seen[a.T] {
			return false
		}
		seen[a.T] = true
		if (a.T == "C" || a.T == "ST" || a.T == "O") && a.V == "" {
			return false
		}
	}
	return seen["C"] && seen["ST"] && seen["O"]
}

// verdictPlugin owns the capabilities it declares and reports `ok` for trusted identity (success for anything else).
type verdictPlugin struct {
	caps []pf.Capability
	ok   bool
}

func (p *verdictPlugin) GetMetadata(ctx context.Context, req *pf.GetMetadataRequest) (*pf.GetMetadataResponse, error) {
	return &pf.GetMetadataResponse{Name: "plug", Description: "d", Version: "1.0.0", URL: "u", SupportedContractVersions: []string{"1.0"}, Capabilities: p.caps}, nil
}
func (p *verdictPlugin) DescribeKey(ctx context.Context, req *pf.DescribeKeyRequest) (*pf.DescribeKeyResponse, error) {
	return nil, fmt.Errorf("not a signer")
}
func (p *verdictPlugin) GenerateSignature(ctx context.Context, req *pf.GenerateSignatureRequest) (*pf.GenerateSignatureResponse, error) {
	return nil, fmt.Errorf("not a signer")
}
func (p *verdictPlugin) GenerateEnvelope(ctx context.Context, req *pf.GenerateEnvelopeRequest) (*pf.GenerateEnvelopeResponse, error) {
	return nil, fmt.Errorf("not a signer")
}
func (p *verdictPlugin) VerifySignature(ctx context.Context, req *pf.VerifySignatureRequest) (*pf.VerifySignatureResponse, error) {
	resp := &pf.VerifySignatureResponse{VerificationResults: map[pf.Capability]*pf.VerificationResult{}}
	for _, c := range req.TrustPolicy.SignatureVerification {
		resp.VerificationResults[c] = &pf.VerificationResult{Success: c != pf.CapabilityTrustedIdentityVerifier || p.ok, Reason: "scripted"}
	}
	return resp, nil
}

type verdictManager struct{ p *verdictPlugin }

func (m verdictManager) Get(ctx context.Context, name string) (pf.Plugin, error) { return m.p, nil }
func (m verdictManager) List(ctx context.Context) ([]string, error)              { return []string{"plug"}, nil }

type caseT struct {
	Shape      string
	Subject    [][]av
	Interpret  bool // leaf subject interpretable per statement (unique types, single-valued RDNs, C/ST/O present, known attribute types)
	Identities [][]av
	Extra      []string // non-x509 identities / wildcard
}

func flat(r [][]av) []av {
	var out []av
	for _, g := range r {
		out = append(out, g...)
	}
	return out
}

func main() {
	r := lib.Start("C04", "exploration")
	r.Rule = "PRNG-generated (leaf subject, identity list) pairs: subjects over {C,ST,O,OU,CN,L,STREET} with values containing , + = \" \\ < > ; # and leading/trailing blanks, random RDN order, also multi-valued / duplicate / unknown-OID / missing-mandatory subjects; identity lists = exact, strict subset, superset (also with an empty-valued extra attribute), one-character near miss (down to empty), intermediate's or root's subject, wrong+exact, random, wildcard, non-x509 only; each list rendered 4 ways; distinct by (subject, identities); non-trivial = the policy is accepted and verification reaches the identity check"
	r.Assumptions = []string{"the oracle never parses DN strings: identities are generated as attribute lists and rendered; subjects are minted from raw RDN sequences",
		"soundness direction is decisive (pass only if contained); 'contained but rejected' is counted as a completeness observation, not a violation, except across renderings of the same identity list (metamorphic) and for the wildcard",
		"subjects with empty attribute values are not generated (whether they are 'interpretable' is not stated)"}
	n := r.N(4000, 300000)
	vals := []string{"US", "WA", "Org", "a,b", "x+y", `q"r`, `b\s`, "<t>", "s;t", " lead", "trail ", "#hash", "a=b", "Ünï", "A", "Org2", "DE", "x", "o u", "svc:prod", ":lead", "a:b:c", "svc", "Rel  Sig", "Rel Sig", "a   b c", "two  runs  here"}
	types := []string{"C", "ST", "O", "OU", "CN", "L", "STREET", "SERIALNUMBER", "POSTALCODE"}
	rootAttrs := []av{{"C", "US"}, {"ST", "WA"}, {"O", "RootOrg"}, {"CN", "root"}}
	interAttrs := []av{{"C", "US"}, {"ST", "WA"}, {"O", "InterOrg"}, {"OU", "issuing"}}
	root := lib.Mint(nil, lib.CertSpec{Kind: "ca", KeyIdx: 7, RawSubject: rawSubject([][]av{{rootAttrs[0]}, {rootAttrs[1]}, {rootAttrs[2]}, {rootAttrs[3]}})})
	inter := lib.Mint(root, lib.CertSpec{Kind: "ca", KeyIdx: 6, PathLen: 1, RawSubject: rawSubject([][]av{{interAttrs[0]}, {interAttrs[1]}, {interAttrs[2]}, {interAttrs[3]}})})
	desc := lib.Desc(ocispec.MediaTypeImageManifest, []byte("c04"))
	payload := lib.Payload(desc)
	ts := lib.NewMemTS().Put("ca:x", root.Cert)

	lib.Parallel(n, 16, func(i int) {
		rng := r.Rand(fmt.Sprintf("case-%d", i))
		var c caseT
		// ---- subject
		var subj []av
		for _, ty := range types {
			mand := ty == "C" || ty == "ST" || ty == "O"
			if mand || rng.Bool() {
				subj = append(subj, av{ty, vals[rng.Intn(len(vals))]})
			}
		}
		p := rng.Perm(len(subj))
		for _, j := range p {
			c.Subject = append(c.Subject, []av{subj[j]})
		}
		c.Interpret = true
		shape := rng.Intn(17)
		base := append([]av(nil), subj...)
		mandatory := func() []av {
			var out []av
			for _, a := range base {
				if a.T == "C" || a.T == "ST" || a.T == "O" {
					out = append(out, a)
				}
			}
			return out
		}
		switch shape {
		case 0:
			c.Shape = "exact"
			c.Identities = [][]av{base}
		case 1:
			c.Shape = "strict-subset"
			var s []av
			for _, a := range base {
				if a.T == "C" || a.T == "ST" || a.T == "O" || rng.Bool() {
					s = append(s, a)
				}
			}
			if rng.Intn(3) == 0 {
				// an identity no longer than the subject that names, with an empty value, an attribute the subject lacks
				for _, ty := range types {
					if !hasT(base, ty) {
						s = append(s, av{ty, ""})
						c.Shape = "subset+absent-empty-value"
						break
					}
				}
			}
			c.Identities = [][]av{s}
		case 2:
			c.Shape = "superset"
			s := append([]av(nil), base...)
			for _, ty := range types {
				if !hasT(base, ty) {
					v := vals[rng.Intn(len(vals))]
					if rng.Intn(3) == 0 {
						v = "" // extra attribute with an empty value
						c.Shape = "superset-empty-value"
					}
					s = append(s, av{ty, v})
					break
				}
			}
			c.Identities = [][]av{s}
		case 3:
			c.Shape = "near-miss"
			s := append([]av(nil), base...)
			k := rng.Intn(len(s))
			for try := 0; try < 3 && !strings.Contains(s[k].V, " "); try++ { // (prefer an attribute whose value holds a blank, if there is one)
				k = rng.Intn(len(s))
			}
			switch rng.Intn(6) {
			case 4:
				if strings.Contains(s[k].V, "  ") {
					s[k].V = strings.Replace(s[k].V, "  ", " ", 1) // a run of blanks shortened by one: another value
				} else {
					s[k].V = strings.Replace(s[k].V, " ", "  ", 1) // ... or a blank doubled (no blank: the value stays, the case is 'exact')
				}
			case 5:
				s[k].V = strings.Replace(s[k].V, " ", "   ", 1)
			case 0:
				s[k].V = s[k].V[:len(s[k].V)-1] // may become empty
			case 1:
				s[k].V += "x"
			case 2:
				s[k].V = strings.ToLower(s[k].V) + "" // case variant (may be identical: then it is 'exact')
			default:
				s[k].V = s[k].V[1:]
			}
			c.Identities = [][]av{s}
		case 4:
			c.Shape = "ca-subject"
			if rng.Bool() {
				c.Identities = [][]av{rootAttrs}
			} else {
				c.Identities = [][]av{interAttrs}
			}
		case 5:
			c.Shape = "wrong+exact"
			c.Identities = [][]av{{{"C", "ZZ"}, {"ST", "ZZ"}, {"O", "ZZ"}}, base}
			if rng.Bool() {
				c.Identities[0], c.Identities[1] = c.Identities[1], c.Identities[0]
			}
		case 6:
			c.Shape = "random"
			var s []av
			for _, ty := range types {
				if ty == "C" || ty == "ST" || ty == "O" || rng.Bool() {
					v := vals[rng.Intn(len(vals))]
					if rng.Intn(3) == 0 {
						for _, a := range base {
							if a.T == ty {
								v = a.V
							}
						}
					}
					s = append(s, av{ty, v})
				}
			}
			c.Identities = [][]av{s}
		case 7:
			c.Shape = "wildcard"
			c.Extra = []string{"*"}
		case 8:
			c.Shape = "non-x509-only"
			c.Extra = []string{"foo:bar", "did:example:" + fmt.Sprint(rng.Intn(100))}
			if rng.Bool() {
				// an identity of ANOTHER kind whose prefix merely resembles x509.subject (other letter case, a suffix) and whose
				// value happens to read like the leaf's subject: not an x509.subject identity
				exactDN := strings.TrimPrefix(render(base, rng, 0), "x509.subject:")
				c.Shape = "non-x509-only-lookalike-prefix"
				c.Extra = []string{[]string{"X509.Subject:", "x509.Subject:", "X509.SUBJECT:", "x509.subjects:", "x509.subject.v2:", "x509subject:", "*:", "*:x509.subject:", "*:team-a,"}[rng.Intn(9)] + exactDN}
			}
		case 9:
			if rng.Bool() {
				// one RDN carrying two values of the SAME attribute type (how multiple OUs are usually encoded): not interpretable
				c.Shape = "subject-multi-valued-rdn-same-type"
				c.Interpret = false
				k := rng.Intn(len(c.Subject))
				for c.Subject[k][0].T == "CN" || c.Subject[k][0].T == "SERIALNUMBER" { // crypto/x509 keeps one CommonName (one serialNumber) only: a repeated one is invisible, not judged
					k = rng.Intn(len(c.Subject))
				}
				c.Subject[k] = append(c.Subject[k], av{c.Subject[k][0].T, c.Subject[k][0].V + "2"})
			} else {
				// one RDN carrying two DIFFERENT attribute types: the attribute set is unambiguous; whether this
				// counts as "cannot be interpreted" is not stated, so only the containment clause is judged
				c.Shape = "subject-multi-valued-rdn-distinct-types"
				if len(c.Subject) >= 2 {
					c.Subject = append([][]av{append(c.Subject[0], c.Subject[1]...)}, c.Subject[2:]...)
				}
			}
			c.Identities = [][]av{mandatory()}
		case 10:
			c.Shape = "subject-duplicate-attribute"
			c.Interpret = false
			d := subj[rng.Intn(len(subj))]
			if d.T == "CN" || d.T == "SERIALNUMBER" {
				// crypto/x509 keeps a single CommonName (and a single serialNumber), so a repeated CN is invisible to any Go consumer of the parsed
				// certificate; whether such a subject "cannot be interpreted" is not stated -> only containment is judged
				c.Shape = "subject-duplicate-cn-containment-only"
				c.Interpret = true
			}
			if rng.Bool() {
				d.V += "2"
			}
			pos := rng.Intn(len(c.Subject) + 1)
			c.Subject = append(c.Subject[:pos], append([][]av{{d}}, c.Subject[pos:]...)...)
			c.Identities = [][]av{mandatory()}
		case 11:
			c.Shape = "subject-missing-mandatory"
			c.Interpret = false
			drop := []string{"C", "ST", "O"}[rng.Intn(3)]
			var ns [][]av
			for _, g := range c.Subject {
				if g[0].T != drop {
					ns = append(ns, g)
				}
			}
			c.Subject = ns
			// the identity must itself be valid: take the subject's C/ST/O and invent the missing one
			id := mandatory()
			c.Identities = [][]av{id}
		case 12:
			c.Shape = "subject-unknown-oid"
			c.Interpret = false
			c.Subject = append(c.Subject, []av{{"UNKNOWN", "v"}})
			c.Identities = [][]av{mandatory()}
		case 13:
			c.Shape = "wildcard-uninterpretable-subject"
			c.Interpret = false
			c.Subject = append(c.Subject, []av{{"UNKNOWN", "v"}})
			c.Extra = []string{"*"}
		case 16:
			// an identity whose value continues after a colon ("CN=svc:prod"): the value is the WHOLE string after the first
			// '=' - a leaf that carries only the part before the colon does not match
			c.Shape = "identity-value-continues-after-colon"
			s := append([]av(nil), base...)
			k := rng.Intn(len(s))
			s[k].V = s[k].V + ":" + []string{"prod", "", "x:y"}[rng.Intn(3)]
			c.Identities = [][]av{s}
		case 14:
			// the identity repeats an attribute (same or another value, adjacent or not): it cannot be interpreted, so
			// the policy is refused - and in no case may "one of the two values" be what is compared
			c.Shape = "identity-duplicate-attribute"
			s := append([]av(nil), base...)
			d := s[rng.Intn(len(s))]
			if rng.Bool() {
				d.V += "x"
			}
			pos := rng.Intn(len(s) + 1)
			s = append(s[:pos], append([]av{d}, s[pos:]...)...)
			c.Identities = [][]av{s}
		case 15:
			// identities that are not RFC 4514 distinguished names at all, next to nothing else
			c.Shape = "identity-unparseable"
			exact := render(base, rng, 0)
			c.Extra = []string{[]string{exact + ",", exact + ",,CN=x", strings.Replace(exact, "=", "", 1), exact + ",CN", exact + "\\", "x509.subject:" + strings.Repeat(",", 3), exact + ",=v", exact + ",CN=\"unbalanced"}[rng.Intn(8)]}
		}
		parent := root
		if rng.Bool() {
			parent = inter
		}
		leaf := lib.Mint(parent, lib.CertSpec{Kind: "codesign", KeyIdx: rng.Intn(5), RawSubject: rawSubject(c.Subject),
			NotBefore: time.Now().Add(-100 * 24 * time.Hour), NotAfter: time.Now().Add(100 * 24 * time.Hour)})
		// self-check: the minted certificate carries exactly the generated attributes
		if got, want := len(leaf.Cert.Subject.Names), len(flat(c.Subject)); got != want {
			panic(fmt.Sprintf("harness bug: minted subject has %d attributes, generated %d", got, want))
		}
		format := lib.Formats[i%2]
		// a fifth of the cases name a verification plugin that owns ONLY the revocation check: native identity
		// pinning must still be performed (it may be skipped only when a plugin owns trusted-identity verification)
		var ext []signature.Attribute
		var pm lib.ScriptedManager
		revOnlyPlugin := i%5 == 4
		// another fifth: a plugin that OWNS trusted-identity verification (declared after its revocation capability) and
		// answers honestly, under a level that skips revocation: somebody has to check the identity - the plugin, since it
		// declares the capability, whatever else it declares and whatever the level skips
		honestTI := i%5 == 3
		tiPlug := &verdictPlugin{caps: []pf.Capability{pf.CapabilityRevocationCheckVerifier, pf.CapabilityTrustedIdentityVerifier}}
		if honestTI {
			ext = []signature.Attribute{{Key: lib.HdrPlugin, Critical: true, Value: "plug"}}
			r.Event("cases-with-honest-identity-plugin")
		}
		if revOnlyPlugin {
			ext = []signature.Attribute{{Key: lib.HdrPlugin, Critical: true, Value: "plug"}}
			pm = lib.ScriptedManager{P: &lib.ScriptedPlugin{Caps: []pf.Capability{pf.CapabilityRevocationCheckVerifier, pf.CapabilitySignatureGenerator}}}
			r.Event("cases-with-revocation-only-plugin")
		}
		sig := lib.MustCoreSign(lib.SignSpec{Format: format, Payload: payload, Signer: leaf, Ext: ext})

		leafAttrs := flat(c.Subject)
		wantAny := false
		allValid := true
		for _, id := range c.Identities {
			if !policyValid(id) {
				allValid = false
			}
			if c.Interpret && len(id) > 0 && subset(id, leafAttrs) {
				wantAny = true
			}
		}
		wild := len(c.Extra) == 1 && c.Extra[0] == "*"
		verdicts := map[int]string{}
		L := lib.LevelMap{Auth: "enforce", TS: "enforce", Exp: "enforce", Rev: "enforce"}
		if i%3 == 0 {
			L.Auth = "log"
		}
		if honestTI {
			L.Rev = "skip"
			tiPlug.ok = wild || wantAny
		}
		variants := 4
		if len(c.Identities) == 0 {
			variants = 1
		}
		for variant := 0; variant < variants; variant++ {
			var idStrs []string
			for _, id := range c.Identities {
				idStrs = append(idStrs, render(id, rng, variant))
			}
			if variant%2 == 1 && !wild {
				idStrs = append(append([]string{}, c.Extra...), idStrs...) // identities of another kind FIRST
			} else {
				idStrs = append(idStrs, c.Extra...)
			}
			if variant == 3 && len(c.Identities) > 0 && len(c.Extra) == 0 {
				idStrs = append([]string{"acme.signer.id:42"}, idStrs...)
			}
			doc := lib.OCIPolicy(L.SV(i), []string{"ca:x"}, idStrs)
			vopts := verifier.VerifierOptions{OCITrustPolicy: doc, RevocationCodeSigningValidator: lib.OKRev{}, RevocationTimestampingValidator: lib.OKRev{}}
			if revOnlyPlugin {
				vopts.PluginManager = pm
			}
			if honestTI {
				vopts.PluginManager = verdictManager{tiPlug}
			}
			v, err := verifier.NewVerifierWithOptions(ts, vopts)
			wit := map[string]any{"case": c, "leaf_subject": leaf.Cert.Subject.String(), "identities": idStrs, "variant": variant}
			if err != nil {
				verdicts[variant] = "policy-rejected"
				r.Event("policy-rejected")
				if allValid && !overlap(c.Identities) && c.Shape != "identity-unparseable" {
					r.Event("completeness:valid-identity-refused-by-policy")
					r.Sample("valid identity refused by policy validation", map[string]any{"identities": idStrs, "error": err.Error()})
				}
				continue
			}
			if !allValid {
				r.Violation(map[string]string{"kind": "invalid-identity-accepted-by-policy", "shape": c.Shape},
					fmt.Sprintf("an identity that lacks C/ST/O (or repeats an attribute) was accepted at verifier construction: %q", idStrs), wit)
				continue
			}
			out, verr := v.Verify(context.Background(), desc, sig, notation.VerifierVerifyOptions{ArtifactReference: "r.io/a@" + desc.Digest.String(), SignatureMediaType: format})
			if out == nil {
				panic(fmt.Sprintf("nil outcome: %v", verr))
			}
			var auth *notation.ValidationResult
			for _, res := range out.VerificationResults {
				if res.Type == trustpolicy.TypeAuthenticity {
					auth = res
				}
			}
			if auth == nil {
				r.Violation(map[string]string{"kind": "no-authenticity-result"}, "no authenticity result", wit)
				continue
			}
			pass := auth.Error == nil
			wit["authenticity_error"] = fmt.Sprint(auth.Error)
			if pass {
				verdicts[variant] = "pass"
				r.Event("authenticity-pass")
			} else {
				verdicts[variant] = "fail"
				r.Event("authenticity-fail")
			}
			if (verr == nil) != (pass || L.Auth == "log") {
				r.Violation(map[string]string{"kind": "decision-vs-result"}, fmt.Sprintf("Verify err=%v but authenticity pass=%v under action %s", verr, pass, L.Auth), wit)
			}
			switch {
			case wild:
				if !pass {
					r.Violation(map[string]string{"kind": "wildcard-rejects", "shape": c.Shape}, "the lone wildcard identity rejected a subject", wit)
				}
			case pass && !wantAny:
				why := "no listed identity is contained in the leaf subject"
				if !c.Interpret {
					why = "the leaf subject is not interpretable (" + c.Shape + ")"
				}
				if len(c.Identities) == 0 {
					why = "the policy has no x509.subject identity"
				}
				r.Violation(map[string]string{"kind": "pass-without-match", "shape": c.Shape}, "authenticity passed although "+why, wit)
			case !pass && wantAny:
				r.Event("completeness:contained-but-rejected")
				r.Sample("contained but rejected", wit)
			}
		}
		// ---- an identity that cannot be interpreted fails closed EVEN NEXT TO a matching one. Policy validation keeps such
		// identities out at construction, so the only way one reaches the check is a document edited afterwards by its
		// owner. Whether the verifier sees later edits at all is its business: a probe (replace the identities by a
		// foreign one - does authenticity now fail?) decides that first; only then is the clause judged.
		if i%4 == 1 && wantAny && allValid && !wild && !revOnlyPlugin && !honestTI && !overlap(c.Identities) {
			var idStrs []string
			for _, id := range c.Identities {
				idStrs = append(idStrs, render(id, rng, 0))
			}
			doc := lib.OCIPolicy(L.SV(i), []string{"ca:x"}, idStrs)
			if v, err := verifier.NewVerifierWithOptions(ts, verifier.VerifierOptions{OCITrustPolicy: doc, RevocationCodeSigningValidator: lib.OKRev{}, RevocationTimestampingValidator: lib.OKRev{}}); err == nil {
				authPass := func() (bool, bool) {
					out, _ := v.Verify(context.Background(), desc, sig, notation.VerifierVerifyOptions{ArtifactReference: "r.io/a@" + desc.Digest.String(), SignatureMediaType: format})
					if out == nil {
						return false, false
					}
					for _, res := range out.VerificationResults {
						if res.Type == trustpolicy.TypeAuthenticity {
							return res.Error == nil, true
						}
					}
					return false, false
				}
				if p0, ok0 := authPass(); ok0 && p0 {
					doc.TrustPolicies[0].TrustedIdentities = []string{"x509.subject:C=ZZ,ST=ZZ,O=Nobody"}
					if p1, ok1 := authPass(); ok1 && !p1 { // the verifier reads the live document
						bad := []string{"x509.subject:C=US,,O=x", "x509.subject:C=US,ST=WA", "x509.subject:=", "x509.subject:C=US,ST=WA,O=Org,OU=a,OU=b", "x509.subject:C=US+ST=WA,O=Org"}[rng.Intn(5)]
						ids := append(append([]string{}, idStrs...), bad)
						if rng.Bool() {
							ids = append([]string{bad}, idStrs...)
						}
						doc.TrustPolicies[0].TrustedIdentities = ids
						r.Event("uninterpretable-identity-next-to-matching-one")
						if p2, ok2 := authPass(); ok2 && p2 {
							r.Violation(map[string]string{"kind": "pass-with-uninterpretable-identity", "shape": c.Shape}, fmt.Sprintf("authenticity passed although the statement lists the uninterpretable identity %q (next to a matching one): must fail closed", bad), map[string]any{"identities": ids, "leaf_subject": leaf.Cert.Subject.String()})
						}
						// ... and a statement left with NO identity at all (emptied the same way) has no x509.subject identity
						doc.TrustPolicies[0].TrustedIdentities = [][]string{nil, {}, {"did:example:only-another-kind"}}[rng.Intn(3)]
						r.Event("statement-left-without-any-x509-identity")
						if p3, ok3 := authPass(); ok3 && p3 {
							r.Violation(map[string]string{"kind": "pass-without-any-identity", "shape": c.Shape}, fmt.Sprintf("authenticity passed although the statement's identity list is %q: a policy without any x509.subject identity fails closed", doc.TrustPolicies[0].TrustedIdentities), map[string]any{"leaf_subject": leaf.Cert.Subject.String()})
						}
					} else {
						r.Event("verifier-does-not-see-later-edits")
					}
				}
			}
		}
		// ---- one verifier holding an OCI and a blob statement with the SAME name but different identities: what one
		// interface evaluated must not leak into the other (identities belong to the applicable statement of THAT call)
		if i%4 == 0 && len(c.Identities) > 0 && allValid && !overlap(c.Identities) {
			var idStrs []string
			for _, id := range c.Identities {
				idStrs = append(idStrs, render(id, rng, 0))
			}
			foreign := []string{"x509.subject:C=ZZ,ST=ZZ,O=Nobody"}
			sv := L.SV(i)
			od := lib.OCIPolicy(sv, []string{"ca:x"}, idStrs)
			bd := lib.BlobPolicy(sv, []string{"ca:x"}, foreign)
			ociFirst := i%8 == 0
			if !ociFirst {
				od, bd = lib.OCIPolicy(sv, []string{"ca:x"}, foreign), lib.BlobPolicy(sv, []string{"ca:x"}, idStrs)
			}
			if v, err := verifier.NewVerifierWithOptions(ts, verifier.VerifierOptions{OCITrustPolicy: od, BlobTrustPolicy: bd, RevocationCodeSigningValidator: lib.OKRev{}, RevocationTimestampingValidator: lib.OKRev{}}); err == nil {
				blob := []byte("c04 blob")
				bdesc := lib.Desc("application/octet-stream", blob)
				bsig := lib.MustCoreSign(lib.SignSpec{Format: format, Payload: lib.Payload(bdesc), Signer: leaf})
				authOf := func(out *notation.VerificationOutcome) (pass, ok bool) {
					if out == nil {
						return false, false
					}
					for _, res := range out.VerificationResults {
						if res.Type == trustpolicy.TypeAuthenticity {
							return res.Error == nil, true
						}
					}
					return false, false
				}
				verifyOCI := func() (bool, bool) {
					out, _ := v.Verify(context.Background(), desc, sig, notation.VerifierVerifyOptions{ArtifactReference: "r.io/a@" + desc.Digest.String(), SignatureMediaType: format})
					return authOf(out)
				}
				verifyBlob := func() (bool, bool) {
					out, _ := v.VerifyBlob(context.Background(), func(alg digest.Algorithm) (ocispec.Descriptor, error) { return bdesc, nil }, bsig, notation.BlobVerifierVerifyOptions{SignatureMediaType: format})
					return authOf(out)
				}
				// first the interface that carries the case's identities, then the one pinned to a foreign identity
				var firstPass, secondPass, ok1, ok2 bool
				if ociFirst {
					firstPass, ok1 = verifyOCI()
					secondPass, ok2 = verifyBlob()
				} else {
					firstPass, ok1 = verifyBlob()
					secondPass, ok2 = verifyOCI()
				}
				r.Event("shared-verifier-sequences")
				wit := map[string]any{"case": c, "leaf_subject": leaf.Cert.Subject.String(), "identities_of_first_statement": idStrs, "identities_of_second_statement": foreign, "oci_first": ociFirst}
				if ok1 && firstPass && !wantAny {
					r.Violation(map[string]string{"kind": "pass-without-match", "shape": c.Shape + "/shared-verifier"}, "authenticity passed although no listed identity is contained in the leaf subject (verifier with OCI and blob policy)", wit)
				}
				if ok2 && secondPass {
					r.Violation(map[string]string{"kind": "identity-leaks-between-statements", "shape": c.Shape}, "a statement pinned to a foreign identity passed authenticity after a same-named statement of the other policy kind had been evaluated on the same verifier", wit)
				}
			}
		}
		key := ""
		seen := map[string]bool{}
		for _, vd := range verdicts {
			seen[vd] = true
			if vd != "policy-rejected" {
				key = lib.JS(c)
			}
		}
		r.Eval(key)
		r.Event("shape:" + c.Shape)
		r.Sample("case "+c.Shape, map[string]any{"subject": leaf.Cert.Subject.String(), "identities": c.Identities, "extra": c.Extra, "verdicts": fmt.Sprint(verdicts)})
		if len(seen) > 1 {
			r.Violation(map[string]string{"kind": "metamorphic", "shape": c.Shape},
				fmt.Sprintf("equivalent renderings of one identity list give different verdicts: %v", verdicts),
				map[string]any{"case": c, "leaf_subject": leaf.Cert.Subject.String()})
		}
	}, r.PanicViolation("verifier.Verify"))
	guarded(r, "certificates sharing a key", func() { sameKeyOtherSubject(r) })
	guarded(r, "dotted-decimal identities", func() { dottedDecimalIdentities(r) })
	r.RequireAtLeast("authenticity-pass", int64(n/4))
	r.RequireAtLeast("authenticity-fail", int64(n/4))
	r.Extra["completeness_note"] = "events completeness:* count cases where the library is stricter than the statement requires; they are reported, not judged"
	r.Finish()
}

func overlap(ids [][]av) bool {
	for i := range ids {
		for j := range ids {
			if i != j && subset(ids[i], ids[j]) {
				return true
			}
		}
	}
	return false
}

// sameKeyOtherSubject: two certificates of ONE key (same subject key identifier, as after a re-issue under another name)
// with different subjects, verified one after the other in this process and on one verifier, in both orders: each is
// matched against ITS OWN subject - the pinned one passes, the other fails, whatever was verified before.
func sameKeyOtherSubject(r *lib.Run) {
	ctx := context.Background()
	root := lib.Mint(nil, lib.CertSpec{CN: "c04-samekey-root", Kind: "ca", KeyIdx: 7})
	desc := lib.Desc("application/vnd.oci.image.manifest.v1+json", []byte("c04 same key"))
	for k := 0; k < 6; k++ {
		spec := lib.KeySpecs[k%len(lib.KeySpecs)]
		pinned := lib.Mint(root, lib.CertSpec{Kind: "codesign", KeySpec: spec, KeyIdx: 1, Subject: &pkix.Name{CommonName: "release signer", Organization: []string{"Org"}, Country: []string{"US"}, Province: []string{"WA"}}})
		other := lib.Mint(root, lib.CertSpec{Kind: "codesign", KeySpec: spec, KeyIdx: 1, Subject: &pkix.Name{CommonName: "release signer", Organization: []string{"Other Org"}, Country: []string{"US"}, Province: []string{"WA"}}})
		doc := lib.OCIPolicy(trustpolicy.SignatureVerification{VerificationLevel: "strict"}, []string{"ca:x"}, []string{"x509.subject:C=US,ST=WA,O=Org"})
		v, err := verifier.NewVerifierWithOptions(lib.NewMemTS().Put("ca:x", root.Cert), verifier.VerifierOptions{OCITrustPolicy: doc, RevocationCodeSigningValidator: lib.OKRev{}, RevocationTimestampingValidator: lib.OKRev{}})
		if err != nil {
			panic(err)
		}
		order := []*lib.Ent{pinned, other, pinned, other}
		if k%2 == 1 {
			order = []*lib.Ent{other, pinned, other}
		}
		for step, e := range order {
			format := lib.Formats[(k+step)%2]
			sig := lib.MustCoreSign(lib.SignSpec{Format: format, Payload: lib.Payload(desc), Signer: e})
			_, verr := v.Verify(ctx, desc, sig, notation.VerifierVerifyOptions{ArtifactReference: "r.io/a@" + desc.Digest.String(), SignatureMediaType: format})
			r.Eval(fmt.Sprintf("same-key|%d|%d", k, step))
			r.Event("verifications-of-certificates-sharing-a-key")
			want := e == pinned
			if (verr == nil) != want {
				kind := "pass-without-match"
				if want {
					kind = "fail-despite-match"
				}
				r.Violation(map[string]string{"kind": kind, "shape": "same-key-other-subject"}, fmt.Sprintf("key %s, step %d: the leaf with subject %q verified=%v under the identity C=US,ST=WA,O=Org (another certificate of the same key, subject %q, was verified before or after it): %v", spec, step+1, e.Cert.Subject.String(), verr == nil, map[bool]*lib.Ent{true: other, false: pinned}[want].Cert.Subject.String(), verr), nil)
			}
		}
	}
}

// dottedDecimalIdentities: identities that spell their attribute TYPES as dotted-decimal object identifiers (RFC 4514
// allows it) with the leaf's values permuted among the types (O <-> OU, CN <-> L, ...): whether or not a tree
// understands the dotted form, the leaf does not carry those attributes with those values - refused as a policy, or no match.
func dottedDecimalIdentities(r *lib.Run) {
	ctx := context.Background()
	root := lib.Mint(nil, lib.CertSpec{CN: "c04-dotted-root", Kind: "ca", KeyIdx: 7})
	desc := lib.Desc("application/vnd.oci.image.manifest.v1+json", []byte("c04 dotted"))
	leaf := lib.Mint(root, lib.CertSpec{Kind: "codesign", KeyIdx: 2, Subject: &pkix.Name{CommonName: "Build Bot", Locality: []string{"Seattle"}, Organization: []string{"Release"}, OrganizationalUnit: []string{"Acme Rockets"}, Country: []string{"US"}, Province: []string{"WA"}, StreetAddress: []string{"1 Main St"}, PostalCode: []string{"98101"}}})
	oid := map[string]string{"CN": "2.5.4.3", "C": "2.5.4.6", "L": "2.5.4.7", "ST": "2.5.4.8", "STREET": "2.5.4.9", "O": "2.5.4.10", "OU": "2.5.4.11", "POSTALCODE": "2.5.4.17"}
	val := map[string]string{"CN": "Build Bot", "C": "US", "L": "Seattle", "ST": "WA", "STREET": "1 Main St", "O": "Release", "OU": "Acme Rockets", "POSTALCODE": "98101"}
	swaps := [][2]string{{"O", "OU"}, {"CN", "L"}, {"O", "CN"}, {"OU", "L"}, {"STREET", "POSTALCODE"}, {"O", "STREET"}, {"OU", "POSTALCODE"}, {"ST", "L"}}
	for si, sw := range swaps {
		for _, dottedAll := range []bool{true, false} {
			var parts []string
			for _, t := range []string{"C", "ST", "O", "OU", "CN", "L", "STREET", "POSTALCODE"} {
				v := val[t]
				if t == sw[0] {
					v = val[sw[1]]
				} else if t == sw[1] {
					v = val[sw[0]]
				}
				name := t
				if dottedAll || t == sw[0] || t == sw[1] {
					name = oid[t]
				}
				parts = append(parts, name+"="+v)
			}
			id := "x509.subject:" + strings.Join(parts, ",")
			for li, ids := range [][]string{{id}, {"x509.subject:C=US,ST=WA,O=Somebody Else", id}} {
				r.Eval(fmt.Sprintf("dotted|%d|%v|%d", si, dottedAll, li))
				r.Event("identities-with-dotted-decimal-types-and-permuted-values")
				doc := lib.OCIPolicy(trustpolicy.SignatureVerification{VerificationLevel: "strict"}, []string{"ca:x"}, ids)
				v, err := verifier.NewVerifierWithOptions(lib.NewMemTS().Put("ca:x", root.Cert), verifier.VerifierOptions{OCITrustPolicy: doc, RevocationCodeSigningValidator: lib.OKRev{}, RevocationTimestampingValidator: lib.OKRev{}})
				if err != nil {
					r.Event("policy-rejected")
					continue
				}
				format := lib.Formats[(si+li)%2]
				sig := lib.MustCoreSign(lib.SignSpec{Format: format, Payload: lib.Payload(desc), Signer: leaf})
				if _, verr := v.Verify(ctx, desc, sig, notation.VerifierVerifyOptions{ArtifactReference: "r.io/a@" + desc.Digest.String(), SignatureMediaType: format}); verr == nil {
					r.Violation(map[string]string{"kind": "pass-without-match", "shape": "identity-dotted-decimal-types-permuted-values"},
						fmt.Sprintf("the leaf %q verified under the identity %q, which assigns the values of %s and %s to each other's types", leaf.Cert.Subject.String(), id, sw[0], sw[1]), nil)
				}
			}
		}
	}
}

// guarded runs a phase; a panic of the library inside it is a violation like any other, not the end of the monitor.
func guarded(r *lib.Run, where string, f func()) {
	defer func() {
		if p := recover(); p != nil {
			r.Violation(map[string]string{"kind": "panic", "where": where}, fmt.Sprintf("%s: the library panicked: %v", where, p), nil)
		}
	}()
	f()
}
