// C02 — the verification level alone decides which failed validations reject.
//
// Every cell of the decision table named in the property's quantifier is
// EXECUTED against verifier.Verify with scripted collaborators; a decision model
// written from the statement (DESIGN.md appendix A) says accept/reject, a
// call-log monitor watches the revocation validator and the plugin, a result
// monitor checks actions and reported failures, and a relational monitor checks
// monotonicity along every single enforce->log weakening.
package main

import (
	"context"
	"crypto/x509"
	"errors"
	"fmt"
	"sync"
	"time"

	"github.com/notaryproject/notation-core-go/revocation"
	"github.com/notaryproject/notation-core-go/revocation/result"
	"github.com/notaryproject/notation-core-go/signature"
	"github.com/notaryproject/notation-go"
	"github.com/notaryproject/notation-go/plugin"
	"github.com/notaryproject/notation-go/verifharness/lib"
	"github.com/notaryproject/notation-go/verifier"
	"github.com/notaryproject/notation-go/verifier/trustpolicy"
	pf "github.com/notaryproject/notation-plugin-framework-go/plugin"
	"github.com/opencontainers/go-digest"
	ocispec "github.com/opencontainers/image-spec/specs-go/v1"
)

const TI, REV = pf.CapabilityTrustedIdentityVerifier, pf.CapabilityRevocationCheckVerifier

type revScript struct {
	mu     sync.Mutex
	status string // ok revoked unknown err
	calls  int
}

func (r *revScript) ValidateContext(ctx context.Context, o revocation.ValidateContextOptions) ([]*result.CertRevocationResult, error) {
	r.mu.Lock()
	r.calls++
	r.mu.Unlock()
	if r.status == "err" {
		return nil, errors.New("validator down")
	}
	out := make([]*result.CertRevocationResult, len(o.CertChain))
	for i := range out {
		out[i] = &result.CertRevocationResult{Result: result.ResultOK}
	}
	switch r.status {
	case "revoked":
		out[0].Result = result.ResultRevoked
	case "unknown":
		out[len(out)-1].Result = result.ResultUnknown
	}
	return out, nil
}

type plug struct {
	version    string
	caps       []pf.Capability
	verdict    map[pf.Capability]string // success failure missing
	process    bool
	calls      int
	lastCaps   []pf.Capability
	lastUnproc []string
	metaErr    bool // get-plugin-metadata fails
	verifyErr  bool // verify-signature fails instead of answering
	answerAll  bool // answer success for whatever capability is asked for, known or not
}

const likeKey = lib.HdrPlugin + "Policy"

func (p *plug) GetMetadata(ctx context.Context, req *pf.GetMetadataRequest) (*pf.GetMetadataResponse, error) {
	if p.metaErr {
		return nil, errors.New("scripted plugin: metadata unavailable")
	}
	return &pf.GetMetadataResponse{Name: "plug", Description: "d", Version: p.version, URL: "u", SupportedContractVersions: []string{"1.0"}, Capabilities: p.caps}, nil
}
func (p *plug) DescribeKey(ctx context.Context, req *pf.DescribeKeyRequest) (*pf.DescribeKeyResponse, error) {
	return nil, errors.New("no")
}
func (p *plug) GenerateSignature(ctx context.Context, req *pf.GenerateSignatureRequest) (*pf.GenerateSignatureResponse, error) {
	return nil, errors.New("no")
}
func (p *plug) GenerateEnvelope(ctx context.Context, req *pf.GenerateEnvelopeRequest) (*pf.GenerateEnvelopeResponse, error) {
	return nil, errors.New("no")
}
func (p *plug) VerifySignature(ctx context.Context, req *pf.VerifySignatureRequest) (*pf.VerifySignatureResponse, error) {
	p.calls++
	p.lastCaps = append([]pf.Capability(nil), req.TrustPolicy.SignatureVerification...)
	p.lastUnproc = append([]string(nil), req.Signature.UnprocessedAttributes...)
	if p.verifyErr {
		return nil, errors.New("scripted plugin: verify-signature failed")
	}
	resp := &pf.VerifySignatureResponse{VerificationResults: map[pf.Capability]*pf.VerificationResult{}}
	for _, c := range req.TrustPolicy.SignatureVerification {
		switch p.verdict[c] {
		case "success":
			resp.VerificationResults[c] = &pf.VerificationResult{Success: true}
		case "failure":
			resp.VerificationResults[c] = &pf.VerificationResult{Success: false, Reason: "scripted failure"}
		case "":
			if p.answerAll {
				resp.VerificationResults[c] = &pf.VerificationResult{Success: true}
			}
		}
	}
	if p.process {
		resp.ProcessedAttributes = append(resp.ProcessedAttributes, anys(req.Signature.UnprocessedAttributes)...)
	}
	return resp, nil
}

func anys(s []string) []any {
	out := make([]any, len(s))
	for i, x := range s {
		out[i] = x
	}
	return out
}

type mgr struct {
	p        *plug
	notFound bool
	gets     int
}

func (m *mgr) Get(ctx context.Context, name string) (pf.Plugin, error) {
	m.gets++
	if m.notFound {
		return nil, errors.New("plugin not installed")
	}
	return m.p, nil
}
func (m *mgr) List(ctx context.Context) ([]string, error) { return nil, nil }

type cell struct {
	Format, Scheme            string
	L                         lib.LevelMap
	Anchor                    string
	Ident, Expired, CertValid bool
	Rev                       string
	Plugin                    string // none managerNil notInstalled tooOld tooOldPre noCap TI REV TIREV TIminEq TIminAbove
	VTI, VREV                 string
	Crit                      string // none processed unprocessed intKeyed
}

func (c cell) facts() string {
	return fmt.Sprintf("%s|%s|%s|%v|%v|%v|%s|%s|%s|%s|%s", c.Format, c.Scheme, c.Anchor, c.Ident, c.Expired, c.CertValid, c.Rev, c.Plugin, c.VTI, c.VREV, c.Crit)
}

func has(cs []pf.Capability, c pf.Capability) bool {
	for _, x := range cs {
		if x == c {
			return true
		}
	}
	return false
}

func capsOf(plugin string) []pf.Capability {
	switch plugin {
	case "TI", "TIminEq", "TIminAbove", "TImetaErr", "TIverifyErr":
		return []pf.Capability{TI}
	case "REV":
		return []pf.Capability{REV}
	case "TIREV":
		return []pf.Capability{TI, REV}
	case "REVTI": // the same two capabilities, declared in the other order
		return []pf.Capability{REV, TI}
	}
	return nil
}

type verdict struct {
	accept    bool
	why       string
	requested []pf.Capability
	ran       bool
	fail      map[trustpolicy.ValidationType]bool
	revDone   bool
}

// model is the decision model of DESIGN.md appendix A (written from the statement).
func model(c cell) verdict {
	v := verdict{fail: map[trustpolicy.ValidationType]bool{}}
	switch c.Plugin {
	case "managerNil", "notInstalled", "tooOld", "tooOldPre", "noCap", "noCapUnknown", "noCapLower", "TImetaErr", "tooOldMalformedMin":
		v.why = "plugin-unusable"
		return v
	}
	caps := capsOf(c.Plugin)
	for _, k := range caps {
		if k == REV && c.L.Rev == "skip" {
			continue
		}
		v.requested = append(v.requested, k)
	}
	v.ran = c.Plugin != "none" && len(v.requested) > 0
	authFail := c.Anchor != "found" || (!has(caps, TI) && !c.Ident) || (has(v.requested, TI) && c.VTI == "failure")
	v.revDone = c.L.Rev != "skip"
	revFail := v.revDone && ((!has(caps, REV) && c.Rev != "ok") || (has(v.requested, REV) && c.VREV == "failure"))
	v.fail[trustpolicy.TypeAuthenticity] = authFail
	v.fail[trustpolicy.TypeExpiry] = c.Expired
	v.fail[trustpolicy.TypeAuthenticTimestamp] = !c.CertValid
	v.fail[trustpolicy.TypeRevocation] = revFail
	switch {
	case authFail && c.L.Auth == "enforce":
		v.why = "auth"
	case c.Expired && c.L.Exp == "enforce":
		v.why = "expiry"
	case !c.CertValid && c.L.TS == "enforce":
		v.why = "timestamp"
	case revFail && c.L.Rev == "enforce":
		v.why = "revocation"
	case v.ran && has(v.requested, TI) && c.VTI == "missing", v.ran && has(v.requested, REV) && c.VREV == "missing":
		v.why = "verdict-missing"
	case c.Crit == "intKeyed":
		v.why = "crit-int-keyed-nothing-processes-it"
	case (c.Crit == "unprocessed" || c.Crit == "unprocessedLike") && v.ran:
		v.why = "crit-left-unprocessed-by-plugin"
	case c.Crit != "none" && !v.ran && c.Plugin == "none":
		v.why = "crit-no-plugin-named"
	case c.Crit != "none" && !v.ran:
		v.why = "crit-plugin-not-run"
	default:
		v.accept = true
	}
	return v
}

type envKey struct {
	format, scheme     string
	certValid, expired bool
	named              string // no yes yesmin
	crit               string // none str int
}

func main() {
	r := lib.Start("C02", "exploration")
	r.Rule = "every cell of {format x scheme} x 24 enforcement maps x anchor{found,notfound,loaderr} x identity x expired x chain-valid x revocation{ok,revoked,unknown,err} x plugin situation (15) x plugin verdicts x critical attribute state is executed against verifier.Verify; a cell is non-trivial and distinct by its full tuple"
	r.Assumptions = []string{
		"notation-core-go (envelope parsing, integrity) is the trusted reference",
		"all generated instants are >= 10 days away from now, so verdicts do not depend on the wall clock",
		"a plugin command that fails delivers no verdict (situations TImetaErr, TIverifyErr); non-critical extended attributes are outside the quantifier and not generated",
	}
	now := time.Now()
	day := 24 * time.Hour
	root := lib.Mint(nil, lib.CertSpec{CN: "c02-root", Kind: "ca", KeyIdx: 7})
	leafOK := lib.Mint(root, lib.CertSpec{CN: "leaf", Kind: "codesign", NotBefore: now.Add(-100 * day), NotAfter: now.Add(100 * day)})
	leafExp := lib.Mint(root, lib.CertSpec{CN: "leafexp", Kind: "codesign", KeyIdx: 1, NotBefore: now.Add(-100 * day), NotAfter: now.Add(-10 * day)})
	other := lib.Mint(nil, lib.CertSpec{CN: "other-root", Kind: "ca", KeyIdx: 5})
	desc := lib.Desc(ocispec.MediaTypeImageManifest, []byte("c02 artifact"))
	payload := lib.Payload(desc)

	combos := [][2]string{{lib.MediaJWS, "notary.x509"}}
	if r.Thorough() {
		combos = [][2]string{{lib.MediaJWS, "notary.x509"}, {lib.MediaCOSE, "notary.x509"}, {lib.MediaJWS, "notary.x509.signingAuthority"}, {lib.MediaCOSE, "notary.x509.signingAuthority"}}
	}

	// ---- pre-signed envelopes
	envs := map[envKey][]byte{}
	build := func(k envKey) []byte {
		if b, ok := envs[k]; ok {
			return b
		}
		var ext []lib.ExtAttr
		if k.named != "no" {
			ext = append(ext, lib.ExtAttr{Key: lib.HdrPlugin, Value: "plug", Critical: true})
		}
		if k.named == "yesmin" {
			ext = append(ext, lib.ExtAttr{Key: lib.HdrPluginMinVer, Value: "2.0.0", Critical: true})
		}
		if k.named == "yesminTail" { // a vendor-style four-part minimum version: whatever it means, 1.0.0 is older
			ext = append(ext, lib.ExtAttr{Key: lib.HdrPluginMinVer, Value: "2.1.0.0", Critical: true})
		}
		switch k.crit {
		case "str":
			ext = append(ext, lib.ExtAttr{Key: "com.example.crit", Value: "v", Critical: true})
		case "strLike": // a foreign critical attribute whose name merely begins like the library's own two plugin headers
			ext = append(ext, lib.ExtAttr{Key: likeKey, Value: "v", Critical: true})
		case "int":
			ext = append(ext, lib.ExtAttr{Key: int64(4242), Value: "v", Critical: true})
		}
		sa := k.scheme == "notary.x509.signingAuthority"
		leaf := leafOK
		signTime := now.Add(-20 * day)
		if !k.certValid {
			if sa {
				signTime = now.Add(-200 * day) // authentic signing time before the leaf's window
			} else {
				leaf = leafExp // chain no longer valid at verification time, no timestamping configured
			}
		}
		var expiry time.Time
		if k.expired {
			expiry = signTime.Add(time.Hour)
		}
		var raw []byte
		useHand := k.crit == "int" || (sa && !k.certValid)
		if useHand {
			raw = lib.HandSign(lib.HandSpec{Format: k.format, Scheme: k.scheme, Payload: payload, Signer: leaf, SigningTime: signTime, Expiry: expiry, Ext: ext})
		} else {
			var cext []signature.Attribute
			for _, a := range ext {
				cext = append(cext, signature.Attribute{Key: a.Key, Value: a.Value, Critical: a.Critical})
			}
			raw = lib.MustCoreSign(lib.SignSpec{Format: k.format, Scheme: signature.SigningScheme(k.scheme), Payload: payload, Signer: leaf, SigningTime: signTime, Expiry: expiry, Ext: cext})
		}
		if _, err := lib.RefVerify(k.format, raw); err != nil {
			panic(fmt.Sprintf("harness bug: reference verifier rejects base envelope %+v: %v", k, err))
		}
		envs[k] = raw
		return raw
	}

	// ---- cell list
	var cells []cell
	plugins := []string{"none", "managerNil", "notInstalled", "tooOld", "tooOldPre", "noCap", "TI", "REV", "TIREV", "TIminEq", "TIminAbove", "TImetaErr", "TIverifyErr", "REVTI", "tooOldMalformedMin"}
	for ci, fs := range combos {
		crits := []string{"none", "processed", "unprocessed"}
		if fs[0] == lib.MediaCOSE {
			crits = append(crits, "intKeyed")
		}
		for _, L := range lib.AllLevelMaps() {
			for _, anchor := range []string{"found", "notfound", "loaderr", "empty"} {
				for _, ident := range []bool{true, false} {
					for _, expired := range []bool{false, true} {
						for _, certValid := range []bool{true, false} {
							for _, rev := range []string{"ok", "revoked", "unknown", "err"} {
								for _, plugin := range plugins {
									vTIs, vREVs := []string{"success"}, []string{"success"}
									if has(capsOf(plugin), TI) {
										vTIs = []string{"success", "failure", "missing"}
									}
									if has(capsOf(plugin), REV) {
										vREVs = []string{"success", "failure", "missing"}
									}
									if plugin == "TImetaErr" || plugin == "TIverifyErr" {
										vTIs = []string{"missing"} // a command that fails delivers no verdict
									}
									for _, vTI := range vTIs {
										for _, vREV := range vREVs {
											for _, crit := range crits {
												cells = append(cells, cell{Format: fs[0], Scheme: fs[1], L: L, Anchor: anchor, Ident: ident, Expired: expired, CertValid: certValid, Rev: rev, Plugin: plugin, VTI: vTI, VREV: vREV, Crit: crit})
											}
										}
									}
								}
							}
						}
					}
				}
			}
		}
		_ = ci
	}
	// both tiers, reduced product: trust-store lists in which one named store cannot be loaded while another one holds the
	// anchor (a store load error is a failed authenticity validation wherever it occurs in the list); plugins that declare
	// capabilities, none of which is a verification capability; a critical attribute named like the library's own headers
	for _, fs := range combos {
		for _, L := range lib.AllLevelMaps() {
			for _, anchor := range []string{"foundThenLoaderr", "loaderrThenFound"} {
				for _, plugin := range []string{"none", "TI", "TIREV"} {
					for _, ident := range []bool{true, false} {
						cells = append(cells, cell{Format: fs[0], Scheme: fs[1], L: L, Anchor: anchor, Ident: ident, CertValid: true, Rev: "ok", Plugin: plugin, VTI: "success", VREV: "success", Crit: "none"})
					}
				}
			}
			for _, plugin := range []string{"noCapUnknown", "noCapLower"} {
				for _, anchor := range []string{"found", "notfound"} {
					for _, rev := range []string{"ok", "revoked"} {
						cells = append(cells, cell{Format: fs[0], Scheme: fs[1], L: L, Anchor: anchor, Ident: true, CertValid: true, Rev: rev, Plugin: plugin, VTI: "success", VREV: "success", Crit: "none"})
					}
				}
			}
			for _, plugin := range []string{"TI", "REV", "TIREV"} {
				for _, crit := range []string{"processedLike", "unprocessedLike"} {
					cells = append(cells, cell{Format: fs[0], Scheme: fs[1], L: L, Anchor: "found", Ident: true, CertValid: true, Rev: "ok", Plugin: plugin, VTI: "success", VREV: "success", Crit: crit})
				}
			}
		}
	}
	if r.Quick() {
		// quick tier: the less used signing scheme on a reduced product (its certificate-time check is a branch of its own)
		for _, L := range lib.AllLevelMaps() {
			for _, certValid := range []bool{true, false} {
				for _, anchor := range []string{"found", "notfound"} {
					for _, rev := range []string{"ok", "revoked"} {
						cells = append(cells, cell{Format: lib.MediaJWS, Scheme: "notary.x509.signingAuthority", L: L, Anchor: anchor, Ident: true, CertValid: certValid, Rev: rev, Plugin: "none", VTI: "success", VREV: "success", Crit: "none"})
					}
				}
			}
		}
		// quick tier: the integer-keyed COSE critical attribute (nothing can process it) under a reduced product
		for _, L := range lib.AllLevelMaps() {
			for _, plugin := range []string{"none", "TI", "REV", "TIREV"} {
				for _, anchor := range []string{"found", "notfound"} {
					for _, crit := range []string{"intKeyed", "none", "unprocessed", "processed"} {
						cells = append(cells, cell{Format: lib.MediaCOSE, Scheme: "notary.x509", L: L, Anchor: anchor, Ident: true, CertValid: true, Rev: "ok", Plugin: plugin, VTI: "success", VREV: "success", Crit: crit})
					}
				}
			}
		}
	}
	// pre-build all envelopes sequentially (signing is not the code under test)
	keyOf := func(c cell) envKey {
		named := "yes"
		switch c.Plugin {
		case "none":
			named = "no"
		case "tooOld", "tooOldPre", "TIminEq", "TIminAbove":
			named = "yesmin"
		case "tooOldMalformedMin":
			named = "yesminTail"
		}
		crit := "none"
		switch c.Crit {
		case "processed", "unprocessed":
			crit = "str"
		case "processedLike", "unprocessedLike":
			crit = "strLike"
		case "intKeyed":
			crit = "int"
		}
		return envKey{c.Format, c.Scheme, c.CertValid, c.Expired, named, crit}
	}
	for _, c := range cells {
		build(keyOf(c))
	}
	r.Extra["distinct_envelopes"] = len(envs)

	// ---- execute
	accepted := make([]bool, len(cells))
	lib.Parallel(len(cells), 16, func(i int) {
		c := cells[i]
		sig := envs[keyOf(c)]
		storeType := "ca"
		if c.Scheme == "notary.x509.signingAuthority" {
			storeType = "signingAuthority"
		}
		ts := lib.NewMemTS()
		switch c.Anchor {
		case "found", "foundThenLoaderr", "loaderrThenFound":
			ts.Put(storeType+":x", root.Cert)
		case "notfound":
			ts.Put(storeType+":x", other.Cert)
		case "empty": // the store loads but delivers nothing: authenticity fails the "inconclusive" way, the level still decides
			ts.Stores[storeType+":x"] = []*x509.Certificate{}
		}
		id := "x509.subject:C=US,ST=WA,O=Org"
		if !c.Ident {
			id = "x509.subject:C=US,ST=WA,O=Other"
		}
		ids := []string{id}
		if i%4 == 3 { // identities of another kind listed first are simply not x509.subject identities
			ids = []string{"acme.signer.id:1234", "did:example:abc", id}
		}
		if i%4 == 1 { // several x509.subject identities, the one that decides not in first place: ANY listed identity may match
			ids = []string{"x509.subject:C=US,ST=WA,O=Decoy One", id}
			if i%8 == 5 {
				ids = []string{"x509.subject:C=DE,ST=BE,O=Decoy Two", "x509.subject:C=US,ST=WA,O=Decoy One,OU=Unit", id}
			}
			r.Event("cells-with-several-subject-identities")
		}
		stores := []string{storeType + ":x"}
		switch c.Anchor {
		case "foundThenLoaderr":
			stores = []string{storeType + ":x", storeType + ":broken"}
		case "loaderrThenFound":
			stores = []string{storeType + ":broken", storeType + ":x"}
		}
		doc := lib.OCIPolicy(c.L.SV(i), stores, ids)
		rs := &revScript{status: c.Rev}
		p := &plug{version: "1.0.0", verdict: map[pf.Capability]string{TI: c.VTI, REV: c.VREV}, process: c.Crit == "processed" || c.Crit == "processedLike", caps: capsOf(c.Plugin)}
		switch c.Plugin {
		case "noCapUnknown": // capabilities of some later contract: not verification capabilities this library knows
			p.caps = []pf.Capability{"SIGNATURE_VERIFIER.SIGNING_TIME_CHECK", pf.CapabilitySignatureGenerator}
			p.answerAll = true
		case "noCapLower": // capability names are case-sensitive
			p.caps = []pf.Capability{"signature_verifier.trusted_identity", "Signature_Verifier.Revocation_Check"}
			p.answerAll = true
		case "noCap":
			p.caps = []pf.Capability{pf.CapabilitySignatureGenerator, pf.CapabilityEnvelopeGenerator}
		case "tooOldMalformedMin":
			p.caps = []pf.Capability{TI}
			p.version = "1.0.0"
		case "tooOld":
			p.caps = []pf.Capability{TI}
			p.version = "1.99.99"
		case "tooOldPre":
			p.caps = []pf.Capability{TI}
			p.version = "2.0.0-rc.1"
		case "TImetaErr":
			p.metaErr = true
		case "TIverifyErr":
			p.verifyErr = true
		case "TIminEq":
			p.version = "2.0.0+build.7"
		case "TIminAbove":
			p.version = "10.0.0"
		}
		opts := verifier.VerifierOptions{OCITrustPolicy: doc, RevocationTimestampingValidator: lib.OKRev{}}
		if i%2 == 0 {
			opts.RevocationCodeSigningValidator = rs
		} else {
			opts.RevocationClient = legacy{rs} // deprecated interface, same script
		}
		var m *mgr
		if c.Plugin != "managerNil" {
			m = &mgr{p: p, notFound: c.Plugin == "notInstalled"}
			opts.PluginManager = m
		}
		// every fifth cell goes through the BLOB entry point, under a blob statement with the very same level and overrides
		blobCell := i%5 == 2 && (i/2)%3 != 2
		if blobCell {
			opts.BlobTrustPolicy = lib.BlobPolicy(c.L.SV(i), stores, ids)
			if i%10 == 2 {
				opts.OCITrustPolicy = nil // (a blob-only verifier)
			}
		}
		var v notation.Verifier
		var err error
		if (i/2)%3 == 2 { // combined with both validator interfaces (i%2)
			// the deprecated constructor must behave identically
			var pmgr plugin.Manager
			if m != nil {
				pmgr = m
			}
			o2 := opts
			o2.OCITrustPolicy, o2.PluginManager = nil, nil
			v, err = verifier.NewWithOptions(doc, ts, pmgr, o2)
		} else {
			v, err = verifier.NewVerifierWithOptions(ts, opts)
		}
		if err != nil {
			panic(fmt.Sprintf("harness bug: verifier construction failed: %v", err))
		}
		var out *notation.VerificationOutcome
		var verr error
		if blobCell {
			r.Event("cells-through-the-blob-entry-point")
			out, verr = v.(notation.BlobVerifier).VerifyBlob(context.Background(), func(digest.Algorithm) (ocispec.Descriptor, error) { return desc, nil }, sig, notation.BlobVerifierVerifyOptions{SignatureMediaType: c.Format})
		} else {
			out, verr = v.Verify(context.Background(), desc, sig, notation.VerifierVerifyOptions{ArtifactReference: "r.io/a@" + desc.Digest.String(), SignatureMediaType: c.Format})
		}
		want := model(c)
		got := verr == nil
		accepted[i] = got
		r.Eval(fmt.Sprintf("%s|%s", c.facts(), c.L))
		if got {
			r.Event("accepted")
		} else {
			r.Event("rejected")
			r.Event("model-reject:" + want.why)
		}
		r.Sample(fmt.Sprintf("accept=%v", got), map[string]any{"cell": c, "level": c.L.String(), "error": fmt.Sprint(verr)})
		base := map[string]string{"format": c.Format, "scheme": c.Scheme, "plugin": c.Plugin, "rev_action": c.L.Rev, "crit": c.Crit}
		sigOf := func(kind string, kv ...string) map[string]string {
			s := map[string]string{"kind": kind}
			for k, v := range base {
				s[k] = v
			}
			for j := 0; j+1 < len(kv); j += 2 {
				s[kv[j]] = kv[j+1]
			}
			return s
		}
		wit := map[string]any{"cell": c, "level": c.L.String(), "sv": doc.TrustPolicies[0].SignatureVerification, "library_error": fmt.Sprint(verr), "model": want.why}
		if want.accept != got {
			r.Violation(sigOf("decision", "model", fmt.Sprint(want.accept), "library", fmt.Sprint(got), "why", want.why),
				fmt.Sprintf("decision differs from the level-only model: model accept=%v (%s), library accept=%v (err=%v)", want.accept, want.why, got, verr), wit)
		}
		// call-log monitor
		if c.L.Rev == "skip" && rs.calls > 0 {
			r.Violation(sigOf("revocation-validator-called-under-skip"), "native revocation validator consulted although the level skips revocation", wit)
		}
		if c.L.Rev == "skip" && has(p.lastCaps, REV) {
			r.Violation(sigOf("plugin-revocation-requested-under-skip"), "plugin asked for the revocation capability although the level skips revocation", wit)
		}
		if has(capsOf(c.Plugin), REV) && rs.calls > 0 {
			r.Violation(sigOf("native-revocation-not-replaced"), "native revocation validator consulted although the plugin declares the revocation capability", wit)
		}
		if rs.calls > 1 {
			r.Violation(sigOf("revocation-validator-called-twice"), "native revocation validator consulted more than once", wit)
		}
		if p.calls > 1 {
			r.Violation(sigOf("plugin-called-twice"), "plugin VerifySignature called more than once", wit)
		}
		if p.calls == 1 {
			r.Event("plugin-verify-calls")
			if !sameCaps(p.lastCaps, want.requested) {
				r.Violation(sigOf("plugin-capabilities-requested"), fmt.Sprintf("plugin was asked for %v, model says %v", p.lastCaps, want.requested), wit)
			}
			wantUn := 0
			wantKey := "com.example.crit"
			switch c.Crit {
			case "processed", "unprocessed":
				wantUn = 1
			case "processedLike", "unprocessedLike":
				wantUn, wantKey = 1, likeKey
			}
			if len(p.lastUnproc) != wantUn || (wantUn == 1 && p.lastUnproc[0] != wantKey) {
				r.Violation(sigOf("plugin-unprocessed-attributes"), fmt.Sprintf("plugin was offered attributes %v", p.lastUnproc), wit)
			}
		}
		if p.calls > 0 && !want.ran {
			r.Violation(sigOf("plugin-run-unexpectedly"), "plugin VerifySignature called although no capability was to be verified", wit)
		}
		if rs.calls > 0 {
			r.Event("native-revocation-calls")
		}
		// result monitor
		if out != nil {
			seen := map[trustpolicy.ValidationType]*notation.ValidationResult{}
			for _, res := range out.VerificationResults {
				if res.Action != c.L.Action(res.Type) {
					r.Violation(sigOf("result-action", "type", string(res.Type)), fmt.Sprintf("result of type %s carries action %q, level assigns %q", res.Type, res.Action, c.L.Action(res.Type)), wit)
				}
				if _, dup := seen[res.Type]; dup {
					r.Violation(sigOf("result-duplicate", "type", string(res.Type)), "validation type reported twice", wit)
				}
				seen[res.Type] = res
			}
			if got && want.accept {
				for _, t := range []trustpolicy.ValidationType{trustpolicy.TypeAuthenticity, trustpolicy.TypeExpiry, trustpolicy.TypeAuthenticTimestamp, trustpolicy.TypeRevocation} {
					res := seen[t]
					if want.fail[t] {
						r.Event("logged-failure-in-accepted-outcome")
						if res == nil || res.Error == nil {
							r.Violation(sigOf("logged-failure-not-reported", "type", string(t)), fmt.Sprintf("accepted, but the failed %s validation (action log) is not reported with an error", t), wit)
						}
					} else if res != nil && res.Error != nil {
						r.Violation(sigOf("passing-validation-reported-failed", "type", string(t)), fmt.Sprintf("accepted, %s validation holds per model but is reported failed: %v", t, res.Error), wit)
					}
				}
				if res := seen[trustpolicy.TypeIntegrity]; res == nil || res.Error != nil {
					r.Violation(sigOf("integrity-result-missing"), "accepted without a passing integrity result", wit)
				}
				// a performed revocation validation must be reported; whether a skipped one is listed (with action skip) is not stated
				if want.revDone && seen[trustpolicy.TypeRevocation] == nil {
					r.Violation(sigOf("revocation-result-presence"), "revocation was performed per level but no revocation result is reported in the accepted outcome", wit)
				}
			}
		} else {
			r.Violation(sigOf("nil-outcome"), "Verify returned a nil outcome after policy selection", wit)
		}
	}, r.PanicViolation("verifier.Verify"))

	// ---- history independence: ONE verifier, ONE plugin object that hands out the SAME metadata object on every call and
	// ONE revocation script verify two cells in sequence (two statements with different levels); the second verification
	// must decide exactly as the model says for that cell alone (state carried from the first one is a violation).
	{
		type pairT struct {
			plugin    string
			reversed  bool
			vTI, vREV string
			L1, L2    lib.LevelMap
			ident     bool
			rev       string
		}
		var pairs []pairT
		lm := lib.AllLevelMaps()
		k := 0
		for _, pl := range []string{"TI", "REV", "TIREV"} {
			for _, reversed := range []bool{false, true} {
				for _, vTI := range []string{"success", "failure"} {
					for _, vREV := range []string{"success", "failure"} {
						for i1 := range lm {
							for i2 := range lm {
								k++
								if r.Quick() && k%3 != 0 {
									continue
								}
								pairs = append(pairs, pairT{pl, reversed, vTI, vREV, lm[i1], lm[i2], k%2 == 0, []string{"ok", "revoked"}[k%5%2]})
							}
						}
					}
				}
			}
		}
		sigA := envs[envKey{lib.MediaJWS, "notary.x509", true, false, "yes", "none"}]
		if sigA == nil {
			sigA = build(envKey{lib.MediaJWS, "notary.x509", true, false, "yes", "none"})
		}
		lib.Parallel(len(pairs), 16, func(pi int) {
			pr := pairs[pi]
			caps := capsOf(pr.plugin)
			if pr.reversed && len(caps) == 2 {
				caps = []pf.Capability{caps[1], caps[0]}
			}
			meta := &pf.GetMetadataResponse{Name: "plug", Description: "d", Version: "1.0.0", URL: "u", SupportedContractVersions: []string{"1.0"}, Capabilities: caps}
			sp := &sharedPlug{plug: plug{version: "1.0.0", caps: caps, verdict: map[pf.Capability]string{TI: pr.vTI, REV: pr.vREV}}, meta: meta}
			rs := &revScript{status: pr.rev}
			id := "x509.subject:C=US,ST=WA,O=Org"
			if !pr.ident {
				id = "x509.subject:C=US,ST=WA,O=Other"
			}
			doc := &trustpolicy.OCIDocument{Version: "1.0", TrustPolicies: []trustpolicy.OCITrustPolicy{
				{Name: "first", SignatureVerification: pr.L1.SV(pi), TrustStores: []string{"ca:x"}, TrustedIdentities: []string{id}, RegistryScopes: []string{"reg.io/first"}},
				{Name: "second", SignatureVerification: pr.L2.SV(pi + 1), TrustStores: []string{"ca:x"}, TrustedIdentities: []string{id}, RegistryScopes: []string{"reg.io/second"}}}}
			v, err := verifier.NewVerifierWithOptions(lib.NewMemTS().Put("ca:x", root.Cert), verifier.VerifierOptions{OCITrustPolicy: doc, RevocationCodeSigningValidator: rs, RevocationTimestampingValidator: lib.OKRev{}, PluginManager: &sharedMgr{sp}})
			if err != nil {
				panic(err)
			}
			for step, L := range []lib.LevelMap{pr.L1, pr.L2} {
				c := cell{Format: lib.MediaJWS, Scheme: "notary.x509", L: L, Anchor: "found", Ident: pr.ident, CertValid: true, Rev: pr.rev, Plugin: pr.plugin, VTI: pr.vTI, VREV: pr.vREV, Crit: "none"}
				want := model(c)
				rs.calls, sp.calls, sp.lastCaps = 0, 0, nil
				_, verr := v.Verify(context.Background(), desc, sigA, notation.VerifierVerifyOptions{ArtifactReference: []string{"reg.io/first", "reg.io/second"}[step] + "@" + desc.Digest.String(), SignatureMediaType: lib.MediaJWS})
				r.Eval(fmt.Sprintf("sequence|%d|%d", pi, step))
				r.Event("sequence-verifications")
				wit := map[string]any{"pair": fmt.Sprintf("%+v", pr), "step": step + 1, "level": L.String(), "library_error": fmt.Sprint(verr), "model": want.why, "plugin_asked_for": fmt.Sprint(sp.lastCaps), "native_revocation_calls": rs.calls}
				sg := map[string]string{"kind": "sequence-decision", "plugin": pr.plugin, "step": fmt.Sprint(step + 1)}
				if want.accept != (verr == nil) {
					r.Violation(sg, fmt.Sprintf("verification #%d through the same verifier and plugin object: model accept=%v (%s), library accept=%v", step+1, want.accept, want.why, verr == nil), wit)
				}
				if sp.calls == 1 && !sameCaps(sp.lastCaps, want.requested) {
					sg["kind"] = "sequence-plugin-capabilities"
					r.Violation(sg, fmt.Sprintf("verification #%d: plugin was asked for %v, model says %v", step+1, sp.lastCaps, want.requested), wit)
				}
				if has(capsOf(pr.plugin), REV) && rs.calls > 0 {
					sg["kind"] = "sequence-native-revocation-not-replaced"
					r.Violation(sg, fmt.Sprintf("verification #%d: native revocation validator consulted although the plugin declares the revocation capability", step+1), wit)
				}
			}
		}, r.PanicViolation("verifier.Verify (sequence)"))
	}

	// ---- relational monitor: monotonicity along every single enforce -> log weakening
	idx := map[string]int{}
	for i, c := range cells {
		idx[c.facts()+"|"+c.L.String()] = i
	}
	var pairs int64
	for i, c := range cells {
		if !accepted[i] {
			continue
		}
		for _, w := range weakenings(c.L) {
			j, ok := idx[c.facts()+"|"+w.String()]
			if !ok {
				continue
			}
			pairs++
			if !accepted[j] {
				r.Violation(map[string]string{"kind": "monotonicity", "plugin": c.Plugin, "crit": c.Crit, "rev_action": c.L.Rev},
					fmt.Sprintf("accepted under %s but rejected under the weaker %s", c.L, w), map[string]any{"cell": c, "weaker": w.String()})
			}
		}
	}
	r.EventN("monotonicity-pairs-checked", pairs)
	r.Exhaustive = true
	r.RequireAtLeast("accepted", 1000)
	r.RequireAtLeast("plugin-verify-calls", 1000)
	r.RequireAtLeast("native-revocation-calls", 1000)
	r.RequireAtLeast("logged-failure-in-accepted-outcome", 1000)
	r.Finish()
}

func weakenings(l lib.LevelMap) []lib.LevelMap {
	var out []lib.LevelMap
	if l.Auth == "enforce" {
		w := l
		w.Auth = "log"
		out = append(out, w)
	}
	if l.TS == "enforce" {
		w := l
		w.TS = "log"
		out = append(out, w)
	}
	if l.Exp == "enforce" {
		w := l
		w.Exp = "log"
		out = append(out, w)
	}
	if l.Rev == "enforce" {
		w := l
		w.Rev = "log"
		out = append(out, w)
	}
	return out
}

func sameCaps(a, b []pf.Capability) bool {
	if len(a) != len(b) {
		return false
	}
	for _, x := range a {
		if !has(b, x) {
			return false
		}
	}
	return true
}

// legacy adapts the script to the deprecated revocation.Revocation interface.
type legacy struct{ r *revScript }

func (l legacy) Validate(chain []*x509.Certificate, t time.Time) ([]*result.CertRevocationResult, error) {
	return l.r.ValidateContext(context.Background(), revocation.ValidateContextOptions{CertChain: chain, AuthenticSigningTime: t})
}

// sharedPlug hands out the SAME metadata object on every GetMetadata call (as an in-process plugin may).
type sharedPlug struct {
	plug
	meta *pf.GetMetadataResponse
}

func (p *sharedPlug) GetMetadata(ctx context.Context, req *pf.GetMetadataRequest) (*pf.GetMetadataResponse, error) {
	return p.meta, nil
}

type sharedMgr struct{ p *sharedPlug }

func (m *sharedMgr) Get(ctx context.Context, name string) (pf.Plugin, error) { return m.p, nil }
func (m *sharedMgr) List(ctx context.Context) ([]string, error)              { return nil, nil }
