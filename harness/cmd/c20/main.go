// C20 — plugin installation follows the version rules and never half-replaces a plugin.
//
// Sequences of install / uninstall operations run against the real CLIManager on a
// real file system with shell-script plugins that print embedded metadata.
// A sequential model of the installer (name -> version rank, expected file set)
// decides every operation; a snapshot monitor compares the plugin root with the
// model after every step (refused install = byte-identical tree) and a live probe
// executes the installed plugin and compares its metadata.
package main

import (
	"context"
	"encoding/json"
	"fmt"
	"os"
	"os/exec"
	"path/filepath"
	"sort"
	"strings"
	"syscall"
	"time"

	"github.com/notaryproject/notation-go/dir"
	"github.com/notaryproject/notation-go/plugin"
	"github.com/notaryproject/notation-go/verifharness/lib"
	pf "github.com/notaryproject/notation-plugin-framework-go/plugin"
)

type ver struct {
	s     string
	rank  int // precedence rank by construction; -1 = not a semantic version
	empty bool
}

var versions = []ver{
	{"1.0.0-alpha", 0, false}, {"1.0.0-alpha.1", 1, false}, {"1.0.0-alpha.beta", 2, false}, {"1.0.0-beta", 3, false}, {"1.0.0-beta.2", 4, false}, {"1.0.0-beta.11", 5, false},
	{"1.0.0-rc.1", 6, false}, {"1.0.0", 7, false}, {"1.0.0+build", 7, false}, {"1.0.0+zzz.9", 7, false}, {"1.0.1", 8, false}, {"1.2.0", 9, false}, {"1.9.0", 10, false}, {"1.10.0", 11, false},
	{"2.0.0-0", 12, false}, {"2.0.0", 13, false}, {"10.0.0", 14, false},
	{"1", -1, false}, {"v1.0.0", -1, false}, {"1.0", -1, false}, {"01.0.0", -1, false}, {"1.0.0-", -1, false}, {"latest", -1, false},
	// numeric pre-release identifiers with a leading zero are no semantic versions (and no precedence rule knows them)
	{"1.0.0-01", -1, false}, {"2.0.0-rc.01", -1, false}, {"1.0.0-0.00", -1, false},
}

// scriptEmptyField: complete metadata in which ONE mandatory field is present but empty ("" / []).
func scriptEmptyField(name, version, field string) []byte {
	m := map[string]any{"name": name, "description": "d", "version": version, "url": "https://u", "supportedContractVersions": []string{"1.0"}, "capabilities": []string{"SIGNATURE_GENERATOR.RAW"}}
	if _, isList := m[field].([]string); isList {
		m[field] = []string{}
	} else {
		m[field] = ""
	}
	b, _ := json.Marshal(m)
	return []byte("#!/bin/sh\necho '" + string(b) + "'\n")
}

func script(name, version string, bad bool) []byte {
	if bad {
		return []byte("#!/bin/sh\necho '{\"name\":\"" + name + "\",\"version\":\"" + version + "\"}'\n")
	}
	return []byte(fmt.Sprintf("#!/bin/sh\necho '{\"name\":\"%s\",\"description\":\"d\",\"version\":\"%s\",\"url\":\"https://u\",\"supportedContractVersions\":[\"1.0\"],\"capabilities\":[\"SIGNATURE_GENERATOR.RAW\"]}'\n", name, version))
}

type finfo struct {
	Content string
	Mode    os.FileMode
}

func snap(root string) map[string]finfo {
	out := map[string]finfo{}
	filepath.Walk(root, func(p string, i os.FileInfo, err error) error {
		if err != nil || p == root {
			return nil
		}
		rel := p[len(root)+1:]
		switch {
		case i.IsDir():
			out[rel+"/"] = finfo{Mode: i.Mode().Perm()}
		case i.Mode()&os.ModeSymlink != 0:
			out[rel+"@"] = finfo{}
		default:
			b, _ := os.ReadFile(p)
			out[rel] = finfo{string(b), i.Mode().Perm()}
		}
		return nil
	})
	return out
}

func snapStr(m map[string]finfo) string {
	var ks []string
	for k, v := range m {
		ks = append(ks, fmt.Sprintf("%s[%o,%d,%x]", k, v.Mode, len(v.Content), lib.NewRand(0).Fork(v.Content).U64()&0xffff))
	}
	sort.Strings(ks)
	return strings.Join(ks, " ")
}

type inst struct {
	version ver
	files   map[string]finfo
	damaged string // "" | broken-exe (installed executable fails) | missing-exe (executable gone, directory left over)
}

var shapes = []string{"file", "file", "dir", "dir-nonexec", "dir-extra-before", "dir-extra-after", "dir-nonexec-extra-after", "dir-nonexec-extra-before", "dir-subdir", "dir-subdir-before",
	"dir-subdir-samename", "dir-symlink-extra", "dir-two", "dir-two-nonexec", "dir-no-candidate", "badmeta", "misnamed", "file-nonexec", "dir-badmeta", "file-via-symlink", "file-via-symlink", "misnamed-case",
	"dir-samename-subdir", "dir-samename-subdir-holds-candidate", "dir-candidate-symlink", "dir-extra-group-exec", "dir-single-group-exec-only",
	"dir-extra-notation-named-before", "badmeta-trailing-output", "dir-badmeta-second-document", "misnamed-exe-suffix", "dir-misnamed-exe-suffix", "dir-dotfiles",
	"badmeta-empty-field", "dir-badmeta-empty-field", "dir-special-files"}

func main() {
	r := lib.Start("C20", "exploration")
	r.Rule = "PRNG sequences of up to 6 install/uninstall operations over 3 plugin names x 26 versions (17 in precedence order incl. pre-release/build metadata/numeric-vs-lexical traps, 9 invalid) x overwrite x 25 source shapes (file; sub-directory named like the source; symlinked candidate; group-only execute bits; file whose name differs from the reported name in letter case only; symbolic link to the file; directory with executable / single non-executable candidate, extra files sorting before and after, sub-directories incl. one holding a same-named executable, symlink, two candidates, none; invalid / misnamed metadata; non-executable file); distinct by (sequence, step); non-trivial = install onto an existing plugin, or from a directory source"
	r.Rule += "; plus stray entries in the plugin root, damaged installed plugins (failing, missing, hanging, interpreter gone), relative source paths with a decoy on PATH (helper process), .exe names, dot-files, metadata followed by further output"
	r.Assumptions = []string{"plugins are /bin/sh scripts printing embedded metadata (benign names only)",
		"first-time installation of a plugin whose version is not a semantic version is not judged (nothing is replaced)",
		"expected mode of an installed file = source mode & 0755; a single non-executable candidate gets its user-execute bit set first (documented behaviour)"}
	ctx := context.Background()
	n := r.N(1500, 40000)
	lib.Parallel(n, 8, func(seq int) {
		// ETXTBSY is an artefact of forking from a multi-threaded process while another goroutine has an executable open
		// for writing (Go issue 22315), not behaviour of the library: such an attempt is discarded and the sequence re-run.
		for attempt := 0; attempt < 8; attempt++ {
			var pending []func()
			busy := runSequence(ctx, r, seq, &pending)
			if !busy {
				for _, f := range pending {
					f()
				}
				return
			}
			r.Event("attempts-discarded-etxtbsy")
		}
		r.Inconclusive(fmt.Sprintf("sequence %d hit ETXTBSY in every attempt", seq))
	}, r.PanicViolation("CLIManager"))
	relativeSources(ctx, r)
	r.RequireAtLeast("installs-succeeded", int64(n/2))
	r.RequireAtLeast("installs-refused", int64(n/2))
	r.RequireAtLeast("metadata-probes", int64(n))
	r.Finish()
}

// relativeSources: the single-executable source named RELATIVE to the working directory ("./notation-foo", the way a
// user types it after unpacking a release), run in a helper process whose working directory is the unpacked release
// and whose PATH holds another, system-wide notation-foo of a much higher version. The plugin asked for its metadata is
// the file named by the caller: a lower version is refused and the installed 1.0.0 stays; a higher one replaces it.
func relativeSources(ctx context.Context, r *lib.Run) {
	worker := filepath.Join(os.Getenv("VERIF_BIN"), "worker")
	type relForm struct {
		path    string
		relRoot bool // the plugin root is named relative to the working directory as well
	}
	forms := []relForm{{"./notation-foo", false}, {"./x/../notation-foo", false}, {".//notation-foo", false},
		// paths with a directory component (the file, and the directory that holds it), and a relative plugin root
		{"dist/v1/notation-foo", false}, {"dist/v1", false}, {"./dist/v1/", false}, {"./notation-foo", true}, {"dist/v1", true}}
	for fi, f := range forms {
		form := f.path
		for _, newer := range []bool{false, true} {
			base := lib.TempDir("c20rel")
			root := filepath.Join(base, "plugins")
			os.MkdirAll(root, 0o755)
			mgr := plugin.NewCLIManager(dir.NewSysFS(root))
			first := filepath.Join(base, "first")
			os.MkdirAll(first, 0o755)
			os.WriteFile(filepath.Join(first, "notation-foo"), script("foo", "1.0.0", false), 0o755)
			if _, _, err := mgr.Install(ctx, plugin.CLIInstallOptions{PluginPath: filepath.Join(first, "notation-foo")}); err != nil {
				r.Inconclusive("relative sources: the first installation failed: " + err.Error())
				os.RemoveAll(base)
				continue
			}
			rel := filepath.Join(base, "release")
			os.MkdirAll(filepath.Join(rel, "x"), 0o755)
			ver := map[bool]string{false: "0.5.0", true: "1.1.0"}[newer]
			os.WriteFile(filepath.Join(rel, "notation-foo"), script("foo", ver, false), 0o755)
			os.MkdirAll(filepath.Join(rel, "dist", "v1"), 0o755)
			os.WriteFile(filepath.Join(rel, "dist", "v1", "notation-foo"), script("foo", ver, false), 0o755)
			systemWide := filepath.Join(base, "usr-local-bin")
			os.MkdirAll(systemWide, 0o755)
			os.WriteFile(filepath.Join(systemWide, "notation-foo"), script("foo", "9.9.9", false), 0o755)
			specRoot := root
			if f.relRoot {
				specRoot = "../plugins"
			}
			spec, _ := json.Marshal(map[string]any{"root": specRoot, "op": "install", "path": form})
			specPath := filepath.Join(base, "spec.json")
			os.WriteFile(specPath, spec, 0o644)
			cmd := exec.Command(worker, "jail", specPath)
			cmd.Dir = rel
			cmd.Env = append(os.Environ(), "PATH="+systemWide+":"+os.Getenv("PATH"))
			out, err := cmd.Output()
			var res struct {
				OK    bool   `json:"ok"`
				Err   string `json:"err"`
				Panic string `json:"panic"`
			}
			if err != nil || json.Unmarshal(out, &res) != nil {
				r.Inconclusive(fmt.Sprintf("relative sources: helper process failed: %v %s", err, out))
				os.RemoveAll(base)
				continue
			}
			r.Eval(fmt.Sprintf("relative-source|%d|%v|%v", fi, newer, f.relRoot))
			r.Event("installs-from-a-relative-source-path")
			sig := map[string]string{"kind": "install-decision", "shape": "file-relative-path", "newer": fmt.Sprint(newer)}
			wit := map[string]any{"path": form, "working_directory": rel, "source_version": ver, "installed": "1.0.0", "another_notation-foo_on_PATH": "9.9.9", "result": res}
			if res.Panic != "" {
				r.Violation(map[string]string{"kind": "panic", "shape": "file-relative-path"}, "Install panicked: "+res.Panic, wit)
			}
			if res.OK != newer {
				r.Violation(sig, fmt.Sprintf("Install(%q) of version %s over the installed 1.0.0 without overwrite: success=%v (err=%q)", form, ver, res.OK, res.Err), wit)
			}
			wantVer := map[bool]string{false: "1.0.0", true: "1.1.0"}[newer]
			got, _ := os.ReadFile(filepath.Join(root, "foo", "notation-foo"))
			if string(got) != string(script("foo", wantVer, false)) {
				r.Violation(map[string]string{"kind": "installed-files", "shape": "file-relative-path", "newer": fmt.Sprint(newer)}, fmt.Sprintf("after Install(%q) of version %s the installed executable is not the %s one", form, ver, wantVer), wit)
			} else if p, err := mgr.Get(ctx, "foo"); err == nil {
				if md, err := p.GetMetadata(ctx, &pf.GetMetadataRequest{}); err != nil || md.Version != wantVer {
					r.Violation(map[string]string{"kind": "installed-plugin-metadata", "shape": "file-relative-path"}, fmt.Sprintf("the installed plugin answers %+v (err=%v), expected version %s", md, err, wantVer), wit)
				}
			}
			os.RemoveAll(base)
		}
	}
}

// runSequence executes one sequence; observations are queued in pending. It reports whether ETXTBSY was seen.
func runSequence(ctx context.Context, r *lib.Run, seq int, pending *[]func()) (busy bool) {
	q := func(f func()) { *pending = append(*pending, f) }
	isBusy := func(err error) bool {
		if err != nil && strings.Contains(err.Error(), "text file busy") {
			busy = true
			return true
		}
		return false
	}
	{
		rng := r.Rand(fmt.Sprintf("seq-%d", seq))
		base := lib.TempDir("c20")
		defer os.RemoveAll(base)
		root := filepath.Join(base, "plugins")
		os.MkdirAll(root, 0o755)
		// every third sequence: the plugin root also holds things that are no plugin directories (a file a file manager left
		// behind, a README, a symbolic link) - they sort before, between and after the plugins and concern nobody
		strays := map[string]finfo{}
		if seq%3 == 0 {
			os.WriteFile(filepath.Join(root, ".DS_Store"), []byte("Bud1"), 0o644)
			os.WriteFile(filepath.Join(root, "README"), []byte("plugins live here"), 0o644)
			os.WriteFile(filepath.Join(root, "cache.db"), []byte("c"), 0o600)
			os.Symlink(base, filepath.Join(root, "zz-link"))
			for k, v := range snap(root) {
				strays[k] = v
			}
			q(func() { r.Event("sequences-over-a-plugin-root-with-stray-entries") })
		}
		mgr := plugin.NewCLIManager(dir.NewSysFS(root))
		model := map[string]*inst{}
		var trace []string
		viol := func(kind, what string, extra map[string]any) {
			w := map[string]any{"trace": append([]string(nil), trace...)}
			for k, v := range extra {
				w[k] = v
			}
			q(func() { r.Violation(map[string]string{"kind": kind, "shape": fmt.Sprint(extra["shape"])}, what, w) })
		}
		nops := 2 + rng.Intn(5)
		for op := 0; op < nops; op++ {
			name := []string{"foo", "bar", "foo", "bar", "kv+hsm"}[rng.Intn(5)] // (a name is any single path component)
			resync := false
			if in := model[name]; in != nil && in.damaged == "" && rng.Intn(9) == 0 {
				// damage the installed plugin behind the manager's back: a malfunctioning executable, or a left-over
				// directory without executable (e.g. an interrupted installation), plus a stray old file
				exe := filepath.Join(root, name, "notation-"+name)
				switch rng.Intn(4) {
				case 3:
					// the installed plugin is present but cannot be STARTED any more: its interpreter is gone (the runtime it
					// was written for was uninstalled). A malfunctioning plugin like any other.
					in.damaged = "broken-exe"
					os.WriteFile(exe, []byte("#!"+filepath.Join(base, "runtime-that-was-removed", "bin", "interp")+"\necho never\n"), 0o755)
					q(func() { r.Event("damage-interpreter-gone") })
				case 0:
					in.damaged = "broken-exe"
					os.WriteFile(exe, []byte("#!/bin/sh\nexit 1\n"), 0o755)
				case 1:
					in.damaged = "missing-exe"
					os.Remove(exe)
				default:
					// an installed plugin that hangs: the next installation runs under a context with a deadline, which expires
					// while the OLD plugin is asked for its version - wherever the call then stops, the plugin directory
					// holds the old plugin or the new one, never neither
					in.damaged = "hanging-exe"
					os.WriteFile(exe, []byte("#!/bin/sh\nexec sleep 4\n"), 0o755)
				}
				os.WriteFile(filepath.Join(root, name, "old-lib-from-previous-version.so"), []byte("stale"), 0o644)
				in.files = map[string]finfo{}
				for k, v := range snap(filepath.Join(root, name)) {
					in.files[k] = v
				}
				trace = append(trace, fmt.Sprintf("damage %s: %s + stray file", name, in.damaged))
				q(func() { r.Event("damage-operations") })
			} else if rng.Intn(7) == 0 {
				err := mgr.Uninstall(ctx, name)
				_, had := model[name]
				delete(model, name)
				trace = append(trace, fmt.Sprintf("uninstall %s -> %v", name, err))
				{
					k := ""
					q(func() { r.Eval(k) })
				}
				if (err == nil) != had {
					viol("uninstall", fmt.Sprintf("Uninstall(%s) err=%v although the plugin installed=%v", name, err, had), nil)
				}
				q(func() { r.Event("uninstalls") })
			} else {
				v := versions[rng.Intn(len(versions))]
				if rng.Intn(3) == 0 { // bias towards meaningful comparisons
					v = versions[rng.Intn(17)]
				}
				overwrite := rng.Intn(4) == 0
				shape := shapes[rng.Intn(len(shapes))]
				src := filepath.Join(base, fmt.Sprintf("src%d", op))
				os.MkdirAll(src, 0o755)
				exe := filepath.Join(src, "notation-"+name)
				content := script(name, v.s, shape == "badmeta" || shape == "dir-badmeta")
				switch shape {
				case "badmeta-trailing-output": // a complete metadata object followed by a log line: the output is no JSON document
					content = append(content, []byte("echo 'plugin: done'\n")...)
				case "dir-badmeta-second-document": // ... or followed by a second object
					content = append(content, []byte("echo '{\"name\":\"other\"}'\n")...)
				}
				if shape == "misnamed" {
					content = script("other", v.s, false)
				}
				if strings.HasSuffix(shape, "badmeta-empty-field") {
					content = scriptEmptyField(name, v.s, []string{"url", "description", "supportedContractVersions", "capabilities", "url", "description"}[rng.Intn(6)])
				}
				mode := os.FileMode(0o755)
				if rng.Intn(3) == 0 {
					mode = 0o700
				}
				if strings.Contains(shape, "nonexec") {
					mode = 0o644
				}
				if shape == "dir-single-group-exec-only" {
					mode = 0o654 // executable for the group only: not executable for its owner, hence "non-executable candidate"
				}
				os.WriteFile(exe, content, mode)
				os.Chmod(exe, mode)
				expect := map[string]finfo{"notation-" + name: {string(content), mode & 0o755}}
				if mode&0o100 == 0 { // a single candidate its owner cannot execute gets the user-execute bit set first
					expect["notation-"+name] = finfo{string(content), (mode | 0o100) & 0o755}
				}
				path, usable := src, true
				addExtra := func(fn, c string, m os.FileMode) {
					os.WriteFile(filepath.Join(src, fn), []byte(c), m)
					os.Chmod(filepath.Join(src, fn), m)
					expect[fn] = finfo{c, m & 0o755}
				}
				switch shape {
				case "file", "badmeta", "misnamed", "badmeta-trailing-output", "badmeta-empty-field":
					path = exe
				case "dir-special-files":
					// sockets and a device node lie in the source directory, sorting before, between and after everything else:
					// they are no regular files, nothing of them is installed - and nothing about them stops the installation
					// (sockets and a device node rather than pipes: this check calls the manager in-process, and opening a pipe blocks)
					syscall.Mknod(filepath.Join(src, "aaa-control.sock"), syscall.S_IFSOCK|0o644, 0)
					syscall.Mknod(filepath.Join(src, "mmm-null.dev"), syscall.S_IFCHR|0o644, 1<<8|3)
					syscall.Mknod(filepath.Join(src, "zzz-agent.sock"), syscall.S_IFSOCK|0o644, 0)
					addExtra("LICENSE", "lic", 0o644)
				case "dir-extra-notation-named-before":
					// library files that carry the notation- prefix and sort BEFORE the executable; nobody may execute them, so
					// the directory still holds exactly one plugin executable
					addExtra("notation-0common.so", "shared code", 0o644)
					addExtra("notation-"+name[:1]+".cfg", "settings", 0o600)
				case "misnamed-case":
					// the file is notation-Foo, the process says it is "foo": another name (names are compared exactly)
					cased := filepath.Join(src, "notation-"+strings.ToUpper(name[:1])+name[1:])
					os.Rename(exe, cased)
					path = cased
				case "misnamed-exe-suffix", "dir-misnamed-exe-suffix":
					// the file is notation-foo.exe (the name release archives give the Windows build), the process says it is
					// "foo": on this platform the file name says "foo.exe" - another name
					withExt := exe + ".exe"
					os.Rename(exe, withExt)
					if shape == "misnamed-exe-suffix" {
						path = withExt
					}
				case "dir-dotfiles":
					// dot-files are regular top-level files of the source like any other (settings the plugin reads, checksums)
					addExtra(".settings", "mode=fast", 0o644)
					addExtra(".checksums", "abc  notation-"+name, 0o600)
				case "file-nonexec":
					path, usable = exe, false
				case "file-via-symlink":
					// the path handed to Install is a symbolic link to the executable (a package manager's bin/ layout)
					ld := filepath.Join(base, fmt.Sprintf("links%d", op))
					os.MkdirAll(ld, 0o755)
					path = filepath.Join(ld, "notation-"+name)
					os.Symlink(exe, path)
				case "dir-extra-before", "dir-nonexec-extra-before":
					addExtra("LICENSE", "lic", 0o644)
					addExtra("A-lib.so", "lib-a", 0o666)
				case "dir-extra-after", "dir-nonexec-extra-after":
					addExtra("zlib.so", "lib", 0o600)
					addExtra("p-after", "after", 0o777)
				case "dir-subdir":
					os.MkdirAll(filepath.Join(src, "zsub", "deeper"), 0o755)
					os.WriteFile(filepath.Join(src, "zsub", "nested.txt"), []byte("n"), 0o644)
					os.WriteFile(filepath.Join(src, "zsub", "deeper", "deep.txt"), []byte("d"), 0o644)
				case "dir-subdir-before":
					os.MkdirAll(filepath.Join(src, "Asub"), 0o755)
					os.WriteFile(filepath.Join(src, "Asub", "nested-before.txt"), []byte("n"), 0o644)
					addExtra("README", "readme", 0o644)
				case "dir-subdir-samename":
					os.MkdirAll(filepath.Join(src, "zsub"), 0o755)
					os.WriteFile(filepath.Join(src, "zsub", "notation-"+name), script(name, "99.9.9", false), 0o755)
				case "dir-symlink-extra":
					os.WriteFile(filepath.Join(base, "outside.txt"), []byte("outside"), 0o644)
					os.Symlink(filepath.Join(base, "outside.txt"), filepath.Join(src, "link.txt"))
				case "dir-samename-subdir":
					// the archive was unpacked as srcN/srcN/...: a sub-directory with the SAME name as the source directory is a
					// sub-directory like any other - nothing of it is installed
					addExtra("LICENSE", "top-level licence", 0o644)
					nested := filepath.Join(src, filepath.Base(src))
					os.MkdirAll(nested, 0o755)
					os.WriteFile(filepath.Join(nested, "LICENSE"), []byte("NESTED licence"), 0o644)
					os.WriteFile(filepath.Join(nested, "data.bin"), []byte("nested data"), 0o644)
				case "dir-samename-subdir-holds-candidate":
					// ... and here that same-named sub-directory holds the ONLY notation-* file: the top level has no candidate,
					// the source is unusable (sub-directories are ignored)
					nested := filepath.Join(src, filepath.Base(src))
					os.MkdirAll(nested, 0o755)
					os.Rename(exe, filepath.Join(nested, "notation-"+name))
					addExtra("README", "readme", 0o644)
					usable = false
				case "dir-candidate-symlink":
					// the only notation-* entry of the directory is a symbolic link (to a perfectly good executable): directory
					// sources take regular files only, so there is no candidate
					realExe := filepath.Join(base, fmt.Sprintf("real-exe-%d", op))
					os.Rename(exe, realExe)
					os.Symlink(realExe, exe)
					addExtra("README", "readme", 0o644)
					usable = false
				case "dir-extra-group-exec":
					// next to the executable, a notation-* data file that only the GROUP may execute: not an executable candidate
					addExtra("notation-"+name+".sha256", "checksum", 0o654)
				case "dir-single-group-exec-only":
				case "dir-two":
					os.WriteFile(filepath.Join(src, "notation-second"), script("second", v.s, false), 0o755)
					usable = false
				case "dir-two-nonexec":
					os.WriteFile(filepath.Join(src, "notation-second"), script("second", v.s, false), 0o644)
					usable = false
				case "dir-no-candidate":
					os.Remove(exe)
					os.WriteFile(filepath.Join(src, "plugin.sh"), content, 0o755)
					usable = false
				}
				metaOK := shape != "badmeta" && shape != "dir-badmeta" && shape != "misnamed" && shape != "misnamed-case" && shape != "badmeta-trailing-output" && shape != "dir-badmeta-second-document" && shape != "misnamed-exe-suffix" && shape != "dir-misnamed-exe-suffix" && !strings.HasSuffix(shape, "badmeta-empty-field")
				ex := model[name]
				want, judged := usable && metaOK, true
				why := "fresh install"
				switch {
				case !want:
					why = "unusable source or invalid/misnamed metadata"
				case ex == nil || ex.damaged == "missing-exe":
					// nothing that works is installed: no version rule applies; a left-over directory is simply replaced
					if v.rank < 0 {
						judged = false
					}
				case ex.damaged == "hanging-exe":
					judged = false // either outcome is legitimate under an expiring context; the state checks below still apply
				case ex.damaged == "broken-exe" && !overwrite:
					want, why = false, "installed plugin is malfunctioning and overwrite is not requested"
				case ex.damaged == "broken-exe":
					why = "overwrite over a malfunctioning plugin"
				case overwrite:
					why = "overwrite requested"
				case v.rank < 0 || ex.version.rank < 0:
					want, why = false, "version is not a semantic version"
				case v.rank <= ex.version.rank:
					want, why = false, "new version not strictly higher"
				default:
					why = "new version strictly higher"
				}
				before := snap(root)
				ictx := ctx
				if ex != nil && ex.damaged == "hanging-exe" {
					var cancel context.CancelFunc
					ictx, cancel = context.WithTimeout(ctx, 700*time.Millisecond)
					defer cancel()
					q(func() { r.Event("installs-under-an-expiring-context") })
				}
				_, newMD, err := mgr.Install(ictx, plugin.CLIInstallOptions{PluginPath: path, Overwrite: overwrite})
				if isBusy(err) {
					return true
				}
				exv := "-"
				if ex != nil {
					exv = ex.version.s
				}
				trace = append(trace, fmt.Sprintf("install %s version=%q overwrite=%v shape=%s (installed=%s) -> err=%v", name, v.s, overwrite, shape, exv, err))
				key := ""
				if ex != nil || strings.HasPrefix(shape, "dir") {
					key = fmt.Sprintf("%d/%d", seq, op)
				}
				{
					k := key
					q(func() { r.Eval(k) })
				}
				q(func() { r.Event("installs") })
				extra := map[string]any{"shape": shape, "version": v.s, "existing": exv, "overwrite": overwrite, "model_install": want, "model_reason": why}
				if !judged {
					q(func() { r.Event("not-judged-first-install-invalid-version-or-expiring-context") })
					if err == nil {
						model[name] = &inst{version: v, files: expect}
					}
				} else if (err == nil) != want {
					viol("install-decision", fmt.Sprintf("Install(%s %s, overwrite=%v, shape=%s) over installed %s: success=%v, model says %v (%s)", name, v.s, overwrite, shape, exv, err == nil, want, why), extra)
					resync = true
				}
				if err == nil {
					q(func() { r.Event("installs-succeeded") })
					model[name] = &inst{version: v, files: expect}
					if newMD == nil || newMD.Version != v.s || newMD.Name != name {
						viol("returned-metadata", fmt.Sprintf("Install reported metadata %+v, the installed plugin is %s %s", newMD, name, v.s), extra)
					}
				} else {
					q(func() { r.Event("installs-refused") })
					if a, b := snapStr(before), snapStr(snap(root)); a != b {
						viol("refused-install-changed-disk", fmt.Sprintf("a refused installation changed the plugin root: before {%s} after {%s}", a, b), extra)
						resync = true
					}
				}
				if !resync {
					// disk == model
					got := snap(root)
					wantDisk := map[string]finfo{}
					for k, v := range strays {
						wantDisk[k] = v
					}
					for nm, in := range model {
						wantDisk[nm+"/"] = finfo{Mode: 0o755}
						for f, fi := range in.files {
							wantDisk[nm+"/"+f] = fi
						}
					}
					if a, b := snapStr(got), snapStr(wantDisk); a != b {
						viol("installed-files", fmt.Sprintf("after the operation the plugin root holds {%s}, expected exactly the regular top-level files of the source {%s}", a, b), extra)
						resync = true
					}
				}
			}
			if resync {
				return busy // the model no longer describes the disk; the violation is recorded
			}
			// live probe: list, fetch and execute every installed plugin
			names, lerr := mgr.List(ctx)
			sort.Strings(names)
			var wantNames []string
			for nm := range model {
				wantNames = append(wantNames, nm)
			}
			sort.Strings(wantNames)
			if lerr != nil || fmt.Sprint(names) != fmt.Sprint(wantNames) {
				viol("list", fmt.Sprintf("List = %v (err=%v), installed per model: %v", names, lerr, wantNames), nil)
			}
			for nm, in := range model {
				if in.damaged != "" {
					continue // deliberately damaged: cannot answer
				}
				p, err := mgr.Get(ctx, nm)
				if err != nil {
					viol("get", fmt.Sprintf("Get(%s) failed: %v", nm, err), nil)
					continue
				}
				md, err := p.GetMetadata(ctx, &pf.GetMetadataRequest{})
				if isBusy(err) {
					return true
				}
				q(func() { r.Event("metadata-probes") })
				if err != nil || md.Version != in.version.s || md.Name != nm {
					viol("installed-plugin-metadata", fmt.Sprintf("the installed plugin %s answers %+v (err=%v), expected version %q", nm, md, err, in.version.s), nil)
					return busy
				}
			}
		}
		// finally every installed plugin can be uninstalled by name
		for nm := range model {
			if err := mgr.Uninstall(ctx, nm); err != nil {
				viol("uninstall", fmt.Sprintf("Uninstall(%s) failed: %v", nm, err), nil)
			}
		}
		if left := snap(root); snapStr(left) != snapStr(strays) {
			viol("uninstall", "files left after uninstalling everything: "+snapStr(left), nil)
		}
		if seq < 3 {
			q(func() { r.Sample("sequence", trace) })
		}
	}
	return busy
}
