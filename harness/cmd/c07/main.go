// C07 — what the library signs, it verifies, and it reports what was signed.
//
// Round-trip monitor: the output of notation.SignOCI / notation.SignBlob (local
// GenericSigner, plugin-backed signer with a raw-signature plugin, plugin-backed
// signer with an envelope plugin; all six key specs; JWS and COSE) is fed to
// notation.Verify (through a real on-disk OCI layout) / notation.VerifyBlob under
// a policy that trusts the signer. The harness computes the expected descriptor
// itself (own hashing, own size count) and compares everything that comes back.
package main

import (
	"bytes"
	"context"
	"crypto"
	"crypto/x509"
	"encoding/json"
	"encoding/pem"
	"errors"
	"fmt"
	"io"
	"os"
	"path/filepath"
	"runtime/debug"
	"strings"
	"sync"
	"testing/iotest"
	"time"

	"github.com/notaryproject/notation-go"
	"github.com/notaryproject/notation-go/dir"
	"github.com/notaryproject/notation-go/registry"
	"github.com/notaryproject/notation-go/signer"
	"github.com/notaryproject/notation-go/verifharness/lib"
	"github.com/notaryproject/notation-go/verifier"
	"github.com/notaryproject/notation-go/verifier/trustpolicy"
	"github.com/opencontainers/go-digest"
	ocispec "github.com/opencontainers/image-spec/specs-go/v1"
	"oras.land/oras-go/v2"
	"oras.land/oras-go/v2/content/oci"
	"oras.land/oras-go/v2/registry/remote"
)

var algOf = map[crypto.Hash]digest.Algorithm{crypto.SHA256: digest.SHA256, crypto.SHA384: digest.SHA384, crypto.SHA512: digest.SHA512}

type caseT struct {
	Spec, Format, SignerKind string // local | plugin-raw | plugin-envelope
	Blob                     bool
	Size                     int
	MediaType                string
	Metadata                 map[string]string
	Expiry                   time.Duration
	Agent                    string
}

func sameMap(a, b map[string]string) bool {
	if len(a) != len(b) {
		return false
	}
	for k, v := range a {
		if w, ok := b[k]; !ok || w != v {
			return false
		}
	}
	return true
}

// readerOf presents the blob the ways callers do: an in-memory reader (which can stream itself), a plain reader
// without any fast path, a reader delivering odd-sized short reads, and a pipe fed by another goroutine. The cases run
// 16 at a time, so streams of different blobs are consumed concurrently.
type chunked struct {
	b []byte
	n int
}

func (c *chunked) Read(p []byte) (int, error) {
	if len(c.b) == 0 {
		return 0, io.EOF
	}
	n := c.n
	if n > len(p) {
		n = len(p)
	}
	if n > len(c.b) {
		n = len(c.b)
	}
	copy(p, c.b[:n])
	c.b = c.b[n:]
	return n, nil
}

func otherFormat(f string) string {
	if f == lib.MediaJWS {
		return lib.MediaCOSE
	}
	return lib.MediaJWS
}

func readerOf(k int, content []byte) io.Reader {
	switch k % 5 {
	case 4:
		return iotest.DataErrReader(bytes.NewReader(content)) // the last bytes arrive together with io.EOF
	case 0:
		return bytes.NewReader(content)
	case 1:
		return struct{ io.Reader }{bytes.NewReader(content)}
	case 2:
		return &chunked{b: content, n: 1021}
	default:
		pr, pw := io.Pipe()
		go func() {
			for off := 0; off < len(content); off += 4093 {
				end := off + 4093
				if end > len(content) {
					end = len(content)
				}
				if _, err := pw.Write(content[off:end]); err != nil {
					return
				}
			}
			pw.Close()
		}()
		return pr
	}
}

func main() {
	time.Local = time.FixedZone("UTC-5:30", -(5*3600 + 1800)) // the process does not live in UTC
	r := lib.Start("C07", "exploration")
	r.Rule = "round trips: 6 key specs x {JWS, COSE} x {local signer, plugin-backed raw, plugin-backed envelope} x {OCI artifact through an on-disk layout, blob} x content sizes {0,1,63,64,65,4 KiB,1 MiB,(8 MiB thorough)} x media types (with parameters) x metadata maps (empty, 1-5 pairs, unicode, JSON-special characters) x expiry {0, 1 h, 24 h, 10 y} x signing agent; quick: every (key spec, format, signer kind, blob/OCI) at least once plus a PRNG sample; distinct by the full tuple; all non-trivial"
	r.Rule += "; plus round trips over an in-process registry (referrers API with paging; tag-schema fallback; deletions refused), through the three FromConfig constructors over separate user directories, with a plugin key chosen by the call's configuration, through the older constructor names and entry point, with exact attempt limits"
	r.Assumptions = []string{"sizes < 2^53; metadata is valid UTF-8", "the verifying policy trusts the signer's root with the wildcard identity; revocation validators are scripted OK"}
	ctx := context.Background()
	signers := map[string]*lib.Ent{}
	for _, s := range lib.KeySpecs {
		signers[s] = lib.SimpleChain("c07-"+s, 1, s, 0)
	}
	metas := []map[string]string{nil, {}, {"k": "v"}, {"buildId": "101", "commit": "abc", "team": "x", "env": "prod", "n": "5"}, {"ключ": "значение ✓", "emoji": "🚀"}, {"quote\"key": "a\\b\"c", "brace": "{[,:]}", "nl": "line1\nline2", "empty": ""},
		{"digest": "sha256:not-a-digest", "size": "1", "mediaType": "m", "annotations": "a", "targetArtifact": "t"}, // (keys spelled like members of the signed payload are user metadata like any other)
		{"com.example.mirror.io.cncf.notary.buildId": "7", "x-io.cncf.notary": "legal: the reserved namespace is a PREFIX", "IO.CNCF.NOTARY.upper": "v", "io.cncf.notar": "y", "io.cncf": "notary"}}
	mediaTypes := []string{"application/octet-stream", "text/plain; charset=utf-8", "application/vnd.example.thing+json", "application/x-tar; version=1; q=\"a b\""}
	sizes := []int{0, 1, 63, 64, 65, 4096, 1 << 20}
	if r.Thorough() {
		sizes = append(sizes, 8<<20)
	}
	expiries := []time.Duration{0, time.Hour, 45 * time.Second, 24 * time.Hour, 10 * 365 * 24 * time.Hour} // (45 s: verified at once, well before it expires)
	var cases []caseT
	rng := r.Rand("cases")
	k := 0
	for _, spec := range lib.KeySpecs {
		for _, format := range lib.Formats {
			for _, sk := range []string{"local", "local-from-files", "plugin-raw", "plugin-envelope"} {
				for _, blob := range []bool{false, true} {
					reps := r.N(6, 120)
					if strings.HasPrefix(spec, "RSA-4") || strings.HasPrefix(spec, "RSA-3") {
						reps = r.N(3, 30)
					}
					for rep := 0; rep < reps; rep++ {
						k++
						cases = append(cases, caseT{Spec: spec, Format: format, SignerKind: sk, Blob: blob, Size: sizes[(k+rng.Intn(3))%len(sizes)], MediaType: mediaTypes[rng.Intn(len(mediaTypes))],
							Metadata: metas[(k+rep)%len(metas)], Expiry: expiries[(k/2+rep)%len(expiries)], Agent: []string{"", "my-agent/1.0"}[k%2]})
					}
				}
			}
		}
	}
	decoyRoot := lib.Mint(nil, lib.CertSpec{CN: "c07-somebody-else", Kind: "ca", KeyIdx: 5})
	tsaRoot := lib.Mint(nil, lib.CertSpec{CN: "c07-tsa-root", Kind: "ca", KeyIdx: 6})
	tsaLeaf := lib.Mint(tsaRoot, lib.CertSpec{CN: "c07-tsa", Kind: "tsa", KeyIdx: 2})
	lib.Parallel(len(cases), 16, func(ci int) {
		c := cases[ci]
		ent := signers[c.Spec]
		id := fmt.Sprintf("%s|%s|%s|blob=%v|size=%d|%s|meta=%d|exp=%v", c.Spec, c.Format, c.SignerKind, c.Blob, c.Size, c.MediaType, len(c.Metadata), c.Expiry)
		content := r.Rand(id).Bytes(c.Size)
		var sgn interface {
			notation.Signer
			notation.BlobSigner
		}
		switch c.SignerKind {
		case "local":
			gs, err := signer.NewGenericSigner(ent.Key, ent.Chain())
			if err != nil {
				panic(err)
			}
			sgn = gs
			if ci%4 == 3 && !c.Blob {
				// the older constructor name (still exported) yields a signer that signs the same way
				old, err := signer.New(ent.Key, ent.Chain())
				if err != nil {
					r.Violation(map[string]string{"kind": "sign-failed", "signer": "signer.New", "spec": c.Spec}, fmt.Sprintf("%s: signer.New refuses a valid key and chain: %v", id, err), nil)
					return
				}
				sgn = old.(interface {
					notation.Signer
					notation.BlobSigner
				})
				r.Event("signers-from-the-older-constructor-names")
			}
		case "local-from-files": // the key and the chain (leaf first) as PEM files, the way the CLI hands them over
			kd := lib.TempDir("c07k")
			defer os.RemoveAll(kd)
			der, err := x509.MarshalPKCS8PrivateKey(ent.Key)
			if err != nil {
				panic(err)
			}
			var chainPEM []byte
			for _, crt := range ent.Chain() {
				chainPEM = append(chainPEM, pem.EncodeToMemory(&pem.Block{Type: "CERTIFICATE", Bytes: crt.Raw})...)
			}
			os.WriteFile(filepath.Join(kd, "k.key"), pem.EncodeToMemory(&pem.Block{Type: "PRIVATE KEY", Bytes: der}), 0o600)
			os.WriteFile(filepath.Join(kd, "k.crt"), chainPEM, 0o644)
			gs, err := signer.NewGenericSignerFromFiles(filepath.Join(kd, "k.key"), filepath.Join(kd, "k.crt"))
			if err != nil {
				r.Violation(map[string]string{"kind": "sign-failed", "signer": c.SignerKind, "spec": c.Spec}, fmt.Sprintf("%s: a signer cannot be built from the PEM files of a valid key and chain: %v", id, err), nil)
				return
			}
			sgn = gs
		default:
			ps, err := signer.NewPluginSigner(&lib.HonestSignPlugin{Mode: strings.TrimPrefix(c.SignerKind, "plugin-"), Ent: ent, KeySpecName: c.Spec, Annotations: map[string]string{"plugin.ann": "x"}}, "key-1", map[string]string{"c": "v"})
			if err != nil {
				panic(err)
			}
			sgn = ps
			if ci%4 == 3 && !c.Blob {
				old, err := signer.NewFromPlugin(&lib.HonestSignPlugin{Mode: strings.TrimPrefix(c.SignerKind, "plugin-"), Ent: ent, KeySpecName: c.Spec, Annotations: map[string]string{"plugin.ann": "x"}}, "key-1", map[string]string{"c": "v"})
				if err != nil {
					r.Violation(map[string]string{"kind": "sign-failed", "signer": "signer.NewFromPlugin", "spec": c.Spec}, fmt.Sprintf("%s: signer.NewFromPlugin failed: %v", id, err), nil)
					return
				}
				sgn = old.(interface {
					notation.Signer
					notation.BlobSigner
				})
				r.Event("signers-from-the-older-constructor-names")
			}
		}
		sv := trustpolicy.SignatureVerification{VerificationLevel: "strict"}
		ts := lib.NewMemTS().Put("ca:x", ent.Root().Cert)
		stores := []string{"ca:x"}
		switch ci % 4 { // the signer's root is in ONE of several stores of the statement; the others hold somebody else
		case 1:
			stores = []string{"ca:x", "ca:partners"}
			ts.Put("ca:partners", decoyRoot.Cert)
		case 2:
			stores = []string{"ca:partners", "ca:x", "signingAuthority:sa"}
			ts.Put("ca:partners", decoyRoot.Cert).Put("signingAuthority:sa", decoyRoot.Cert)
		case 3:
			stores = []string{"ca:x", "ca:partners", "ca:more"}
			ts.Put("ca:partners", decoyRoot.Cert).Put("ca:more", tsaRoot.Cert)
		}
		sopts := notation.SignerSignOptions{SignatureMediaType: c.Format, ExpiryDuration: c.Expiry, SigningAgent: c.Agent}
		// every third locally signed case is countersigned at signing time by the in-process RFC 3161 TSA and verified
		// by a policy that DEMANDS the countersignature (tsa store listed, verifyTimestamp=always)
		timestamped := strings.HasPrefix(c.SignerKind, "local") && ci%3 == 0
		if timestamped {
			pool := x509.NewCertPool()
			pool.AddCert(tsaRoot.Cert)
			sopts.Timestamper, sopts.TSARootCAs = &lib.TSA{Key: tsaLeaf.Key, Chain: tsaLeaf.Chain()}, pool
			if ci%2 == 0 {
				sopts.TSARevocationValidator = lib.OKRev{}
			}
			sv.VerifyTimestamp = trustpolicy.OptionAlways
			stores = append(stores, "tsa:t")
			ts.Put("tsa:t", tsaRoot.Cert)
			r.Event("countersigned-at-signing-time")
		}
		ids := []string{"*"}
		switch (ci / 2) % 4 { // the policy "trusts the signer" by wildcard or by pinning its subject - alone, or next to identities of another kind
		case 1:
			ids = []string{"x509.subject:" + lib.DNOf(ent.Cert)}
		case 2:
			ids = []string{"did:example:some-other-kind-of-identity", "x509.subject:" + lib.DNOf(ent.Cert)}
		case 3:
			ids = []string{"x509.subject:C=ZZ,ST=ZZ,O=Nobody", "acme.signer.id:42", "x509.subject:" + lib.DNOf(ent.Cert)}
		}
		v, err := verifier.NewVerifierWithOptions(ts, verifier.VerifierOptions{OCITrustPolicy: lib.OCIPolicy(sv, stores, ids), BlobTrustPolicy: lib.BlobPolicy(sv, stores, ids),
			RevocationCodeSigningValidator: lib.OKRev{}, RevocationTimestampingValidator: lib.OKRev{}})
		if err != nil {
			panic(err)
		}
		r.Eval(id)
		wit := map[string]any{"case": c}
		sig := func(kind string) map[string]string {
			return map[string]string{"kind": kind, "spec": c.Spec, "format": c.Format, "signer": c.SignerKind, "blob": fmt.Sprint(c.Blob)}
		}
		wantMeta := c.Metadata
		if wantMeta == nil {
			wantMeta = map[string]string{}
		}
		t0 := time.Now()
		checkPayload := func(out *notation.VerificationOutcome, want ocispec.Descriptor) {
			var payload map[string]json.RawMessage
			json.Unmarshal(out.EnvelopeContent.Payload.Content, &payload)
			var got ocispec.Descriptor
			json.Unmarshal(payload["targetArtifact"], &got)
			var fields map[string]json.RawMessage
			json.Unmarshal(payload["targetArtifact"], &fields)
			for f := range fields {
				if f != "mediaType" && f != "digest" && f != "size" && f != "annotations" {
					r.Violation(sig("payload-extra-field"), fmt.Sprintf("%s: the verified payload carries the field %q", id, f), wit)
				}
			}
			if got.MediaType != want.MediaType || got.Digest != want.Digest || got.Size != want.Size || !sameMap(got.Annotations, want.Annotations) {
				r.Violation(sig("payload"), fmt.Sprintf("%s: verified payload {%s %s %d %v}, signed descriptor {%s %s %d %v}", id, got.MediaType, got.Digest, got.Size, got.Annotations, want.MediaType, want.Digest, want.Size, want.Annotations), wit)
			}
			um, err := out.UserMetadata()
			if err != nil || !sameMap(um, want.Annotations) {
				r.Violation(sig("user-metadata"), fmt.Sprintf("%s: outcome.UserMetadata() = %v (err=%v), signed %v", id, um, err, want.Annotations), wit)
			}
			si := out.EnvelopeContent.SignerInfo
			st, exp := si.SignedAttributes.SigningTime, si.SignedAttributes.Expiry
			if c.Expiry == 0 {
				if !exp.IsZero() {
					r.Violation(sig("expiry"), fmt.Sprintf("%s: no expiry requested, envelope expires %v", id, exp), wit)
				}
			} else if !exp.Equal(st.Add(c.Expiry)) && !exp.Equal(st.Truncate(time.Second).Add(c.Expiry)) {
				r.Violation(sig("expiry"), fmt.Sprintf("%s: expiry %v, signing time %v + %v expected", id, exp, st, c.Expiry), wit)
			}
			if st.Before(t0.Add(-2*time.Second)) || st.After(time.Now().Add(2*time.Second)) {
				r.Violation(sig("signing-time"), fmt.Sprintf("%s: signing time %v is not the time of signing", id, st), wit)
			}
			if timestamped && len(si.UnsignedAttributes.TimestampSignature) == 0 {
				r.Violation(sig("countersignature-missing"), id+": a timestamper was given to the signer, the verified envelope carries no countersignature", wit)
			}
			if c.Agent != "" && strings.HasPrefix(c.SignerKind, "local") && si.UnsignedAttributes.SigningAgent != c.Agent {
				r.Violation(sig("agent"), fmt.Sprintf("%s: signing agent %q, requested %q", id, si.UnsignedAttributes.SigningAgent, c.Agent), wit)
			}
		}
		if c.Blob {
			sigBytes, _, err := notation.SignBlob(ctx, sgn, readerOf(ci, content), notation.SignBlobOptions{SignerSignOptions: sopts, ContentMediaType: c.MediaType, UserMetadata: c.Metadata})
			if err != nil {
				r.Violation(sig("sign-failed"), fmt.Sprintf("%s: SignBlob failed: %v", id, err), wit)
				return
			}
			alg := algOf[lib.HashFor(ent.Key)]
			want := ocispec.Descriptor{MediaType: c.MediaType, Digest: alg.FromBytes(content), Size: int64(len(content)), Annotations: wantMeta}
			byField := notation.VerifyBlobOptions{} // filled field by field through the promoted selectors
			byField.SignatureMediaType, byField.UserMetadata, byField.ContentMediaType = c.Format, c.Metadata, c.MediaType
			for vi, vo := range []notation.VerifyBlobOptions{
				{BlobVerifierVerifyOptions: notation.BlobVerifierVerifyOptions{SignatureMediaType: c.Format, UserMetadata: c.Metadata}, ContentMediaType: c.MediaType},
				{BlobVerifierVerifyOptions: notation.BlobVerifierVerifyOptions{SignatureMediaType: c.Format, TrustPolicyName: "p"}},
				byField,
			} {
				desc, out, err := notation.VerifyBlob(ctx, v, readerOf(ci+vi+1, content), sigBytes, vo)
				if err != nil || out == nil {
					r.Violation(sig("verify-failed"), fmt.Sprintf("%s: VerifyBlob (variant %d) of the library's own signature failed: %v", id, vi, err), wit)
					return
				}
				r.Event("blob-round-trips")
				if vi == 1 && ci%2 == 0 {
					// the same, under a document whose GLOBAL statement (listed first, trusting somebody else) is not the one asked for
					{
						ts.Put("ca:somebody-else", decoyRoot.Cert)
						v2, err2 := verifier.NewVerifierWithOptions(ts, verifier.VerifierOptions{BlobTrustPolicy: lib.BlobPolicyNamedAfterGlobal(sv, stores, ids, "ca:somebody-else"),
							RevocationCodeSigningValidator: lib.OKRev{}, RevocationTimestampingValidator: lib.OKRev{}})
						if err2 != nil {
							panic(err2)
						}
						d2, out2, errNamed := notation.VerifyBlob(ctx, v2, readerOf(ci+vi+7, content), sigBytes, vo)
						r.Event("blob-round-trips-under-a-named-statement-listed-after-the-global-one")
						if errNamed != nil || out2 == nil || d2.Digest != desc.Digest {
							r.Violation(sig("verify-failed"), fmt.Sprintf("%s: VerifyBlob under the named statement p (listed after a global statement that trusts somebody else) failed: %v", id, errNamed), wit)
							return
						}
					}
				}
				annOK := sameMap(desc.Annotations, want.Annotations) || (len(desc.Annotations) == 0 && len(want.Annotations) == 0)
				if desc.MediaType != want.MediaType || desc.Digest != want.Digest || desc.Size != want.Size || !annOK {
					r.Violation(sig("returned-blob-descriptor"), fmt.Sprintf("%s: VerifyBlob returned descriptor {%q %s %d %v}, the verified blob is {%q %s %d %v}", id, desc.MediaType, desc.Digest, desc.Size, desc.Annotations, want.MediaType, want.Digest, want.Size, want.Annotations), wit)
				}
				if desc.Digest != "" && desc.Digest.Algorithm() != alg {
					r.Violation(sig("blob-digest-algorithm"), fmt.Sprintf("%s: blob digest uses %s, the key spec binds %s", id, desc.Digest.Algorithm(), alg), wit)
				}
				checkPayload(out, want)
			}
			r.Sample("blob", id)
			return
		}
		// ---- OCI: a real on-disk layout
		dir := lib.TempDir("c07")
		defer os.RemoveAll(dir)
		var store oras.Target
		overRegistry := ci%12 == 3 || ci%12 == 5 // (3: a stranger's signature is attached first, 5: it is not)
		var reg *lib.FakeRegistry
		if overRegistry {
			// ... or a registry (in-process server speaking the distribution and referrers API)
			reg = lib.NewFakeRegistry(1 + ci%2)
			defer reg.Close()
			switch (ci / 12) % 3 { // a registry with the referrers API; one without (referrers tag schema); one that also refuses deletions
			case 1:
				reg.NoReferrersAPI = true
				r.Event("oci-round-trips-over-a-registry-without-referrers-api")
			case 2:
				reg.NoReferrersAPI, reg.FailDelete = true, true
				r.Event("oci-round-trips-over-a-registry-without-referrers-api-that-refuses-deletions")
			}
			rr, err := remote.NewRepository(reg.Host() + "/test")
			if err != nil {
				panic(err)
			}
			rr.PlainHTTP = true
			rr.Client = reg.Client()
			store = rr
			r.Event("oci-round-trips-over-a-registry")
		} else {
			st, err := oci.New(dir)
			if err != nil {
				panic(err)
			}
			store = st
		}
		layer, _ := oras.PushBytes(ctx, store, c.MediaType, content)
		cfg, _ := oras.PushBytes(ctx, store, ocispec.MediaTypeImageConfig, []byte("{}"))
		m := ocispec.Manifest{MediaType: ocispec.MediaTypeImageManifest, Config: cfg, Layers: []ocispec.Descriptor{layer}, ArtifactType: "application/vnd.example.artifact"}
		m.SchemaVersion = 2
		mb, _ := json.Marshal(m)
		artifact := ocispec.Descriptor{MediaType: ocispec.MediaTypeImageManifest, Digest: digest.FromBytes(mb), Size: int64(len(mb))}
		store.Push(ctx, artifact, bytes.NewReader(mb))
		store.Tag(ctx, artifact, "v1")
		var repo registry.Repository
		if overRegistry {
			repo = registry.NewRepository(store.(*remote.Repository))
		} else {
			var err error
			if repo, err = registry.NewOCIRepository(dir, registry.RepositoryOptions{}); err != nil {
				panic(err)
			}
		}
		if ci%2 == 0 {
			// a registry may resolve a descriptor with more fields than the four that are signed (OCI 1.1: artifactType, ...)
			repo = richRepo{repo}
		}
		if ci%3 == 0 {
			// another signature, by a signer the policy does NOT trust, is attached first: verification must still end with
			// exactly the outcome of the signature that verifies
			stranger := lib.SimpleChain("c07-stranger", 0, "EC-256", 2)
			sg, err := signer.NewGenericSigner(stranger.Key, stranger.Chain())
			if err != nil {
				panic(err)
			}
			if _, _, err := notation.SignOCI(ctx, sg, repo, notation.SignOptions{SignerSignOptions: notation.SignerSignOptions{SignatureMediaType: []string{c.Format, otherFormat(c.Format)}[(ci/3)%2]}, ArtifactReference: "registry.example/repo@" + artifact.Digest.String(), UserMetadata: map[string]string{"signed-by": "stranger"}}); err != nil { // (same or the OTHER envelope format)
				panic(err)
			}
			r.Event("artifacts-with-a-foreign-signature")
		}
		resolved, _ := repo.Resolve(ctx, artifact.Digest.String())
		ref := "registry.example/repo@" + artifact.Digest.String()
		var aDesc ocispec.Descriptor
		if ci%5 == 4 {
			// the older entry point (still exported, documented as equivalent apart from what it returns)
			aDesc, err = notation.Sign(ctx, sgn, repo, notation.SignOptions{SignerSignOptions: sopts, ArtifactReference: ref, UserMetadata: c.Metadata})
			r.Event("signed-through-the-older-entry-point")
		} else {
			aDesc, _, err = notation.SignOCI(ctx, sgn, repo, notation.SignOptions{SignerSignOptions: sopts, ArtifactReference: ref, UserMetadata: c.Metadata})
		}
		var idxDel *remote.ReferrersError
		if err != nil && reg != nil && reg.FailDelete && errors.As(err, &idxDel) && idxDel.IsReferrersIndexDelete() {
			// documented: the signature IS pushed and the descriptors are returned; the error only says that the index this
			// push replaced could not be removed from the registry
			r.Event("signed-with-the-could-not-delete-the-replaced-index-warning")
		} else if err != nil {
			r.Violation(sig("sign-failed"), fmt.Sprintf("%s: SignOCI failed: %v", id, err), wit)
			return
		}
		wantAnn := map[string]string{}
		for k, v := range resolved.Annotations {
			wantAnn[k] = v
		}
		for k, v := range c.Metadata {
			wantAnn[k] = v
		}
		want := ocispec.Descriptor{MediaType: artifact.MediaType, Digest: artifact.Digest, Size: artifact.Size, Annotations: wantAnn}
		// the permitted number of attempts is generous, or exactly the number of signatures there are to look at
		attempts := 5
		if ci%2 == 1 {
			attempts = 1
			if ci%3 == 0 {
				attempts = 2
			}
			r.Event("verified-with-exactly-as-many-attempts-as-signatures")
		}
		vDesc, outs, err := notation.Verify(ctx, v, repo, notation.VerifyOptions{ArtifactReference: ref, MaxSignatureAttempts: attempts, UserMetadata: c.Metadata})
		if err != nil || len(outs) != 1 {
			r.Violation(sig("verify-failed"), fmt.Sprintf("%s: Verify of the library's own signature failed: %v", id, err), wit)
			return
		}
		r.Event("oci-round-trips")
		if vDesc.Digest != artifact.Digest || aDesc.Digest != artifact.Digest {
			r.Violation(sig("returned-artifact-descriptor"), id+": Verify/SignOCI returned another artifact descriptor", wit)
		}
		checkPayload(outs[0], want)
		r.Sample("oci", id)
	}, r.PanicViolation("sign/verify round trip"))
	concurrentStreams(r, signers["EC-256"])
	fromConfig(r, signers["EC-384"])
	keyChosenPerCall(r, signers["EC-256"], signers["EC-384"])
	r.RequireAtLeast("blob-round-trips", 72)
	r.RequireAtLeast("oci-round-trips", 36)
	r.Finish()
}

// richRepo decorates the descriptor a repository resolves with the optional descriptor fields.
type richRepo struct{ registry.Repository }

func (r richRepo) Resolve(ctx context.Context, ref string) (ocispec.Descriptor, error) {
	d, err := r.Repository.Resolve(ctx, ref)
	if err == nil {
		d.ArtifactType = "application/vnd.example.artifact"
		d.URLs = []string{"https://example.invalid/blob"}
		d.Data = []byte("embedded")
		d.Platform = &ocispec.Platform{Architecture: "amd64", OS: "linux"}
		// what is being signed may itself be a signature manifest (countersigning): its descriptor carries annotations
		// in the Notary namespace - annotations of the artifact like any other
		if d.Annotations == nil {
			d.Annotations = map[string]string{}
		}
		d.Annotations["io.cncf.notary.x509chain.thumbprint#S256"] = `["00aa"]`
	}
	return d, err
}

// keyChosenPerCall: a plugin-backed signer whose plugin holds two keys of different specs; the configuration given WITH THE
// CALL selects the key (an alias, a key version). Everything the signer asks the plugin in that call - the key's spec
// included - is asked with the merged configuration, so the digest follows the key that signs, and the round trip closes.
func keyChosenPerCall(r *lib.Run, def, alt *lib.Ent) {
	ctx := context.Background()
	ts := lib.NewMemTS().Put("ca:x", def.Root().Cert, alt.Root().Cert)
	sv := trustpolicy.SignatureVerification{VerificationLevel: "strict"}
	v, err := verifier.NewVerifierWithOptions(ts, verifier.VerifierOptions{OCITrustPolicy: lib.OCIPolicy(sv, []string{"ca:x"}, []string{"*"}), BlobTrustPolicy: lib.BlobPolicy(sv, []string{"ca:x"}, []string{"*"}),
		RevocationCodeSigningValidator: lib.OKRev{}, RevocationTimestampingValidator: lib.OKRev{}})
	if err != nil {
		panic(err)
	}
	content := []byte("c07 blob signed with the key the call selects")
	desc := lib.Desc(ocispec.MediaTypeImageManifest, []byte("c07 artifact signed with the key the call selects"))
	for _, mode := range []string{"raw", "envelope"} {
		for _, format := range lib.Formats {
			for _, which := range []string{"default", "alt"} {
				p := &lib.TwoKeyPlugin{Default: &lib.HonestSignPlugin{Mode: mode, Ent: def, KeySpecName: "EC-256"}, Alt: &lib.HonestSignPlugin{Mode: mode, Ent: alt, KeySpecName: "EC-384"}}
				ps, err := signer.NewPluginSigner(p, "key-1", map[string]string{"region": "eu-1"})
				if err != nil {
					panic(err)
				}
				var callCfg map[string]string
				wantAlg := digest.SHA256
				if which == "alt" {
					callCfg, wantAlg = map[string]string{"key": "alt"}, digest.SHA384
				}
				id := fmt.Sprintf("key-chosen-per-call|%s|%s|%s", mode, format, which)
				sig := map[string]string{"kind": "verify-failed", "signer": "plugin-" + mode, "format": format, "key": which}
				sopts := notation.SignerSignOptions{SignatureMediaType: format, PluginConfig: callCfg}
				r.Eval(id + "|blob")
				sigBytes, _, err := notation.SignBlob(ctx, ps, bytes.NewReader(content), notation.SignBlobOptions{SignerSignOptions: sopts, ContentMediaType: "text/plain"})
				if err != nil {
					r.Violation(map[string]string{"kind": "sign-failed", "signer": "plugin-" + mode, "format": format, "key": which}, fmt.Sprintf("%s: SignBlob failed: %v", id, err), nil)
				} else if got, out, err := notation.VerifyBlob(ctx, v, bytes.NewReader(content), sigBytes, notation.VerifyBlobOptions{BlobVerifierVerifyOptions: notation.BlobVerifierVerifyOptions{SignatureMediaType: format}, ContentMediaType: "text/plain"}); err != nil || out == nil || got.Digest != wantAlg.FromBytes(content) {
					r.Violation(sig, fmt.Sprintf("%s: the blob signature made with the key selected by the call's plugin configuration does not verify (or names digest %s, expected %s): %v", id, got.Digest, wantAlg.FromBytes(content), err), nil)
				} else {
					r.Event("round-trips-with-a-key-chosen-by-the-call")
				}
				r.Eval(id + "|oci")
				sigBytes, _, err = ps.Sign(ctx, desc, sopts)
				if err != nil {
					r.Violation(map[string]string{"kind": "sign-failed", "signer": "plugin-" + mode, "format": format, "key": which}, fmt.Sprintf("%s: Sign failed: %v", id, err), nil)
				} else if out, err := v.Verify(ctx, desc, sigBytes, notation.VerifierVerifyOptions{ArtifactReference: "registry.example/repo@" + desc.Digest.String(), SignatureMediaType: format}); err != nil || out == nil {
					r.Violation(sig, fmt.Sprintf("%s: the signature made with the key selected by the call's plugin configuration does not verify: %v", id, err), nil)
				} else {
					r.Event("round-trips-with-a-key-chosen-by-the-call")
				}
			}
		}
	}
}

// fromConfig: the verifiers a CLI builds from the user's directories (three separate directories, as on a real
// machine): policy documents and trust store live under the configuration directory and nowhere else.
func fromConfig(r *lib.Run, ent *lib.Ent) {
	ctx := context.Background()
	base := lib.TempDir("c07cfg")
	defer os.RemoveAll(base)
	dir.UserConfigDir, dir.UserLibexecDir, dir.UserCacheDir = filepath.Join(base, "config"), filepath.Join(base, "libexec"), filepath.Join(base, "cache")
	for _, d := range []string{dir.UserConfigDir, dir.UserLibexecDir, dir.UserCacheDir} {
		os.MkdirAll(d, 0o755)
	}
	sv := trustpolicy.SignatureVerification{VerificationLevel: "strict", Override: map[trustpolicy.ValidationType]trustpolicy.ValidationAction{trustpolicy.TypeRevocation: trustpolicy.ActionSkip}}
	os.MkdirAll(filepath.Join(dir.UserConfigDir, "truststore", "x509", "ca", "x"), 0o755)
	os.WriteFile(filepath.Join(dir.UserConfigDir, "truststore", "x509", "ca", "x", "root.crt"), ent.Root().Cert.Raw, 0o644)
	od, _ := json.Marshal(lib.OCIPolicy(sv, []string{"ca:x"}, []string{"*"}))
	bd, _ := json.Marshal(lib.BlobPolicy(sv, []string{"ca:x"}, []string{"*"}))
	os.WriteFile(filepath.Join(dir.UserConfigDir, dir.PathOCITrustPolicy), od, 0o600)
	os.WriteFile(filepath.Join(dir.UserConfigDir, dir.PathBlobTrustPolicy), bd, 0o600)
	sgn, err := signer.NewGenericSigner(ent.Key, ent.Chain())
	if err != nil {
		panic(err)
	}
	content := []byte("c07 from-config blob")
	desc := lib.Desc(ocispec.MediaTypeImageManifest, []byte("c07 from-config artifact"))
	for _, format := range lib.Formats {
		for _, ctor := range []string{"NewBlobVerifierFromConfig", "NewOCIVerifierFromConfig", "NewFromConfig"} {
			id := "from-config|" + ctor + "|" + format
			r.Eval(id)
			sig := map[string]string{"kind": "verify-failed", "constructor": ctor, "format": format}
			if ctor == "NewBlobVerifierFromConfig" {
				sigBytes, _, err := notation.SignBlob(ctx, sgn, bytes.NewReader(content), notation.SignBlobOptions{SignerSignOptions: notation.SignerSignOptions{SignatureMediaType: format}, ContentMediaType: "text/plain", UserMetadata: map[string]string{"k": "v"}})
				if err != nil {
					r.Violation(sig, id+": SignBlob failed: "+err.Error(), nil)
					continue
				}
				v, err := verifier.NewBlobVerifierFromConfig()
				if err != nil {
					r.Violation(sig, id+": constructor failed over a well-formed configuration directory: "+err.Error(), nil)
					continue
				}
				got, out, err := notation.VerifyBlob(ctx, v, bytes.NewReader(content), sigBytes, notation.VerifyBlobOptions{BlobVerifierVerifyOptions: notation.BlobVerifierVerifyOptions{SignatureMediaType: format, UserMetadata: map[string]string{"k": "v"}}, ContentMediaType: "text/plain"})
				if err != nil || out == nil || got.Digest != digest.SHA384.FromBytes(content) { // (a P-384 key signs a SHA-384 digest)
					r.Violation(sig, fmt.Sprintf("%s: the library's own blob signature does not verify under the verifier built from the configuration directory (policy and store trust the signer): %v", id, err), nil)
					continue
				}
			} else {
				sigBytes, _, err := sgn.Sign(ctx, desc, notation.SignerSignOptions{SignatureMediaType: format})
				if err != nil {
					r.Violation(sig, id+": Sign failed: "+err.Error(), nil)
					continue
				}
				var v notation.Verifier
				if ctor == "NewFromConfig" {
					v, err = verifier.NewFromConfig()
				} else {
					v, err = verifier.NewOCIVerifierFromConfig()
				}
				if err != nil {
					r.Violation(sig, id+": constructor failed over a well-formed configuration directory: "+err.Error(), nil)
					continue
				}
				out, err := v.Verify(ctx, desc, sigBytes, notation.VerifierVerifyOptions{ArtifactReference: "registry.example/repo@" + desc.Digest.String(), SignatureMediaType: format})
				if err != nil || out == nil {
					r.Violation(sig, fmt.Sprintf("%s: the library's own signature does not verify under the verifier built from the configuration directory (policy and store trust the signer): %v", id, err), nil)
					continue
				}
			}
			r.Event("round-trips-through-verifiers-built-from-the-configuration-directory")
		}
	}
	r.RequireAtLeast("round-trips-through-verifiers-built-from-the-configuration-directory", 6)
}

// concurrentStreams: many blob round trips in flight at once, every blob distinct and presented as a stream without a
// fast path, alternating formats. Each signature must verify against its own blob and name that blob's digest: state
// shared between calls in flight (a scratch buffer, a hasher) shows as a digest of some other stream's bytes.
func concurrentStreams(r *lib.Run, ent *lib.Ent) {
	ctx := context.Background()
	sv := trustpolicy.SignatureVerification{VerificationLevel: "strict"}
	ts := lib.NewMemTS().Put("ca:x", ent.Root().Cert)
	v, err := verifier.NewVerifierWithOptions(ts, verifier.VerifierOptions{BlobTrustPolicy: lib.BlobPolicy(sv, []string{"ca:x"}, []string{"*"}), RevocationCodeSigningValidator: lib.OKRev{}, RevocationTimestampingValidator: lib.OKRev{}})
	if err != nil {
		panic(err)
	}
	sgn, err := signer.NewGenericSigner(ent.Key, ent.Chain())
	if err != nil {
		panic(err)
	}
	G, R := 48, r.N(8, 60)
	var wg sync.WaitGroup
	for g := 0; g < G; g++ {
		wg.Add(1)
		go func(g int) {
			defer wg.Done()
			defer func() {
				if p := recover(); p != nil {
					r.PanicViolation("concurrent SignBlob/VerifyBlob")(g, p, debug.Stack())
				}
			}()
			for k := 0; k < R; k++ {
				id := fmt.Sprintf("concurrent|g=%d|k=%d", g, k)
				content := r.Rand(id).Bytes(64<<10 + (g*R+k)*257%(192<<10))
				format := lib.Formats[(g+k)%2]
				want := digest.FromBytes(content)
				r.Eval(id)
				sig := map[string]string{"kind": "concurrent-streams", "format": format}
				sigBytes, _, err := notation.SignBlob(ctx, sgn, readerOf(1+(g+k)%3, content), notation.SignBlobOptions{SignerSignOptions: notation.SignerSignOptions{SignatureMediaType: format}, ContentMediaType: "application/octet-stream"})
				if err != nil {
					r.Violation(sig, fmt.Sprintf("%s: SignBlob failed with %d calls in flight: %v", id, G, err), nil)
					continue
				}
				desc, out, err := notation.VerifyBlob(ctx, v, readerOf(1+(g+k+1)%3, content), sigBytes, notation.VerifyBlobOptions{BlobVerifierVerifyOptions: notation.BlobVerifierVerifyOptions{SignatureMediaType: format}})
				if err != nil || out == nil {
					r.Violation(sig, fmt.Sprintf("%s: the library's own signature does not verify against its own blob with %d calls in flight: %v", id, G, err), nil)
					continue
				}
				if desc.Digest != want || desc.Size != int64(len(content)) {
					r.Violation(sig, fmt.Sprintf("%s: VerifyBlob returned {%s %d}, the blob is {%s %d}", id, desc.Digest, desc.Size, want, len(content)), nil)
				}
				r.Event("concurrent-blob-round-trips")
			}
		}(g)
	}
	wg.Wait()
	r.RequireAtLeast("concurrent-blob-round-trips", int64(G*R/2))
}
