// C08 — the policy statement applied is the one scoped to the artifact's repository.
//
// Reference model (exact membership, else unique wildcard, else error) against
// OCIDocument.GetApplicableTrustPolicy for generated valid documents over a
// near-miss scope alphabet, under every permutation of the statements; the same
// through verifier.Verify, where the statement actually applied is observed from
// the trust store it makes the verifier consult; blob selection by exact name /
// global; and an aliasing monitor that scribbles over every reachable field of a
// returned statement and checks that document and later selections are unchanged.
package main

import (
	"context"
	"encoding/json"
	"errors"
	"fmt"
	"sort"
	"strings"
	"sync"

	"github.com/notaryproject/notation-go"
	"github.com/notaryproject/notation-go/verifharness/lib"
	"github.com/notaryproject/notation-go/verifier"
	"github.com/notaryproject/notation-go/verifier/trustpolicy"
	"github.com/opencontainers/go-digest"
	ocispec "github.com/opencontainers/image-spec/specs-go/v1"
)

var scopes = []string{"reg.io/a", "reg.io/a/b", "reg.io/a/b/c", "reg.io/ab", "reg.io/a-b", "reg.io/a_b", "reg.io/a.b", "REG.io/a", "reg.io:5000/a", "localhost/a", "reg.io/b", "reg.io.evil.com/a", "sub.reg.io/a", "reg.io/a/a", "reg.io/net--monitor", "reg.io/a---b/c",
	// a port is part of the registry name: the default HTTPS / HTTP ports spelled out name other strings than the bare host
	"reg.io:443/a", "reg.io:80/a", "reg.io:443/ab", "localhost:443/a",
	// long but perfectly legal repository paths (190, 255 and 300 characters; nothing limits the length of a scope), and a near miss
	"reg.io/" + strings.Repeat("a", 183), "reg.io/" + strings.Repeat("a", 184), "reg.io/team/" + strings.Repeat("sub/", 60) + "app", "reg.io/" + strings.Repeat("b", 293)}

type refPath struct {
	path  string
	valid bool // valid registry/repository string (tagged by construction, never computed)
}

var extraPaths = []refPath{
	{"reg.io/a/", false}, {"reg.io/A", false}, {"reg.io", false}, {"reg.io/a/b/c/d", true}, {"reg.i/a", true}, {"eg.io/a", true},
	{"reg.io/a:tag", false}, {"other.io/x", true}, {"reg.io/", false}, {"/a", false}, {"reg.io//a", false}, {"reg.io/a*", false},
	{"*", false}, {"", false}, {"reg.io/a ", false}, {" reg.io/a", false}, {"reg.io/a/b/", false}, {"reg.io/a/bc", true}, {"reg.io/aa", true},
	{"reg.io:5000/a/b", true}, {"reg.io:50000/a", true}, {"reg.io:443/b", true}, {"reg.io:443/a/b", true}, {"reg.io:80/b", true}, {"reg.io:4430/a", true}, {"localhost/a/b", true}, {"Reg.io/a", true},
	// a well-formed host[:port] followed by something else before the first slash is not a registry
	{"reg.io:5000x/a", false}, {"reg.io:/a", false}, {"reg.io:5000:5001/a", false}, {"reg.io./a", false}, {"reg.io-/a", false}, {"reg.io_5000/a", false},
	{"reg.io?x=1/a", false}, {"reg.io@evil.example/a", false}, {"reg.io /a", false}, {"reg.io:5000 /a", false},
}

const digestSuffix = "@sha256:aaaaaaaaaaaaaaaaaaaaaaaaaaaaaaaaaaaaaaaaaaaaaaaaaaaaaaaaaaaaaaaa"

// sameStatement compares what a selection handed out with the document's statement, field by field (nil and empty
// slices / maps are the same thing here).
func sameSV(a, b trustpolicy.SignatureVerification) bool {
	if a.VerificationLevel != b.VerificationLevel || a.VerifyTimestamp != b.VerifyTimestamp || len(a.Override) != len(b.Override) {
		return false
	}
	for k, v := range a.Override {
		if w, ok := b.Override[k]; !ok || w != v {
			return false
		}
	}
	return true
}
func sameStrings(a, b []string) bool {
	if len(a) != len(b) {
		return false
	}
	for i := range a {
		if a[i] != b[i] {
			return false
		}
	}
	return true
}

func docJSON(v any) string {
	b, _ := json.Marshal(v)
	return string(b)
}

// scribbleOCI overwrites every reachable field of a returned statement.
func scribbleSV(sv *trustpolicy.SignatureVerification) {
	sv.VerificationLevel = "skip"
	sv.VerifyTimestamp = "scribbled"
	for k := range sv.Override {
		sv.Override[k] = "scribbled"
	}
	if sv.Override != nil {
		sv.Override["scribbled-key"] = "scribbled"
		delete(sv.Override, trustpolicy.TypeRevocation)
	}
}
func scribbleStrings(s []string) {
	for i := range s {
		s[i] = "scribbled"
	}
	_ = append(s[:0], "x") // also through the backing array
}

func main() {
	r := lib.Start("C08", "exploration")
	r.Rule = "PRNG-generated valid OCI documents (1-4 statements over an 22-scope near-miss alphabet (incl. paths of 190-300 characters), optional wildcard/skip statement) x all statement permutations x a 42-path reference alphabet x {digest, none, tag, tag+digest, doubled @} suffixes; blob documents x name alphabet; distinct by (document, permutation, reference); non-trivial = selection succeeds"
	r.Rule += "; plus notation.Verify over a repository (artifact signed / unsigned / unresolvable) with the library's verifier and a forwarding-only wrapper, sha384/sha512 references, malformed registry parts, and 16 goroutines sharing one verifier"
	r.Assumptions = []string{"validity of each reference path in the alphabet is tagged by construction from the distribution grammar, not recomputed",
		"whitespace-only blob policy names are excluded (the statement does not say whether they count as 'no name')"}
	rng := r.Rand("docs")
	nDocs := r.N(400, 15000)
	nVerify := r.N(150, 6000)

	signer := lib.SimpleChain("c08", 0, "EC-256", 0)
	desc := lib.Desc(ocispec.MediaTypeImageManifest, []byte("c08"))
	sig := lib.MustCoreSign(lib.SignSpec{Format: lib.MediaJWS, Payload: lib.Payload(desc), Signer: signer})

	var paths []refPath
	for _, s := range scopes {
		paths = append(paths, refPath{s, true})
	}
	paths = append(paths, extraPaths...)
	suffixes := []struct {
		s      string
		digest bool
	}{{digestSuffix, true}, {"", false}, {":v1", false}, {":v1" + digestSuffix, false}, {digestSuffix + digestSuffix, false},
		// digests of the other registered / supported algorithms select exactly like sha256 ones
		{"@sha384:" + strings.Repeat("b", 96), true}, {"@sha512:" + strings.Repeat("c", 128), true}}

	type doc struct {
		st    []trustpolicy.OCITrustPolicy
		owner map[string]string
		wild  string
		skip  string
	}
	var docs []doc
	for d := 0; d < nDocs; d++ {
		k := 1 + rng.Intn(4)
		perm := rng.Perm(len(scopes))
		used := 0
		dd := doc{owner: map[string]string{}}
		for i := 0; i < k; i++ {
			name := fmt.Sprintf("s%d", i)
			p := trustpolicy.OCITrustPolicy{Name: name, SignatureVerification: trustpolicy.SignatureVerification{VerificationLevel: "strict"}, TrustStores: []string{"ca:" + name}, TrustedIdentities: []string{"*"}}
			switch rng.Intn(6) {
			case 0, 1:
				p.SignatureVerification.Override = map[trustpolicy.ValidationType]trustpolicy.ValidationAction{trustpolicy.TypeRevocation: trustpolicy.ActionSkip, trustpolicy.TypeExpiry: trustpolicy.ActionLog}
			case 2:
				p.SignatureVerification.Override = map[trustpolicy.ValidationType]trustpolicy.ValidationAction{} // what `"override": {}` decodes to: present, empty
			}
			p.SignatureVerification.VerifyTimestamp = []trustpolicy.TimestampOption{"", "", trustpolicy.OptionAlways, trustpolicy.OptionAfterCertExpiry}[rng.Intn(4)]
			if dd.skip == "" && rng.Intn(5) == 0 {
				p.SignatureVerification = trustpolicy.SignatureVerification{VerificationLevel: "skip"}
				p.TrustStores, p.TrustedIdentities = nil, nil
				dd.skip = name
			}
			if dd.wild == "" && rng.Intn(3) == 0 {
				p.RegistryScopes = []string{"*"}
				dd.wild = name
			} else {
				m := 1 + rng.Intn(3)
				for j := 0; j < m && used < len(perm); j++ {
					s := scopes[perm[used]]
					used++
					p.RegistryScopes = append(p.RegistryScopes, s)
					dd.owner[s] = name
				}
				if len(p.RegistryScopes) == 0 {
					continue
				}
			}
			dd.st = append(dd.st, p)
		}
		docs = append(docs, dd)
	}

	model := func(d doc, p refPath, digest bool) string {
		if !digest || !p.valid {
			return ""
		}
		if o, ok := d.owner[p.path]; ok {
			return o
		}
		return d.wild
	}

	// ---- 1. selection vs model under all permutations, and aliasing monitor
	lib.Parallel(len(docs), 16, func(di int) {
		d := docs[di]
		perms := permutations(len(d.st))
		for pi, pm := range perms {
			st := make([]trustpolicy.OCITrustPolicy, len(pm))
			for i, j := range pm {
				st[i] = d.st[j]
			}
			pd := deepCopy(&trustpolicy.OCIDocument{Version: "1.0", TrustPolicies: st})
			if pi == 0 {
				if err := pd.Validate(); err != nil {
					panic(fmt.Sprintf("harness bug: generated document invalid: %v %s", err, docJSON(pd)))
				}
			}
			snap := docJSON(pd)
			for _, p := range paths {
				for _, sf := range suffixes {
					ref := p.path + sf.s
					got, err := pd.GetApplicableTrustPolicy(ref)
					want := model(d, p, sf.digest)
					gotName := ""
					if err == nil && got != nil {
						gotName = got.Name
					}
					key := ""
					if want != "" {
						key = fmt.Sprintf("%d|%d|%s", di, pi, ref)
						r.Event("selected")
					} else {
						r.Event("refused")
					}
					r.Eval(key)
					if gotName != want {
						r.Violation(map[string]string{"kind": "selection", "want_empty": fmt.Sprint(want == ""), "got_empty": fmt.Sprint(gotName == "")},
							fmt.Sprintf("reference %q selected statement %q, model says %q (err=%v)", ref, gotName, want, err),
							map[string]any{"document": json.RawMessage(snap), "reference": ref, "owner": d.owner, "wildcard": d.wild})
						continue
					}
					if err == nil {
						for _, st := range d.st {
							if st.Name == got.Name && (!sameSV(st.SignatureVerification, got.SignatureVerification) || !sameStrings(st.TrustStores, got.TrustStores) || !sameStrings(st.TrustedIdentities, got.TrustedIdentities) || !sameStrings(st.RegistryScopes, got.RegistryScopes)) {
								r.Violation(map[string]string{"kind": "statement-not-the-documents", "doc": "oci"}, fmt.Sprintf("the statement handed out for %q differs from the document's statement %q: %s vs %s", ref, st.Name, docJSON(got), docJSON(st)), nil)
							}
						}
					}
					if err == nil && pi < 3 && sf.digest {
						// aliasing monitor
						first := docJSON(got)
						scribbleSV(&got.SignatureVerification)
						scribbleStrings(got.TrustStores)
						scribbleStrings(got.TrustedIdentities)
						scribbleStrings(got.RegistryScopes)
						got.Name = "scribbled"
						r.Event("aliasing-probes")
						if now := docJSON(pd); now != snap {
							r.Violation(map[string]string{"kind": "aliasing", "doc": "oci", "what": "document-changed"},
								"mutating the statement returned by GetApplicableTrustPolicy changed the policy document",
								map[string]any{"before": json.RawMessage(snap), "after": json.RawMessage(now), "reference": ref})
							// restore a fresh document for the remaining cases
							pd = &trustpolicy.OCIDocument{}
							json.Unmarshal([]byte(snap), pd)
						}
						again, err2 := pd.GetApplicableTrustPolicy(ref)
						if err2 != nil || docJSON(again) != first {
							r.Violation(map[string]string{"kind": "aliasing", "doc": "oci", "what": "later-selection-changed"},
								"a later selection differs after the earlier result was mutated", map[string]any{"first": json.RawMessage(first), "again": again, "reference": ref})
						}
					}
				}
			}
		}
	}, r.PanicViolation("OCIDocument.GetApplicableTrustPolicy"))

	// ---- 1b. a document that was validated once and is then edited in place (statements reversed, a scope moved to
	// another statement, a scope added, a statement prepended - each edit leaves a valid document): the selection follows
	// the document as it IS, whatever Validate may have noted about it earlier
	lib.Parallel(len(docs), 16, func(di int) {
		d := docs[di]
		pd := deepCopy(&trustpolicy.OCIDocument{Version: "1.0", TrustPolicies: d.st})
		if err := pd.Validate(); err != nil {
			panic(fmt.Sprintf("harness bug: generated document invalid: %v", err))
		}
		owner := map[string]string{}
		for k, v := range d.owner {
			owner[k] = v
		}
		wild := d.wild
		ask := func(edit string) {
			for _, p := range paths {
				ref := p.path + digestSuffix
				want := ""
				if p.valid {
					want = wild
					if o, ok := owner[p.path]; ok {
						want = o
					}
				}
				got, err := pd.GetApplicableTrustPolicy(ref)
				gotName := ""
				if err == nil && got != nil {
					gotName = got.Name
				}
				r.Eval(fmt.Sprintf("edited|%d|%s|%s", di, edit, ref))
				r.Event("selections-on-a-document-edited-after-validation")
				if gotName != want {
					r.Violation(map[string]string{"kind": "selection", "want_empty": fmt.Sprint(want == ""), "got_empty": fmt.Sprint(gotName == ""), "edited": edit},
						fmt.Sprintf("after the validated document was edited in place (%s), reference %q selected statement %q, the document says %q (err=%v)", edit, ref, gotName, want, err),
						map[string]any{"document": json.RawMessage(docJSON(pd)), "reference": ref})
					return
				}
			}
		}
		// reversed in place
		for i, j := 0, len(pd.TrustPolicies)-1; i < j; i, j = i+1, j-1 {
			pd.TrustPolicies[i], pd.TrustPolicies[j] = pd.TrustPolicies[j], pd.TrustPolicies[i]
		}
		ask("statements reversed")
		// a scope moves from one statement to another
		var scoped []int
		for i, st := range pd.TrustPolicies {
			if st.Name != wild {
				scoped = append(scoped, i)
			}
		}
		if len(scoped) >= 2 {
			a, b := &pd.TrustPolicies[scoped[0]], &pd.TrustPolicies[scoped[1]]
			if len(a.RegistryScopes) >= 2 {
				sc := a.RegistryScopes[0]
				a.RegistryScopes = append([]string(nil), a.RegistryScopes[1:]...)
				b.RegistryScopes = append(append([]string(nil), b.RegistryScopes...), sc)
				owner[sc] = b.Name
				ask("scope moved to another statement")
			}
		}
		// a new scope is added to an existing statement
		if len(scoped) >= 1 {
			a := &pd.TrustPolicies[scoped[len(scoped)-1]]
			for _, sc := range scopes {
				if _, taken := owner[sc]; !taken {
					a.RegistryScopes = append(append([]string(nil), a.RegistryScopes...), sc)
					owner[sc] = a.Name
					break
				}
			}
			ask("scope added")
		}
		// a statement is prepended
		for _, sc := range scopes {
			if _, taken := owner[sc]; !taken {
				pd.TrustPolicies = append([]trustpolicy.OCITrustPolicy{{Name: "prepended", RegistryScopes: []string{sc}, SignatureVerification: trustpolicy.SignatureVerification{VerificationLevel: "strict"}, TrustStores: []string{"ca:prepended"}, TrustedIdentities: []string{"*"}}}, pd.TrustPolicies...)
				owner[sc] = "prepended"
				break
			}
		}
		ask("statement prepended")
		if err := pd.Validate(); err != nil {
			panic(fmt.Sprintf("harness bug: edited document invalid: %v %s", err, docJSON(pd)))
		}
		ask("validated again")
	}, r.PanicViolation("OCIDocument.GetApplicableTrustPolicy"))

	// ---- 2. through verifier.Verify: the statement applied is observed from the store consulted
	lib.Parallel(nVerify, 16, func(i int) {
		rg := r.Rand(fmt.Sprintf("verify-%d", i))
		d := docs[rg.Intn(len(docs))]
		pm := rg.Perm(len(d.st))
		st := make([]trustpolicy.OCITrustPolicy, len(pm))
		for a, j := range pm {
			st[a] = d.st[j]
		}
		pd := deepCopy(&trustpolicy.OCIDocument{Version: "1.0", TrustPolicies: st})
		ts := lib.NewMemTS()
		for _, s := range d.st {
			ts.Put("ca:"+s.Name, signer.Root().Cert)
		}
		v, err := verifier.NewVerifierWithOptions(ts, verifier.VerifierOptions{OCITrustPolicy: pd, RevocationCodeSigningValidator: lib.OKRev{}, RevocationTimestampingValidator: lib.OKRev{}})
		if err != nil {
			panic(err)
		}
		for _, p := range paths {
			for _, sf := range suffixes[:3] {
				ref := p.path + sf.s
				ts.Calls = nil
				out, verr := v.Verify(context.Background(), desc, sig, notation.VerifierVerifyOptions{ArtifactReference: ref, SignatureMediaType: lib.MediaJWS})
				want := model(d, p, sf.digest)
				r.Eval(fmt.Sprintf("verify|%d|%s", i, ref))
				wit := map[string]any{"document": pd, "reference": ref, "error": fmt.Sprint(verr), "stores_consulted": ts.Calls, "model": want}
				var noPol notation.ErrorNoApplicableTrustPolicy
				switch {
				case want == "":
					r.Event("verify-refused")
					if verr == nil || !errors.As(verr, &noPol) || out != nil {
						r.Violation(map[string]string{"kind": "verifier-no-applicable-policy"}, fmt.Sprintf("reference %q: expected a no-applicable-policy refusal, got outcome=%v err=%v", ref, out != nil, verr), wit)
					}
				case want == d.skip:
					r.Event("verify-applied-skip")
					if verr != nil || out == nil || out.VerificationLevel == nil || out.VerificationLevel.Name != "skip" || len(ts.Calls) != 0 {
						r.Violation(map[string]string{"kind": "verifier-applied-statement"}, fmt.Sprintf("reference %q: expected the skip statement %q to apply", ref, want), wit)
					}
				default:
					r.Event("verify-applied")
					if verr != nil || len(ts.Calls) != 1 || ts.Calls[0] != "ca:"+want {
						r.Violation(map[string]string{"kind": "verifier-applied-statement"}, fmt.Sprintf("reference %q: expected statement %q (store ca:%s) to be applied, stores consulted %v, err=%v", ref, want, want, ts.Calls, verr), wit)
					}
				}
			}
		}
		// ---- 2b. the same through the top-level entry point notation.Verify over a repository (artifact signed, not signed,
		// or not resolvable): with the library's verifier a reference nothing applies to is refused with the
		// no-applicable-policy error whatever the repository holds; with a verifier that only forwards Verify (a logging
		// wrapper) the policy is consulted once a signature was fetched - the reference it is asked about is the caller's
		if i%3 != 0 {
			return
		}
		for pi, p := range paths {
			for si, sf := range []string{"@" + desc.Digest.String(), ":v1"} {
				for ri, state := range []string{"signed", "unsigned", "unresolvable"} {
					if (pi+si+ri+i)%2 == 1 {
						continue
					}
					ref := p.path + sf
					want := model(d, p, si == 0)
					for _, wrapped := range []bool{false, true} {
						var vv notation.Verifier = v
						if wrapped {
							vv = forwardOnly{v}
						}
						repo := &fakeRepo{state: state, desc: desc, sig: sig}
						got, outs, verr := notation.Verify(context.Background(), vv, repo, notation.VerifyOptions{ArtifactReference: ref, MaxSignatureAttempts: 3})
						r.Eval(fmt.Sprintf("top|%d|%s|%s|%v", i, ref, state, wrapped))
						wit := map[string]any{"document": pd, "reference": ref, "repository": state, "verifier_forwards_verify_only": wrapped, "error": fmt.Sprint(verr), "model": want}
						sg := map[string]string{"kind": "top-level-no-applicable-policy", "wrapped": fmt.Sprint(wrapped), "repository": state, "tag": fmt.Sprint(si == 1)}
						var noPol notation.ErrorNoApplicableTrustPolicy
						var retrieval notation.ErrorSignatureRetrievalFailed
						switch {
						case want == "" && !wrapped:
							r.Event("top-level-refused")
							if verr == nil || !errors.As(verr, &noPol) {
								r.Violation(sg, fmt.Sprintf("notation.Verify(%q) over a repository whose artifact is %s: expected the no-applicable-policy refusal, got err=%v (%T)", ref, state, verr, verr), wit)
							}
						case want == "" && wrapped:
							r.Event("top-level-refused-through-a-forwarding-verifier")
							if verr == nil || (!errors.As(verr, &noPol) && !errors.As(verr, &retrieval)) {
								r.Violation(sg, fmt.Sprintf("notation.Verify(%q) with a verifier that only forwards Verify, artifact %s: no statement applies to this reference, got descriptor=%s outcomes=%d err=%v", ref, state, got.Digest, len(outs), verr), wit)
							}
							if state == "signed" && si == 1 && p.valid && verr != nil && !errors.As(verr, &noPol) && !errors.As(verr, &retrieval) {
								r.Violation(sg, fmt.Sprintf("notation.Verify(%q): a tag-only reference selects nothing; got err=%v", ref, verr), wit)
							}
						case state == "signed":
							r.Event("top-level-applied")
							if verr != nil || (want != d.skip && got.Digest != desc.Digest) {
								r.Violation(map[string]string{"kind": "top-level-applied-statement", "wrapped": fmt.Sprint(wrapped)}, fmt.Sprintf("notation.Verify(%q): statement %q applies and trusts the signer, got err=%v", ref, want, verr), wit)
							}
						}
					}
				}
			}
		}
	}, r.PanicViolation("verifier.Verify"))

	// ---- 2c. ONE verifier shared by goroutines that ask about different repositories at the same time: every answer is
	// the answer for the reference that was asked (the statements differ in their level, which both entry points report)
	{
		lv := []string{"strict", "permissive", "audit"}
		var sts []trustpolicy.OCITrustPolicy
		want := map[string]string{}
		for k, name := range lv {
			repo := fmt.Sprintf("reg.io/shared/%d", k)
			sts = append(sts, trustpolicy.OCITrustPolicy{Name: name, RegistryScopes: []string{repo}, SignatureVerification: trustpolicy.SignatureVerification{VerificationLevel: name}, TrustStores: []string{"ca:x"}, TrustedIdentities: []string{"*"}})
			want[repo] = name
		}
		sts = append(sts, trustpolicy.OCITrustPolicy{Name: "everything-else", RegistryScopes: []string{"*"}, SignatureVerification: trustpolicy.SignatureVerification{VerificationLevel: "skip"}})
		want["reg.io/shared/unlisted"], want["other.io/x"] = "skip", "skip"
		ts := lib.NewMemTS().Put("ca:x", signer.Root().Cert)
		v, err := verifier.NewVerifierWithOptions(ts, verifier.VerifierOptions{OCITrustPolicy: &trustpolicy.OCIDocument{Version: "1.0", TrustPolicies: sts}, RevocationCodeSigningValidator: lib.OKRev{}, RevocationTimestampingValidator: lib.OKRev{}})
		if err != nil {
			panic(err)
		}
		var repos []string
		for k := range want {
			repos = append(repos, k)
		}
		sort.Strings(repos)
		rounds := r.N(25000, 200000)
		var wg sync.WaitGroup
		for g := 0; g < 16; g++ {
			wg.Add(1)
			go func(g int) {
				defer wg.Done()
				defer func() {
					if p := recover(); p != nil {
						r.Violation(map[string]string{"kind": "panic", "phase": "shared-verifier"}, fmt.Sprintf("shared verifier: panic: %v", p), nil)
					}
				}()
				repo := repos[g%len(repos)]
				ref := repo + "@" + desc.Digest.String()
				for k := 0; k < rounds; k++ {
					skip, level, err := v.SkipVerify(context.Background(), notation.VerifierVerifyOptions{ArtifactReference: ref})
					got := "<error>"
					if err == nil && level != nil {
						got = level.Name
					}
					if k%8 == 0 && want[repo] != "skip" {
						if out, _ := v.Verify(context.Background(), desc, sig, notation.VerifierVerifyOptions{ArtifactReference: ref, SignatureMediaType: lib.MediaJWS}); out != nil && out.VerificationLevel != nil && got == want[repo] {
							got = out.VerificationLevel.Name
						}
					}
					r.Event("selections-on-a-shared-verifier")
					if got != want[repo] || skip != (want[repo] == "skip") {
						r.Violation(map[string]string{"kind": "selection", "phase": "shared-verifier"}, fmt.Sprintf("goroutine %d asked about %s while 15 others asked about other repositories on the same verifier: it was answered with the level %q (skip=%v, err=%v), its statement has %q", g, repo, got, skip, err, want[repo]), nil)
						return
					}
				}
			}(g)
		}
		wg.Wait()
		r.Eval("shared-verifier-selection")
	}

	// ---- 3. blob documents
	names := []string{"a", "A", "a ", "ab", "b", "a/b", "a.b", "*", "global"}
	queries := append(append([]string{}, names...), " a", "a\n", "aa", "", "B", "a/", "glob")
	blob := []byte("c08 blob")
	blobPayload := lib.Payload(lib.Desc("text/plain", blob))
	blobSig := lib.MustCoreSign(lib.SignSpec{Format: lib.MediaJWS, Payload: blobPayload, Signer: signer})
	nBlob := r.N(300, 20000)
	lib.Parallel(nBlob, 16, func(i int) {
		rg := r.Rand(fmt.Sprintf("blob-%d", i))
		k := 1 + rg.Intn(4)
		pm := rg.Perm(len(names))
		var st []trustpolicy.BlobTrustPolicy
		global := ""
		for j := 0; j < k; j++ {
			n := names[pm[j]]
			p := trustpolicy.BlobTrustPolicy{Name: n, SignatureVerification: trustpolicy.SignatureVerification{VerificationLevel: "strict"}, TrustStores: []string{"ca:s" + fmt.Sprint(j)}, TrustedIdentities: []string{"*"}}
			switch rg.Intn(6) {
			case 0, 1:
				p.SignatureVerification.Override = map[trustpolicy.ValidationType]trustpolicy.ValidationAction{trustpolicy.TypeRevocation: trustpolicy.ActionLog}
			case 2:
				p.SignatureVerification.Override = map[trustpolicy.ValidationType]trustpolicy.ValidationAction{}
			}
			p.SignatureVerification.VerifyTimestamp = []trustpolicy.TimestampOption{"", "", trustpolicy.OptionAlways, trustpolicy.OptionAfterCertExpiry}[rg.Intn(4)]
			if global == "" && rg.Intn(3) == 0 {
				p.GlobalPolicy = true
				global = n
			}
			st = append(st, p)
		}
		bd := &trustpolicy.BlobDocument{Version: "1.0", TrustPolicies: st}
		if err := bd.Validate(); err != nil {
			panic(fmt.Sprintf("harness bug: blob document invalid: %v", err))
		}
		snap := docJSON(bd)
		storeOf := map[string]string{}
		ts := lib.NewMemTS()
		for _, s := range st {
			storeOf[s.Name] = s.TrustStores[0]
			ts.Put(s.TrustStores[0], signer.Root().Cert)
		}
		v, err := verifier.NewVerifierWithOptions(ts, verifier.VerifierOptions{BlobTrustPolicy: bd, RevocationCodeSigningValidator: lib.OKRev{}, RevocationTimestampingValidator: lib.OKRev{}})
		if err != nil {
			panic(err)
		}
		for _, q := range queries {
			if q != "" && strings.TrimSpace(q) == "" {
				continue
			}
			want := ""
			if q == "" {
				want = global
			} else if _, ok := storeOf[q]; ok {
				want = q
			}
			var got *trustpolicy.BlobTrustPolicy
			var gerr error
			if q == "" {
				got, gerr = bd.GetGlobalTrustPolicy()
			} else {
				got, gerr = bd.GetApplicableTrustPolicy(q)
			}
			gotName := ""
			if gerr == nil && got != nil {
				gotName = got.Name
			}
			key := ""
			if want != "" {
				key = fmt.Sprintf("blob|%d|%q", i, q)
				r.Event("blob-selected")
			} else {
				r.Event("blob-refused")
			}
			r.Eval(key)
			if gotName != want || (want == "" && gerr == nil) {
				r.Violation(map[string]string{"kind": "blob-selection"}, fmt.Sprintf("blob policy name %q selected %q, model says %q (err=%v)", q, gotName, want, gerr), map[string]any{"document": json.RawMessage(snap), "query": q})
				continue
			}
			if gerr == nil {
				for _, bst := range st {
					if bst.Name == got.Name && (!sameSV(bst.SignatureVerification, got.SignatureVerification) || !sameStrings(bst.TrustStores, got.TrustStores) || !sameStrings(bst.TrustedIdentities, got.TrustedIdentities) || bst.GlobalPolicy != got.GlobalPolicy) {
						r.Violation(map[string]string{"kind": "statement-not-the-documents", "doc": "blob"}, fmt.Sprintf("the blob statement handed out for %q differs from the document's statement: %s vs %s", q, docJSON(got), docJSON(bst)), nil)
					}
				}
				first := docJSON(got)
				scribbleSV(&got.SignatureVerification)
				scribbleStrings(got.TrustStores)
				scribbleStrings(got.TrustedIdentities)
				got.Name, got.GlobalPolicy = "scribbled", !got.GlobalPolicy
				r.Event("aliasing-probes")
				if now := docJSON(bd); now != snap {
					r.Violation(map[string]string{"kind": "aliasing", "doc": "blob", "what": "document-changed"}, "mutating the returned blob statement changed the policy document", map[string]any{"before": json.RawMessage(snap), "after": json.RawMessage(now), "query": q})
					return // the verifier below holds the damaged document; the defect is already recorded
				}
				var again *trustpolicy.BlobTrustPolicy
				if q == "" {
					again, _ = bd.GetGlobalTrustPolicy()
				} else {
					again, _ = bd.GetApplicableTrustPolicy(q)
				}
				if docJSON(again) != first {
					r.Violation(map[string]string{"kind": "aliasing", "doc": "blob", "what": "later-selection-changed"}, "a later blob selection differs after the earlier result was mutated", map[string]any{"first": json.RawMessage(first), "again": again})
				}
			}
			// through the verifier
			ts.Calls = nil
			out, verr := v.VerifyBlob(context.Background(), func(alg digest.Algorithm) (ocispec.Descriptor, error) { return lib.Desc("text/plain", blob), nil }, blobSig, notation.BlobVerifierVerifyOptions{SignatureMediaType: lib.MediaJWS, TrustPolicyName: q})
			var noPol notation.ErrorNoApplicableTrustPolicy
			if want == "" {
				if verr == nil || !errors.As(verr, &noPol) || out != nil {
					r.Violation(map[string]string{"kind": "blob-verifier-no-applicable-policy"}, fmt.Sprintf("blob policy %q: expected refusal, got err=%v", q, verr), map[string]any{"document": json.RawMessage(snap)})
				}
			} else if verr != nil || len(ts.Calls) != 1 || ts.Calls[0] != storeOf[want] {
				r.Violation(map[string]string{"kind": "blob-verifier-applied-statement"}, fmt.Sprintf("blob policy %q: expected store %s consulted, got %v err=%v", q, storeOf[want], ts.Calls, verr), map[string]any{"document": json.RawMessage(snap)})
			} else {
				r.Event("blob-verify-applied")
			}
		}
	}, r.PanicViolation("BlobDocument selection"))

	r.RequireAtLeast("selected", 1000)
	r.RequireAtLeast("refused", 1000)
	r.RequireAtLeast("aliasing-probes", 500)
	r.RequireAtLeast("verify-applied", 200)
	r.RequireAtLeast("blob-selected", 200)
	r.RequireAtLeast("blob-verify-applied", 100)
	r.Finish()
}

// deepCopy clones a document through JSON so that no map or slice is shared with the generator's copy.
// forwardOnly is a verifier that forwards Verify and nothing else (what a logging / metrics wrapper looks like).
type forwardOnly struct{ inner notation.Verifier }

func (f forwardOnly) Verify(ctx context.Context, desc ocispec.Descriptor, sig []byte, opts notation.VerifierVerifyOptions) (*notation.VerificationOutcome, error) {
	return f.inner.Verify(ctx, desc, sig, opts)
}

// fakeRepo is a repository holding one artifact (any tag or digest resolves to it) with one signature, none, or
// nothing at all.
type fakeRepo struct {
	state string // signed unsigned unresolvable
	desc  ocispec.Descriptor
	sig   []byte
}

func (f *fakeRepo) Resolve(ctx context.Context, reference string) (ocispec.Descriptor, error) {
	if f.state == "unresolvable" {
		return ocispec.Descriptor{}, errors.New("fake repository: not found")
	}
	return f.desc, nil
}
func (f *fakeRepo) ListSignatures(ctx context.Context, desc ocispec.Descriptor, fn func([]ocispec.Descriptor) error) error {
	if f.state != "signed" {
		return nil
	}
	return fn([]ocispec.Descriptor{lib.Desc(ocispec.MediaTypeImageManifest, []byte("signature manifest"))})
}
func (f *fakeRepo) FetchSignatureBlob(ctx context.Context, desc ocispec.Descriptor) ([]byte, ocispec.Descriptor, error) {
	return f.sig, lib.Desc(lib.MediaJWS, f.sig), nil
}
func (f *fakeRepo) PushSignature(ctx context.Context, mediaType string, blob []byte, subject ocispec.Descriptor, annotations map[string]string) (ocispec.Descriptor, ocispec.Descriptor, error) {
	return ocispec.Descriptor{}, ocispec.Descriptor{}, errors.New("fake repository: read-only")
}

func deepCopy(d *trustpolicy.OCIDocument) *trustpolicy.OCIDocument {
	out := &trustpolicy.OCIDocument{}
	if err := json.Unmarshal([]byte(docJSON(d)), out); err != nil {
		panic(err)
	}
	return out
}

func permutations(n int) [][]int {
	var out [][]int
	a := make([]int, n)
	for i := range a {
		a[i] = i
	}
	var rec func(k int)
	rec = func(k int) {
		if k == n {
			out = append(out, append([]int(nil), a...))
			return
		}
		for i := k; i < n; i++ {
			a[k], a[i] = a[i], a[k]
			rec(k + 1)
			a[k], a[i] = a[i], a[k]
		}
	}
	rec(0)
	sort.Slice(out, func(i, j int) bool { return fmt.Sprint(out[i]) < fmt.Sprint(out[j]) })
	return out
}
