module github.com/notaryproject/notation-go/verifharness

go 1.23.0

require (
	github.com/anishathalye/porcupine v1.3.0
	github.com/fxamacker/cbor/v2 v2.8.0
	github.com/notaryproject/notation-core-go v1.3.0
	github.com/notaryproject/notation-go v0.0.0-00010101000000-000000000000
	github.com/notaryproject/notation-plugin-framework-go v1.0.0
	github.com/notaryproject/tspclient-go v1.0.0
	github.com/opencontainers/go-digest v1.0.0
	github.com/opencontainers/image-spec v1.1.1
	github.com/veraison/go-cose v1.3.0
	oras.land/oras-go/v2 v2.5.0
)

require (
	github.com/Azure/go-ntlmssp v0.0.0-20221128193559-754e69321358 // indirect
	github.com/go-asn1-ber/asn1-ber v1.5.7 // indirect
	github.com/go-ldap/ldap/v3 v3.4.10 // indirect
	github.com/golang-jwt/jwt/v4 v4.5.2 // indirect
	github.com/google/uuid v1.6.0 // indirect
	github.com/x448/float16 v0.8.4 // indirect
	golang.org/x/crypto v0.37.0 // indirect
	golang.org/x/mod v0.24.0 // indirect
	golang.org/x/sync v0.10.0 // indirect
)

replace github.com/notaryproject/notation-go => /repo
